#!/usr/bin/env python3
"""record in seeded/<id>/meta.json what the registered quick check said about the seeded change (from tools/run_seeded.sh logs in /var/tmp)"""
import json, re, glob, os
for f in sorted(glob.glob('/var/tmp/seedrun.*.log')):
    m = re.match(r'.*/seedrun\.(C\d\d-m\d)\.(C\d\d)\.log', f)
    s, prop = m.group(1), m.group(2)
    p = '/verif/seeded/%s/meta.json' % s
    if not os.path.exists(p):
        continue
    txt = open(f).read()
    v = re.findall(r'^VIOLATION property=\S+ replay=\S+?/(C\d\d\.[^ /]+)\.json( .*no-failing-input-found)?', txt, re.M)
    und = re.findall(r'^UNDECIDED: (.*)', txt, re.M)
    meta = json.load(open(p))
    d = dict(check='python3 check.py %s --tier quick (on a scratch copy with the patch applied: tools/run_seeded.sh %s%s)' % (prop, s, '' if prop == s[:3] else ' ' + prop),
             verdict='VIOLATION' if v else ('UNDECIDED (exit 2)' if und else 'not detected (exit 0)'),
             obligations=[x[0] for x in v][:6], failing_input_found=bool(v) and not all(x[1] for x in v), undecided=[u[:200] for u in und][:2])
    if prop == s[:3]:
        meta['detected_by'] = d
    else:
        meta.setdefault('also_run_against', {})[prop] = d
    json.dump(meta, open(p, 'w'), indent=1)
    print(s, prop, d['verdict'], d['obligations'][:2])
