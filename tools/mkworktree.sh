#!/bin/bash
# usage: mkworktree.sh <dir>  -- buildable scratch worktree of /repo HEAD (build infrastructure copied, then built)
set -e
d=$1
git -C /repo worktree add -q "$d" HEAD
rsync -a --ignore-existing --exclude .git /repo/ "$d"/
cd "$d" && make -j16 >/dev/null 2>&1 && echo "worktree ready: $d"
