#!/bin/bash
# usage: tools/run_seeded.sh <seed id, e.g. C07-m1> [property]  -- run the registered quick check of the property on a scratch copy of /repo with the seeded change applied
s=$1; p=${2:-${s%%-*}}
M=/var/tmp/mut.$$/repo; mkdir -p $M
rsync -a --delete --exclude .git --exclude '*.o' --exclude '*.lo' --exclude '.libs' --exclude '*.la' --exclude 'autom4te.cache' --exclude test --exclude doc --exclude msvc /repo/ $M/
(cd $M && patch -s -p1 < /verif/seeded/$s/patch.diff) || { echo "patch failed"; rm -rf /var/tmp/mut.$$; exit 3; }
cd /verif && VERIF_REPO=$M timeout 3000 python3 check.py $p --tier quick > /var/tmp/seedrun.$s.$p.log 2>&1; rc=$?
echo "== $s on $p: exit $rc"; grep -E "^VIOLATION|^UNDECIDED|obligations," /var/tmp/seedrun.$s.$p.log | cut -c1-300
rm -rf /var/tmp/mut.$$
