#!/bin/bash
# usage: confirm_new_seeds.sh <agent out dir> <its built scratch worktree>  -- import a sub-agent's seeds into /verif/seeded and re-confirm each one:
# demo passes on the clean tree, fails with the patch applied; library builds and `make -k check` passes with the patch; tree reverted and rebuilt afterwards
out=$1; wt=$2
cd $wt && git checkout -q -- . && make -j8 >/dev/null 2>&1
for m in $out/C??-m?; do
  [ -d $m ] || continue
  n=$(basename $m); d=/verif/seeded/$n; mkdir -p $d
  demo=demo.cpp; [ -f $m/demo.cpp ] || demo=demo.sh
  cp $m/patch.diff $m/$demo $m/notes.txt $d/
  cmd=$(head -1 $d/$demo | sed 's#^// *##; s#^\# *##; s#^/\* *##; s# *\*/$##')
  w=/var/tmp/confirm.$n; rm -rf $w; mkdir -p $w; cp $d/$demo $w/
  (cd $w && REPO=$wt bash -c "$cmd") > $w/clean.log 2>&1; crc=$?
  (cd $wt && patch -s -p1 < $d/patch.diff) || { echo "$n apply-failed"; continue; }
  (cd $wt && touch utests/*.cpp && make -j8 > $w/build.log 2>&1); brc=$?
  (cd $w && REPO=$wt bash -c "$cmd") > $w/patched.log 2>&1; prc=$?
  (cd $wt && make -k check > $w/check.log 2>&1)
  pass=$(grep -c "^PASS:" $w/check.log); fail=$(grep -c "^FAIL:" $w/check.log)
  tp=$(grep -h "PASSED" $wt/utests/*.log 2>/dev/null | grep -o "[0-9]* test" | awk '{s+=$1} END{print s+0}')
  echo "$n clean_demo_rc=$crc build_rc=$brc patched_demo_rc=$prc programs_pass=$pass programs_fail=$fail gtest_passed=$tp" | tee $d/confirm.txt
  tail -3 $w/patched.log | cut -c1-300 > $d/demo_patched_tail.txt
  (cd $wt && git checkout -q -- . && make -j8 >/dev/null 2>&1)     # back to the clean tree AND the clean library before the next seed's clean run
  rm -rf $w
done
cd $wt && make -j8 >/dev/null 2>&1
echo "$(basename $out) done"
