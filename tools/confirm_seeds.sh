#!/bin/bash
# usage: confirm_seeds.sh <property id>  -- re-confirm a sub-agent's seeded changes in its scratch worktree /tmp/wt-<id>:
# demo passes on the clean tree, fails with the patch, library builds and all 31 utests pass with the patch.
p=$1; wt=/tmp/wt-$p; out=/tmp/seed-$p/confirm.txt; : > $out
cd $wt && git checkout -q -- . && make -j8 >/dev/null 2>&1
for m in /tmp/seed-$p/m*; do
  n=$(basename $m)
  cmd=$(head -1 $m/demo.cpp | sed 's#^// *##; s#^/\* *##; s# *\*/$##')
  clean_rc=x; bash -c "$cmd" >$m/confirm_clean.log 2>&1; clean_rc=$?
  git apply $m/patch.diff || { echo "$p $n apply-failed" >> $out; continue; }
  touch utests/*.cpp
  make -j8 >$m/confirm_build.log 2>&1; brc=$?
  bash -c "$cmd" >$m/confirm_patched.log 2>&1; patched_rc=$?
  make -k check >$m/confirm_check.log 2>&1
  tp=$(grep -h "PASSED" utests/*.log 2>/dev/null | grep -o "[0-9]* test" | awk '{s+=$1} END{print s+0}')
  tf=$(grep -h "FAILED TEST" utests/*.log 2>/dev/null | wc -l)
  echo "$p $n clean_demo_rc=$clean_rc build_rc=$brc patched_demo_rc=$patched_rc gtest_passed=$tp failed_lines=$tf" >> $out
  git checkout -q -- .
done
make -j8 >/dev/null 2>&1
echo "$p done" >> $out
