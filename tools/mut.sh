#!/bin/bash
# usage: tools/mut.sh <file relative to repo> <sed expression> <unit> [proof]   -- dev helper: apply a one-line mutant to a scratch copy and run a unit's proofs
set -e
M=/var/tmp/mut/repo
rsync -a --delete --exclude .git --exclude '*.o' --exclude '*.lo' --exclude '.libs' --exclude '*.la' --exclude 'autom4te.cache' --exclude test --exclude doc --exclude msvc /repo/ $M/
sed -i "$2" $M/$1
diff <(cd /repo && cat $1) $M/$1 || true
cd /verif && VERIF_REPO=$M python3 dev_run.py $3 $4 2>&1 | grep -v "vacuity-probe" | tail -12
