// TU for units extracted from runtime/message.cpp and message.hpp (C02, C03, C06): the real source file, found through -I<repo>/runtime
#include <precomp.hpp>
#include <message.cpp>
