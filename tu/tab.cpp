// TU used for extraction of the K-tab units (C12): real public headers + explicit instantiations
#include <fix8/f8includes.hpp>

template class FIX8::GeneratedTable<unsigned, FIX8::BaseEntry>;
template class FIX8::GeneratedTable<const char *, FIX8::BaseMsgEntry>;
