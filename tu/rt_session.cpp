// TU for units extracted from runtime/session.cpp (C16-C20, C22, C23): the real source file, found through -I<repo>/runtime
#include <precomp.hpp>
#include <session.cpp>
