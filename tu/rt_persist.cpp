// TU for units extracted from runtime/persist.cpp (C26): the real source file, found through -I<repo>/runtime
#include <precomp.hpp>
#include <persist.cpp>
