// TU for units extracted from runtime/logger.cpp (C28, C29): the real source file, found through -I<repo>/runtime
#include <precomp.hpp>
#include <logger.cpp>
