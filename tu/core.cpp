// TU used for extraction: the real public headers of fix8 (header-inline units)
#include <fix8/f8includes.hpp>

// explicit instantiations requested by the verification units (only these instantiations are verified)
template size_t FIX8::itoa<int>(int, char *, int);
template int FIX8::fast_atoi<int>(const char *, const char);
template unsigned FIX8::fast_atoi<unsigned>(const char *, const char);
template unsigned short FIX8::fast_atoi<unsigned short>(const char *, const char);
template int FIX8::RealmBase::get_rlm_idx<int>(const int&) const;
template int FIX8::RealmBase::get_rlm_idx<char>(const char&) const;
template bool FIX8::RealmBase::is_valid<int>(const int&) const;
template bool FIX8::RealmBase::is_valid<char>(const char&) const;
// Field<T, tag>::get_rlm_idx / is_valid wrappers (C10): one instantiation per value type
template class FIX8::Field<int, 34>;
template class FIX8::Field<char, 54>;
template class FIX8::Field<FIX8::Boolean, 43>;
