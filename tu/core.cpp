// TU used for extraction: the real public headers of fix8 (header-inline units)
#include <fix8/f8includes.hpp>
