// TU for units extracted from runtime/filepersist.cpp (C26, C29): the real source file, found through -I<repo>/runtime
#include <precomp.hpp>
#include <filepersist.cpp>
