// TU for units extracted from runtime/connection.cpp and connection.hpp (C15): the real source file, found through -I<repo>/runtime
#include <precomp.hpp>
#include <connection.cpp>
