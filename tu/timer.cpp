// TU for the K-timer unit (C31): real headers + explicit instantiation of the timer the session uses
#include <fix8/f8includes.hpp>
template class FIX8::Timer<FIX8::Session>;
template class FIX8::TimerEvent<FIX8::Session>;
