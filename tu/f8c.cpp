// TU for units extracted from the schema compiler (C14): the real compiler/f8c.cpp, found through -I<repo>/compiler
#include <f8c.cpp>
