#!/usr/bin/env python3
"""writes MANIFEST.json from specs/registry.py"""
import json, subprocess, sys, os, sys
sys.path.insert(0, os.path.dirname(os.path.abspath(__file__)))
from specs import registry
checks = []
for pid in sorted(registry.PROPS):
    P = registry.PROPS[pid]
    checks.append(dict(
        property_id=pid,
        quick_cmd='python3 check.py %s --tier quick' % pid,
        thorough_cmd='python3 check.py %s --tier thorough' % pid,
        evidence_file='evidence/%s.json' % pid,
        replay_cmd_template='cat {path}',
        engine='cbmc-dfcc',
        level_claimed=dict(category=P['level'], text=P['text'], design_ref=P.get('design_ref', '')),
        level_note=P['note'],
        technique=P['technique'],
    ))
m = dict(
    version=1,
    setup_cmd='python3 setup_check.py',
    hooks=dict(guard='FIX8_VERIF', enable='no source hooks are needed: contracts live in /verif/specs and are spliced into C generated from the clang AST of /repo on every run',
               baseline_off_cmd='cd /repo && make -j16 >/dev/null 2>&1; make -k check', source_commits=[], add_only=True),
    engines=[dict(name='cbmc-dfcc', path='check.py', serves_properties=sorted(registry.PROPS),
                  kind_free_text='clang-14 JSON AST -> C (vlib/cxx2c.py) + contracts from specs/ -> goto-cc -> goto-instrument --dfcc (enforce/replace/loop contracts) -> cbmc 6.11, one process per key obligation, solver portfolio (cadical, z3, kissat, cvc5, minisat)')],
    checks=checks,
    notes='Contract-based deductive verification of the real code; see DESIGN.md. Exit 2 = undecided/broken (never a verdict).',
    not_applicable=[dict(property_id=k, reason=v) for k, v in sorted(registry.NOT_APPLICABLE.items()) if k not in registry.PROPS],
)
json.dump(m, open(os.path.join(os.path.dirname(os.path.abspath(__file__)), 'MANIFEST.json'), 'w'), indent=1)
print('MANIFEST.json: %d checks, %d not_applicable' % (len(checks), len(m['not_applicable'])))

# self-check against the schema (tooling venv has jsonschema); a failure here must never leave an invalid MANIFEST.json behind unnoticed
import subprocess as _sp
_r = _sp.run(['python3-vt', '-c', "import json, jsonschema; jsonschema.validate(json.load(open('/verif/MANIFEST.json')), json.load(open('/root/.vp/MANIFEST.schema.json'))); print('MANIFEST.json validates against the schema')"], stdout=_sp.PIPE, stderr=_sp.STDOUT, text=True)
print(_r.stdout.strip()[-400:])
if _r.returncode != 0:
    raise SystemExit('MANIFEST.json does NOT validate')
