#!/usr/bin/env python3
"""setup: verify the tools the checks need are present (nothing is built from /repo here)"""
import shutil, subprocess, sys
need = ['clang++-14', 'cbmc', 'goto-cc', 'goto-instrument', 'g++', 'z3', 'cvc5', 'kissat']
bad = [t for t in need if not shutil.which(t)]
if bad:
    print('missing tools:', bad); sys.exit(1)
v = subprocess.run(['cbmc', '--version'], stdout=subprocess.PIPE, text=True).stdout.strip()
print('tools ok; cbmc', v)
