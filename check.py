#!/usr/bin/env python3
"""Entry point of every registered check.

  check.py <property id> [--tier quick|thorough] [--keep] [--jobs N]

Rebuilds every verification unit of the property from /repo's working tree (clang AST ->
annotated C), discharges the obligations with CBMC (dfcc contracts), and answers:
  exit 0  every obligation discharged (known findings printed as KNOWN-FINDING lines)
  exit 1  a named obligation is refuted and is not a listed known finding:
          VIOLATION property=<id> replay=<path> [no-failing-input-found]
  exit 2  undecided / machinery broken (timeout, unsupported construct, vacuous proof, ...)
Evidence is written to evidence/<id>.json on every run.
"""
import sys, os, json, time, importlib, shutil, argparse, traceback, re, atexit, signal
from concurrent.futures import ThreadPoolExecutor

HERE = os.path.dirname(os.path.abspath(__file__))
sys.path.insert(0, HERE)
from vlib import unit as U, runner as R, astdump
from vlib.cxx2c import Unsupported
from specs import registry


def main():
    ap = argparse.ArgumentParser()
    ap.add_argument('prop')
    ap.add_argument('--tier', default=os.environ.get('VERIF_TIER', 'quick'), choices=['quick', 'thorough'])
    ap.add_argument('--keep', action='store_true')
    ap.add_argument('--jobs', type=int, default=int(os.environ.get('VERIF_JOBS', '14')))
    ap.add_argument('--only', default=None, help='dev: only this proof name')
    a = ap.parse_args()
    prop = a.prop
    if prop not in registry.PROPS:
        print('unknown or unclaimed property', prop)
        return 2
    P = registry.PROPS[prop]
    seed = int(os.environ.get('VERIF_SEED', '0') or 0)
    wd = '/var/tmp/fix8verif.%d' % os.getpid()
    os.makedirs(wd, exist_ok=True)
    os.environ['TMPDIR'] = wd

    def cleanup():
        if not a.keep:
            shutil.rmtree(wd, ignore_errors=True)
    atexit.register(cleanup)

    def on_term(*x):
        # kill every solver child (each runs in its own session), drop the scratch directory, leave at once: undecided
        R.kill_all()
        time.sleep(0.3)
        R.kill_all()
        cleanup()
        os._exit(2)
    signal.signal(signal.SIGTERM, on_term)
    signal.signal(signal.SIGINT, on_term)

    t0 = time.time()
    known = json.load(open(os.path.join(HERE, 'known_findings.json')))
    kf = [k for k in known['findings'] if k['property'] == prop]
    problems = []          # exit-2 reasons
    obligations = {}       # id -> dict(status, solver, time, proof, unit, level)
    traces = {}            # id -> trace text
    functions = []
    rules = {}
    trusted = list(P.get('trusted_base', []))
    assumptions = list(P.get('assumptions', []))
    checker_cmds = []
    native = []            # native (non-deductive) sub-checks: dict(name, kind, domain, ok, detail)
    pool = ThreadPoolExecutor(max_workers=a.jobs)

    jobs = []
    for uname in P['units']:
        spec = importlib.import_module('specs.' + uname).UNIT
        proofs = [ps for ps in spec.get('proofs', []) if prop in ps.get('properties', [ps.get('property')])
                  and (a.tier == 'thorough' or ps.get('tier', 'quick') == 'quick')
                  and (a.only is None or ps['name'] == a.only)]
        natives = [ns for ns in spec.get('native', []) if prop in ns.get('properties', [])
                   and (a.tier == 'thorough' or ns.get('tier', 'quick') == 'quick')]
        if not proofs and not natives:
            continue
        try:
            b = U.build(spec, wd)
        except (Unsupported, astdump.ExtractError) as e:
            problems.append('unit %s: extraction failed: %s' % (uname, str(e)[:600]))
            continue
        except Exception as e:
            problems.append('unit %s: build crashed: %s' % (uname, traceback.format_exc()[-800:]))
            continue
        for f in b['functions']:
            if f not in functions:
                functions.append(dict(f, unit=uname))
        for k, v in b['rules'].items():
            rules[k] = rules.get(k, 0) + v
        trusted += [t for t in spec.get('trusted_base', []) if t not in trusted]
        assumptions += [t for t in spec.get('assumptions', []) if t not in assumptions]
        for ps in proofs:
            jobs.append((uname, spec, b, ps))
        for ns in natives:
            native.append(ns['run'](wd, a.tier, seed))

    def run_proof(job):
        uname, spec, b, ps = job
        p = R.Proof(uname, ps, b['cfile'], wd, b['line_labels'])
        p.loop_labels = b['loop_labels']
        try:
            p.compile()
            r = p.run_split(a.tier, pool=pool)
        except R.ToolError as e:
            return job, p, dict(status='broken', error=str(e)[-1500:])
        return job, p, r

    with ThreadPoolExecutor(max_workers=max(1, min(6, len(jobs)))) as outer:
        results = list(outer.map(run_proof, jobs))
    pool.shutdown()

    n_key = 0
    for (uname, spec, b, ps), p, r in results:
        pname = '%s/%s' % (uname, ps['name'])
        if r['status'] == 'broken':
            problems.append('proof %s: tool error: %s' % (pname, r['error']))
            continue
        checker_cmds.append(r['cmd'])
        level = ps.get('level', 'proved')
        vac_seen = False
        per = {}
        for x in r['results']:
            oid = p.obligation_id(x)
            if x['desc'] == 'vacuity-probe' or 'vacuity-probe' in oid:
                vac_seen = True
                if x['res'] == 'SUCCESS':
                    problems.append('proof %s: vacuity probe is unreachable (contradictory requires?)' % pname)
                continue
            if ps.get('prefix_ids'):
                oid = ps['name'] + ':' + oid if not re.match(r'^C\d\d', oid) else oid
            e = per.setdefault(oid, dict(status='ok', solver=x.get('solver'), time=x.get('time'), proof=pname, level=level, n=0))
            e['n'] += 1
            if x['res'] != 'SUCCESS':
                e['status'] = 'fail'
                if x['name'] in r.get('traces', {}):
                    traces.setdefault(oid, (pname, x['name'], r['traces'][x['name']]))
        for oid, e in per.items():
            if oid in obligations and obligations[oid]['status'] == 'fail':
                continue
            if oid in obligations and e['status'] == 'ok':
                obligations[oid]['n'] += e['n']
                continue
            obligations[oid] = e
        if not vac_seen and not ps.get('no_vacuity_probe'):
            problems.append('proof %s: harness has no vacuity probe' % pname)
        for u in r.get('undecided', []):
            pr = p.props.get(u, {})
            problems.append('proof %s: undecided obligation %s (%s) [timeout/memory on every back end]' % (pname, u, pr.get('description', '')))
        nk = len([x for x in r['results'] if re.search(r'postcondition|precondition|loop_invariant|assertion|decreases', x['name'])])
        n_key += nk
        floor = ps.get('floor', 1)
        if nk < floor:
            problems.append('proof %s: %d key obligations, below the recorded floor %d (dropped contract?)' % (pname, nk, floor))

    for nres in native:
        oid = nres['id']
        obligations[oid] = dict(status='ok' if nres['ok'] else 'fail', solver='native:' + nres['kind'], time=nres.get('time'),
                                proof='native', level=nres['kind'], n=nres.get('cases', 1), detail=nres.get('detail'))
        if nres.get('broken'):
            problems.append('native check %s broken: %s' % (oid, nres.get('detail')))

    # ---- classify failures
    failed = [oid for oid, e in obligations.items() if e['status'] == 'fail']
    known_hit, violations = [], []
    for oid in failed:
        m = [k for k in kf if k['obligation'] == oid]
        if m:
            known_hit.append((oid, m[0]))
        else:
            violations.append(oid)
    # consequences of an earlier failure inside the contract instrumentation are not reported on their own
    internal = [v for v in violations if '__havoc_target' in v or v.startswith('__CPROVER_contracts') or ':assigns:' in v or ':loop_assigns:' in v
                or 'loop_step_unwinding' in v or ':unwind:' in v]
    primary = [v for v in violations if v not in internal]
    if primary or known_hit:
        # the instrumentation's own follow-up assertions (e.g. a contract precondition that failed makes the replaced call's write-set
        # bookkeeping fail too) are reported with the obligation that caused them -- a new violation or a listed known finding
        suppressed = internal
        violations = primary
    else:
        suppressed = []
    violations.sort(key=lambda v: (0 if re.match(r'^C\d\d', v) else 1 if '.loop' in v else 2, v))
    extra_v = violations[8:]
    # a known finding that no longer fails is worth a note (not an error)
    stale = [k for k in kf if k['obligation'] not in failed and k['obligation'] in obligations]
    expected_missing = [k for k in kf if k['obligation'] not in obligations and a.tier == 'thorough']

    for oid, k in known_hit:
        print('KNOWN-FINDING: property=%s %s -- %s' % (prop, oid, k['what']))
    for k in stale:
        print('note: listed finding %s did not fail in this run' % k['obligation'])

    outdir = os.path.join(HERE, 'out', 'replay')
    os.makedirs(outdir, exist_ok=True)
    vio_lines = []
    for oid in violations[:8]:
        e = obligations[oid]
        rp = os.path.join(outdir, '%s.%s.json' % (prop, re.sub(r'[^A-Za-z0-9_.@#-]+', '_', oid)[:120]))
        doc = dict(property=prop, obligation=oid, proof=e['proof'], level=e['level'], solver=e['solver'], detail=e.get('detail'),
                   other_refuted_obligations=extra_v, suppressed_instrumentation_consequences=suppressed[:50])
        found_input = False
        if oid in traces:
            pname, cbmc_name, tr = traces[oid]
            doc['cbmc_property'] = cbmc_name
            doc['cbmc_trace'] = trim_trace(tr)
            inputs = extract_inputs(tr)
            doc['trace_inputs'] = inputs
            rep = registry.replayers.get(pname.split('/')[0])
            if rep:
                try:
                    rr = rep(oid, inputs, tr, wd)
                    doc['native_replay'] = rr
                    found_input = bool(rr and rr.get('reproduced'))
                except Exception as ex:
                    doc['native_replay'] = dict(error=str(ex)[-500:])
        if e.get('detail') and e['proof'] == 'native':
            found_input = True
        doc['failing_input_found'] = found_input
        json.dump(doc, open(rp, 'w'), indent=1)
        line = 'VIOLATION property=%s replay=%s' % (prop, rp)
        if not found_input:
            line += ' obligation=%s no-failing-input-found' % oid
        else:
            line = 'VIOLATION property=%s replay=%s' % (prop, rp)
        vio_lines.append(line)

    # ---- evidence
    proved = {k: v for k, v in obligations.items() if v['status'] == 'ok' and v['level'] in ('proved', 'proved-modular')}
    bounded = {k: v for k, v in obligations.items() if v['status'] == 'ok' and v['level'] not in ('proved', 'proved-modular')}
    n_obl = len(obligations)
    lvl = P['level']
    samples = []
    for oid, e in list(obligations.items()):
        if re.search(r'(^|:)C\d\d\.', oid) or 'loop' in oid or e['status'] != 'ok':
            samples.append(dict(obligation=oid, status=e['status'], level=e['level'], backend=e['solver'], solver_s=e['time'], proof=e['proof']))
    samples = samples[:60]
    n_key_distinct = len([1 for oid in obligations if re.match(r'^C\d\d', oid) or re.search(r'postcondition|precondition|loop|decreases|assertion', oid)])
    by_backend = {}
    for e in obligations.values():
        by_backend[str(e['solver'])] = by_backend.get(str(e['solver']), 0) + 1
    # `obligations` counts the obligations this run had to discharge: every generated obligation except the ones refuted and
    # listed as known findings (those are genuine, recorded defects: they are reported in refuted_known_findings and counted
    # in obligations_generated, never in discharged)
    cov = dict(
        obligations=n_obl - len(known_hit),
        obligations_generated=n_obl,
        discharged=len([1 for e in obligations.values() if e['status'] == 'ok']),
        proved_unbounded=len(proved),
        bounded_or_native=len(bounded),
        bounded_list=[dict(obligation=k, level=v['level']) for k, v in bounded.items()][:40],
        refuted_known_findings=[oid for oid, k in known_hit],
        refuted_new=violations,
        undecided=[p_ for p_ in problems],
        checker_cmd='; '.join(sorted(set(checker_cmds)))[:1500] or 'python3 check.py %s --tier %s' % (prop, a.tier),
        trusted_base=trusted,
        functions_under_contract=[dict(function=f['q'], file=(f.get('file') or '').replace('/repo/', ''), line=f.get('line'), unit=f['unit'],
                                       extracted='clang AST -> C' if f.get('translated') else 'real C file compiled as is') for f in functions],
        extraction_rules_fired=rules,
        obligations_by_backend=by_backend,
        solver_cpu_s=round(sum((e['time'] or 0) for e in obligations.values()), 1),
        samples=samples,
        explanation=P.get('explanation', ''),
        evaluations=n_obl, distinct_nontrivial=n_key_distinct,
        rule='one evaluation = one named proof obligation generated from the current /repo source; non-trivial = contract-level (pre/postcondition, loop invariant base/step, decreases, user assertion)',
    )
    ev = dict(property_id=prop, tier=a.tier, seed=seed, level=lvl, coverage=cov, assumptions=assumptions,
              wall_s=round(time.time() - t0, 1), violations=len(violations))
    # evidence/<id>.json is the record of a registered run on /repo; developer runs (--only, VERIF_REPO pointing at a scratch
    # copy, VERIF_TIMEOUT_CAP) write next to it under out/ so that a partial or mutated run can never be committed as evidence
    dev = bool(a.only or os.environ.get('VERIF_REPO') or os.environ.get('VERIF_TIMEOUT_CAP'))
    evdir = os.path.join(HERE, 'out', 'evidence-dev') if dev else os.path.join(HERE, 'evidence')
    os.makedirs(evdir, exist_ok=True)
    tmp = os.path.join(evdir, '.%s.json.%d' % (prop, os.getpid()))
    json.dump(ev, open(tmp, 'w'), indent=1)
    os.replace(tmp, os.path.join(evdir, prop + '.json'))

    for l in vio_lines:
        print(l)
    for p_ in problems:
        print('UNDECIDED:', p_)
    print('%s tier=%s: %d obligations, %d discharged (%d unbounded proof, %d bounded/native), %d known findings, %d violations, %d undecided; %.0fs'
          % (prop, a.tier, n_obl, cov['discharged'], len(proved), len(bounded), len(known_hit), len(violations), len(problems), time.time() - t0))
    if violations:
        return 1
    if problems:
        return 2
    return 0


def trim_trace(tr, maxlen=20000):
    keep = []
    for ln in tr.splitlines():
        if re.match(r'^(State \d+|\s+\w[\w$!@\[\].]*=|Violated property|\s+file |\s+[^ ].*$|Assumption)', ln):
            if '__CPROVER_contracts' in ln or '__car' in ln or 'write_set' in ln:
                continue
            keep.append(ln)
    s = '\n'.join(keep)
    return s[-maxlen:]


def extract_inputs(tr):
    """last assigned value of each harness-level variable (function h_*) and of function parameters"""
    vals = {}
    cur = None
    for ln in tr.splitlines():
        m = re.match(r'^State \d+ file (\S+) function (\S+) line (\d+)', ln)
        if m:
            cur = m.group(2)
            continue
        m = re.match(r'^\s+([A-Za-z_][\w$!@\[\].]*)=(.*?)(?: \(([01 ]+)\))?$', ln)
        if m and cur and (cur.startswith('h_') or cur == 'main'):
            vals[m.group(1)] = m.group(2)
    return vals


if __name__ == '__main__':
    sys.exit(main())
