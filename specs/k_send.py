"""K-send (C16, C17, and the PossDup conjunct of C18): Session::send_process (runtime/session.cpp), body extracted from the clang AST.

The outbound message, its header, the encoder, the connection, the batch buffer and the persister are opaque (ASSUMED models):
  * header = ghost record of the fields send_process touches (34 MsgSeqNum, 43 PossDupFlag, 49/56 CompIDs, 52 SendingTime, 122 OrigSendingTime);
    `*hdr << new F(v)` adds/replaces field F with value v; have(tag)/get(F&)/remove(tag) read that record
  * msg->encode(&ptr) renders the message: its bytes are an id (g_wire_id) derived from the header record at that moment, placed at `output`
  * the batch buffer is a byte object with a ghost validity flag: clear() invalidates what `&buffer[0]` points to
  * _persist->put(seq, text) / put(send, recv) and _connection->send(ptr, len) log their arguments
Obligations are postconditions over these logs, for every combination of message attributes and session state.
"""
PRE_STRUCTS = r'''
struct fld_m { int tag; long v; };
struct hdr_m { _Bool has34, has43, has49, has56, has52, has122; long v34, v43, v49, v56, v52, v122; };
struct msg_m { struct hdr_m hdr; unsigned custom_seqnum; _Bool no_increment, end_of_batch, admin; long msgtype; };
struct conn_m { int dummy; };
struct persist_m { int dummy; };
struct plog_m { int dummy; };
struct str_m { int dummy; };
struct sid_m { long sender, target; };
'''
PRELUDE = r'''
#include <stdlib.h>
#define VACUITY_PROBE() __CPROVER_assert(0, "vacuity-probe")
long nondet_long(void); unsigned nondet_uint(void); _Bool nondet_bool(void); unsigned long nondet_ulong(void);
long g_str_seqreset = 4;
/* ---- ghost ---- */
long g_clock;                                          /* the time a fresh SendingTime gets */
struct fld_m g_fpool[8]; int g_fn;
char g_batch[64]; _Bool g_batch_empty, g_batch_valid;  /* the batch buffer's storage and whether it currently holds what callers saw */
int g_c03; unsigned long g_body_bytes;            /* C03 harness copies: how many bytes the fields of this message render to */
const char *g_encoded_at; unsigned long g_enclen; unsigned g_wire_seq; _Bool g_wire_possdup; long g_wire_orig; _Bool g_wire_has_orig; long g_wire_sending;
_Bool g_conn_send_called; const char *g_conn_ptr; _Bool g_conn_ok;
int g_put_msg_calls; unsigned g_put_msg_seq; const char *g_put_msg_ptr; _Bool g_put_msg_ptr_valid;
int g_put_ctrl_calls; unsigned g_put_ctrl_send, g_put_ctrl_recv;
/* ---- ASSUMED models ---- */
struct hdr_m *msg_Header(struct msg_m *m) { return &m->hdr; }
_Bool hdr_have(const struct hdr_m *h, unsigned short tag)
{ return tag == 34 ? h->has34 : tag == 43 ? h->has43 : tag == 49 ? h->has49 : tag == 56 ? h->has56 : tag == 52 ? h->has52 : tag == 122 ? h->has122 : 0; }
static struct fld_m *newf(int tag, long v) { __CPROVER_assume(g_fn < 8); g_fpool[g_fn].tag = tag; g_fpool[g_fn].v = v; return &g_fpool[g_fn++]; }
struct fld_m *new_sender(const long *v) { return newf(49, *v); }          /* copy of the session's CompID field */
struct fld_m *new_target(const long *v) { return newf(56, *v); }
struct fld_m *new_possdup(_Bool v) { return newf(43, v); }
struct fld_m *new_orig(const long *t, const void *rlm) { return newf(122, *t); }
struct fld_m *new_seqnum(const unsigned *v, const void *rlm) { return newf(34, (long)*v); }
struct fld_m *new_sending_now(void) { return newf(52, g_clock); }
struct hdr_m *hdr_add(struct hdr_m *h, struct fld_m *f)
{
  if (f->tag == 34) { h->has34 = 1; h->v34 = f->v; } if (f->tag == 43) { h->has43 = 1; h->v43 = f->v; } if (f->tag == 49) { h->has49 = 1; h->v49 = f->v; }
  if (f->tag == 56) { h->has56 = 1; h->v56 = f->v; } if (f->tag == 52) { h->has52 = 1; h->v52 = f->v; } if (f->tag == 122) { h->has122 = 1; h->v122 = f->v; }
  return h;
}
struct fld_m *hdr_remove(struct hdr_m *h, unsigned short tag) { if (tag == 43) h->has43 = 0; return newf(tag, 0); }
void __verif_delete(void *p) { }                      /* delete of a removed header field: the field object is gone, nothing else */
struct ftime_m { long _value; };
void ftime_ctor0(struct ftime_m *f) { f->_value = 0; }
_Bool hdr_get_sending(struct hdr_m *h, struct ftime_m *to) { if (h->has52) to->_value = h->v52; return h->has52; }
const long *ftime_call(const struct ftime_m *f) { return &f->_value; }
const long *sid_get_sender(const struct sid_m *s) { return &s->sender; }
const long *sid_get_target(const struct sid_m *s) { return &s->target; }
const long *fstr_call(const long *f) { return f; }
unsigned msg_get_custom_seqnum(const struct msg_m *m) { return m->custom_seqnum; }
_Bool msg_get_no_increment(const struct msg_m *m) { return m->no_increment; }
_Bool msg_get_end_of_batch(const struct msg_m *m) { return m->end_of_batch; }
_Bool msg_is_admin(const struct msg_m *m) { return m->admin; }
const long *msg_get_msgtype(const struct msg_m *m) { return &m->msgtype; }
const long *msg_get_msgtype_h(const struct hdr_m *h) { return &((const struct msg_m *)h)->msgtype; }   /* the header record is the first member of the message model */
_Bool str_ne(const long *a, const long *b) { return *a != *b; }
int ses_modify_header(void *self, struct hdr_m *h) { return 0; }                 /* virtual hook: the base implementation does nothing */
_Bool ses_modify_outbound(void *self, struct msg_m *m) { return 1; }
unsigned long msg_encode(struct msg_m *m, char **store)
{
  /* the wire image is determined by the header record now; it lives in the caller's output buffer */
  /* K-enc: Message::encode(char**) needs HEADER_CALC_OFFSET + all field bytes + CheckSum field + terminator from *store */
  unsigned long need = 32ul + g_body_bytes + 7ul + 1ul;
  if (g_c03 == 1) __CPROVER_assert(need <= __CPROVER_OBJECT_SIZE(*store) - __CPROVER_POINTER_OFFSET(*store), "C03.send.output_buffer_holds_the_encoded_message");
  if (g_c03 == 2) __CPROVER_assert(need <= __CPROVER_OBJECT_SIZE(*store) - __CPROVER_POINTER_OFFSET(*store), "C03.send.output_buffer_holds_a_message_of_at_most_the_maximum_length");
  __CPROVER_assume(need <= __CPROVER_OBJECT_SIZE(*store) - __CPROVER_POINTER_OFFSET(*store));       /* what follows is checked for the runs in which the message fits */
  g_encoded_at = *store + 19; *store = (char *)g_encoded_at;
  g_wire_seq = (unsigned)m->hdr.v34; g_wire_possdup = m->hdr.has43 && m->hdr.v43; g_wire_has_orig = m->hdr.has122; g_wire_orig = m->hdr.v122; g_wire_sending = m->hdr.v52;
  g_enclen = nondet_uint() % 4096 + 20;
  return g_enclen;
}
_Bool batch_empty(const long *s) { return g_batch_empty; }
long *batch_append(long *s, const char *p) { g_batch_empty = 0; g_batch_valid = 1; return s; }
char *batch_at(long *s, unsigned long i) { return &g_batch[i]; }
unsigned long batch_size(const long *s) { return nondet_uint() % 100000 + 1; }
void batch_clear(long *s) { g_batch_empty = 1; g_batch_valid = 0; }
_Bool conn_send(struct conn_m *c, const char *p, unsigned long n) { g_conn_send_called = 1; g_conn_ptr = p; return g_conn_ok; }
unsigned conn_get_pmodel(struct conn_m *c) { return nondet_uint() % 3; }
long *tick_now(long *t) { *t = g_clock; return t; }
_Bool plog_has_flag(struct plog_m *l, unsigned f) { return nondet_bool(); }
_Bool ses_plog(void *self, const long *what, unsigned lev, unsigned dir) { return 1; }
_Bool persist_put_msg(struct persist_m *p, unsigned seq, const long *textid)
{ const char *text = (const char *)*textid; g_put_msg_calls++; g_put_msg_seq = seq; g_put_msg_ptr = text; g_put_msg_ptr_valid = !__CPROVER_same_object(text, g_batch) || g_batch_valid; return 1; }
_Bool persist_put_ctrl(struct persist_m *p, unsigned s, unsigned r) { g_put_ctrl_calls++; g_put_ctrl_send = s; g_put_ctrl_recv = r; return 1; }
_Bool g_ctrl_present; unsigned g_ctrl_send, g_ctrl_recv;      /* the persister's control record for recover_seqnums */
_Bool persist_get_ctrl(struct persist_m *p, unsigned *s, unsigned *r) { if (!g_ctrl_present) return 0; *s = g_ctrl_send; *r = g_ctrl_recv; return 1; }
void str_from_cstr(long *s, const char *c, void *alloc) { *s = (long)c; }           /* f8String(const char*) for put(seq, ptr): the text is the bytes at ptr */
'''
HARNESS_TMPL = r'''  struct FIX8_Session s; struct msg_m m; struct conn_m c; struct persist_m per; struct plog_m pl;
  s._connection = &c; s._persist = nondet_bool() ? &per : 0; s._plogger = nondet_bool() ? &pl : 0;
  s._next_send_seq = nondet_uint(); s._next_receive_seq = nondet_uint(); __CPROVER_assume(s._next_send_seq >= 1 && s._next_send_seq < 4000000000u);
  s._loginParameters._always_seqnum_assign = nondet_bool();
  s._sid.sender = nondet_long(); s._sid.target = nondet_long();
  m.hdr.has34 = nondet_bool(); m.hdr.has43 = nondet_bool(); m.hdr.has49 = nondet_bool(); m.hdr.has56 = nondet_bool(); m.hdr.has52 = nondet_bool(); m.hdr.has122 = 0;
  m.hdr.v34 = nondet_uint(); m.hdr.v43 = 1; m.hdr.v49 = nondet_long(); m.hdr.v56 = nondet_long(); m.hdr.v52 = nondet_long();
  m.custom_seqnum = nondet_uint(); m.no_increment = nondet_bool(); m.end_of_batch = nondet_bool(); m.admin = nondet_bool(); m.msgtype = nondet_long();
  __CPROVER_assume(!(m.msgtype == g_str_seqreset) || m.admin);                 /* SequenceReset is an administrative message */
  __CPROVER_assume(!m.hdr.has34 || m.hdr.has52);
  __CPROVER_assume(!m.hdr.has43 || m.hdr.has34);                               /* PossDupFlag comes with the original number */                               /* a message that already carries a number was sent before, so it carries a SendingTime */
  g_clock = nondet_long(); g_fn = 0; g_batch_empty = nondet_bool(); g_batch_valid = 1; g_conn_send_called = 0; g_conn_ok = nondet_bool();
  g_put_msg_calls = 0; g_put_ctrl_calls = 0; g_encoded_at = 0;
  g_body_bytes = nondet_ulong(); __CPROVER_assume(g_body_bytes <= 10000000ul); g_c03 = C03_MODE; if (C03_MODE == 2) __CPROVER_assume(g_body_bytes <= 8192ul - 8ul); if (C03_MODE == 0) __CPROVER_assume(g_body_bytes <= 4096ul);
  unsigned ns0 = s._next_send_seq, nr0 = s._next_receive_seq; long old_sending = m.hdr.v52; unsigned old34 = (unsigned)m.hdr.v34;
  _Bool batch_was_empty = g_batch_empty; _Bool retrans = m.hdr.has34, aa = s._loginParameters._always_seqnum_assign, had43 = m.hdr.has43;
  __exc = 0;
  _Bool ok = session_send_process(&s, &m);
@C16@  __CPROVER_assert(!__exc, "C16.send_process_does_not_leak_exceptions");
  if (!ok) {
@C16@    __CPROVER_assert(s._next_send_seq == ns0 && s._next_receive_seq == nr0 && g_put_msg_calls == 0 && g_put_ctrl_calls == 0, "C16.failed_write_consumes_no_number_and_stores_nothing");
  }
  if (ok) {
    _Bool fresh = !retrans || aa;                          /* the number on the wire is assigned by this call */
    unsigned want_seq = fresh ? (m.custom_seqnum ? m.custom_seqnum : ns0) : old34;
@C16@    __CPROVER_assert(g_wire_seq == want_seq, "C16.wire_msgseqnum_is_next_outbound_or_custom_and_kept_on_retransmission");
@C18@    __CPROVER_assert(!retrans || aa || (g_wire_possdup && g_wire_has_orig && g_wire_orig == old_sending), "C18.retransmission_carries_possdup_and_original_sending_time");
@C16@    __CPROVER_assert(g_wire_sending == g_clock, "C16.sending_time_is_now");
@C16@    __CPROVER_assert(s._next_receive_seq == nr0, "C16.send_does_not_touch_expected_inbound_number");
@C16@    __CPROVER_assert(g_conn_send_called == m.end_of_batch, "C16.transmitted_now_unless_batched");
    _Bool counts = fresh && !m.custom_seqnum && !m.no_increment && m.msgtype != g_str_seqreset;
    _Bool stores = fresh && s._persist != 0;
    _Bool batch_tail = m.end_of_batch && !batch_was_empty;  /* the last message of a batch: earlier ones are waiting in the batch buffer */
    if (!aa) {
@C16@      __CPROVER_assert(s._next_send_seq == (counts ? ns0 + 1 : ns0), "C16.next_outbound_number_advances_exactly_for_new_counted_messages");
@C17@      __CPROVER_assert(g_put_msg_calls == ((stores && !m.admin) ? 1 : 0), "C17.exactly_new_application_messages_are_stored");
@C17@      __CPROVER_assert(!(stores && !m.admin && !m.custom_seqnum) || g_put_msg_seq == g_wire_seq, "C17.stored_under_the_number_that_went_on_the_wire");
@C17@      __CPROVER_assert(!(stores && !m.admin && m.custom_seqnum) || g_put_msg_seq == g_wire_seq, "C17.application_message_sent_under_a_custom_number_is_stored_under_that_number");
@C17@      __CPROVER_assert(!(stores && !m.admin && !batch_tail) || (g_put_msg_ptr == g_encoded_at && g_put_msg_ptr_valid), "C17.stored_bytes_are_the_bytes_of_this_message");
@C17@      __CPROVER_assert(!(stores && !m.admin && batch_tail) || (g_put_msg_ptr == g_encoded_at && g_put_msg_ptr_valid), "C17.last_message_of_a_batch_is_stored_with_its_own_bytes");
@C16@      __CPROVER_assert(g_put_ctrl_calls == (stores ? 1 : 0), "C16.control_record_written_once_per_new_message");
@C16@      __CPROVER_assert(!(stores && counts) || (g_put_ctrl_send == s._next_send_seq && g_put_ctrl_recv == s._next_receive_seq), "C16.control_record_equals_session_numbers_after_a_counted_send");
@C16@      __CPROVER_assert(!(stores && !counts) || (g_put_ctrl_send == s._next_send_seq && g_put_ctrl_recv == s._next_receive_seq), "C16.control_record_equals_session_numbers_after_an_uncounted_send");
    } else {
      /* always_seqnum_assign: every send, also of a message sent before, is renumbered and is a new message on the wire */
@C16@      __CPROVER_assert(s._next_send_seq == (counts ? ns0 + 1 : ns0), "C16.renumbering_mode.next_outbound_number_advances_for_every_renumbered_message");
@C17@      __CPROVER_assert(g_put_msg_calls == ((stores && !m.admin) ? 1 : 0), "C17.renumbering_mode.renumbered_application_messages_are_stored");
    }
  }
'''


def _harness(prop):
    out = []
    for ln in HARNESS_TMPL.split('\n'):
        if ln.startswith('@'):
            tag, rest = ln[1:4], ln[5:]
            if tag == prop:
                out.append(rest)
        else:
            out.append(ln)
    mode = {'C03': '1', 'C03S': '2'}.get(prop, '0')
    return ('void h_send_%s(void)\n{\n' % prop.lower() + '\n'.join(out) + '  VACUITY_PROBE();\n}\n').replace('C03_MODE', mode)


POST = '\n'.join(_harness(p) for p in ('C16', 'C17', 'C18', 'C03', 'C03S')) + r'''
void h_update_persist(void)
{
  struct FIX8_Session s; struct conn_m c; struct persist_m per;
  s._connection = nondet_bool() ? &c : 0; s._persist = nondet_bool() ? &per : 0;
  s._next_send_seq = nondet_uint(); s._next_receive_seq = nondet_uint();
  unsigned ns0 = s._next_send_seq, nr0 = s._next_receive_seq;
  g_put_msg_calls = 0; g_put_ctrl_calls = 0; __exc = 0;
  session_update_persist_seqnums(&s);
  __CPROVER_assert(!__exc, "C16.update.no_exception");
  __CPROVER_assert(s._next_send_seq == ns0 && s._next_receive_seq == nr0, "C16.update.session_numbers_untouched");
  __CPROVER_assert(g_put_msg_calls == 0 && g_put_ctrl_calls == (s._persist ? 1 : 0), "C16.update.writes_exactly_the_control_record");
  __CPROVER_assert(!s._persist || (g_put_ctrl_send == ns0 && g_put_ctrl_recv == nr0), "C16.update.control_record_equals_session_numbers");
  VACUITY_PROBE();
}
/* the configuration a session has when the application sets nothing: retransmissions keep their numbers (C18), checksums are verified, strict decoding */
void h_default_parameters(void)
{
  struct FIX8_LoginParameters lp;
  lp._always_seqnum_assign = nondet_bool(); lp._reset_sequence_numbers = nondet_bool(); lp._no_chksum_flag = nondet_bool(); lp._permissive_mode_flag = nondet_bool();       /* storage before construction: anything */
  lp_default_ctor(&lp);
  __CPROVER_assert(!lp._always_seqnum_assign, "C18.default_parameters.retransmissions_are_not_renumbered");
  __CPROVER_assert(!lp._reset_sequence_numbers && !lp._no_chksum_flag && !lp._permissive_mode_flag, "C18.default_parameters.no_reset_checksums_verified_strict_decoding");
  VACUITY_PROBE();
}
void h_recover(void)
{
  struct FIX8_Session s; struct conn_m c; struct persist_m per;
  s._connection = &c; s._persist = nondet_bool() ? &per : 0;
  s._next_send_seq = nondet_uint(); s._next_receive_seq = nondet_uint();
  unsigned ns0 = s._next_send_seq, nr0 = s._next_receive_seq;
  g_ctrl_present = nondet_bool(); g_ctrl_send = nondet_uint(); g_ctrl_recv = nondet_uint();
  g_put_msg_calls = 0; g_put_ctrl_calls = 0; __exc = 0;
  session_recover_seqnums(&s);
  __CPROVER_assert(!__exc, "C16.recover.no_exception");
  _Bool rec = s._persist && g_ctrl_present;
  __CPROVER_assert(!rec || (s._next_send_seq == g_ctrl_send && s._next_receive_seq == g_ctrl_recv), "C16.recover.session_continues_from_the_control_record");
  __CPROVER_assert(rec || (s._next_send_seq == ns0 && s._next_receive_seq == nr0), "C16.recover.without_a_record_numbers_are_untouched");
  __CPROVER_assert(g_put_msg_calls == 0 && g_put_ctrl_calls == 0, "C16.recover.writes_nothing");
  VACUITY_PROBE();
}
'''
SES = 'FIX8::Session'
UNIT = dict(
    name='k_send', tu='tu/rt_session.cpp', no_follow=True,
    pre_structs=PRE_STRUCTS,
    emit=dict(
        exceptions=True,
        base_cast={('struct msg_m', 'struct hdr_m'): '((struct hdr_m *)(%s))'},
        pod=[r'std::basic_string<char>'],
        constants={'Common_MsgType_SEQUENCE_RESET': 'g_str_seqreset', 'Common_PossDupFlag': '((unsigned short)43)', 'Common_SenderCompID': '((unsigned short)49)',
                   'Common_TargetCompID': '((unsigned short)56)', 'Common_MsgSeqNum': '((unsigned short)34)', 'HEADER_CALC_OFFSET': '32ul'},
        default_args={'ses_plog': {2: '0u'}, 'str_from_cstr': {1: '0'}, 'new_orig': {1: '0'}, 'new_seqnum': {1: '0'}, 'new_possdup': {1: '0'}},
        type_alias=[(r'std::basic_string<char>::reference', 'char &')],
        new_models=[(r'FIX8::sender_comp_id|FIX8::Field<std::basic_string<char>, 49>', 'new_sender'), (r'FIX8::target_comp_id|FIX8::Field<std::basic_string<char>, 56>', 'new_target'),
                    (r'FIX8::poss_dup_flag|FIX8::Field<FIX8::EnumType<\d+>, 43>', 'new_possdup'), (r'FIX8::orig_sending_time|FIX8::Field<FIX8::EnumType<\d+>, 122>', 'new_orig'),
                    (r'FIX8::msg_seq_num|FIX8::Field<(unsigned int|int|FIX8::EnumType<\d+>), 34>', 'new_seqnum'), (r'FIX8::sending_time|FIX8::Field<FIX8::EnumType<\d+>, 52>', 'new_sending_now')],
        type_map=[(r'(std::basic_string<char>|std::string|FIX8::f8String)', 'long'),
                  (r'FIX8::f8_atomic<unsigned int>|std::atomic<unsigned int>|std::__atomic_base<unsigned int>', 'unsigned int'),
                  (r'FIX8::Message', 'struct msg_m'), (r'FIX8::MessageBase', 'struct hdr_m'), (r'FIX8::BaseField', 'struct fld_m'),
                  (r'FIX8::(sender_comp_id|target_comp_id)|FIX8::Field<std::basic_string<char>, (49|56)>', 'long'),
                  (r'FIX8::(poss_dup_flag|orig_sending_time|msg_seq_num)|FIX8::Field<.*, (43|122|34)>', 'struct fld_m'),
                  (r'FIX8::sending_time|FIX8::Field<FIX8::EnumType<\d+>, 52>', 'struct ftime_m'),
                  (r'FIX8::Tickval', 'long'), (r'FIX8::Connection', 'struct conn_m'), (r'FIX8::Persister', 'struct persist_m'), (r'FIX8::Logger', 'struct plog_m'),
                  (r'FIX8::SessionID', 'struct sid_m'), (r'FIX8::Logger::Level', 'unsigned int'), (r'FIX8::Logger::Flags', 'unsigned int'), (r'FIX8::ProcessModel', 'unsigned int'),
                  (r'std::allocator<char>', 'void *'), (r'FIX8::RealmBase', 'void')],
        lazy_structs=[r'FIX8::Session', r'FIX8::LoginParameters'],
        calls_rx=[(r'FIX8::Field<FIX8::EnumType<\d+>, 52>::Field', 'ftime_ctor0'), (r'FIX8::sending_time::Field', 'ftime_ctor0'),
                  (r'FIX8::(Field<FIX8::EnumType<\d+>, 52>|sending_time)::operator\(\)', dict(c='ftime_call', sig='const FIX8::Tickval &() const'))],
        calls={
            'FIX8::Message::Header': 'msg_Header', 'FIX8::MessageBase::have': 'hdr_have', 'FIX8::MessageBase::remove': 'hdr_remove',
            'FIX8::MessageBase::get': dict(c='hdr_get_sending', sig='bool (FIX8::sending_time &) const'),
            'operator<<': 'hdr_add', 'FIX8::MessageBase::operator<<': 'hdr_add',
            'FIX8::SessionID::get_senderCompID': dict(c='sid_get_sender', sig='const FIX8::sender_comp_id &() const'),
            'FIX8::SessionID::get_targetCompID': dict(c='sid_get_target', sig='const FIX8::target_comp_id &() const'),
            'FIX8::Message::get_custom_seqnum': 'msg_get_custom_seqnum', 'FIX8::Message::get_no_increment': 'msg_get_no_increment', 'FIX8::Message::get_end_of_batch': 'msg_get_end_of_batch',
            'FIX8::Message::is_admin': 'msg_is_admin', 'FIX8::MessageBase::get_msgtype': dict(c='msg_get_msgtype_h', sig='const FIX8::f8String &() const'),
            'FIX8::Message::get_msgtype': dict(c='msg_get_msgtype', sig='const FIX8::f8String &() const'),
            'operator!=': 'str_ne',
            'std::basic_string<char>::basic_string|void (const char *, const std::allocator<char> &)': 'str_from_cstr',
            SES + '::modify_header': 'ses_modify_header', SES + '::modify_outbound': 'ses_modify_outbound', SES + '::plog': dict(c='ses_plog', sig='bool (const std::string &, FIX8::Logger::Level, const unsigned int) const'),
            'FIX8::Message::encode': 'msg_encode',
            'std::basic_string<char>::empty': 'batch_empty', 'std::basic_string<char>::append': 'batch_append', 'std::basic_string<char>::operator[]': 'batch_at',
            'std::basic_string<char>::size': 'batch_size', 'std::basic_string<char>::clear': 'batch_clear',
            'FIX8::Connection::send': 'conn_send', 'FIX8::Connection::get_pmodel': 'conn_get_pmodel', 'FIX8::Tickval::now': 'tick_now',
            'FIX8::Logger::has_flag': 'plog_has_flag',
            'FIX8::Persister::get': dict(c='persist_get_ctrl', sig='bool (unsigned int &, unsigned int &) const'),
            'FIX8::Persister::put': lambda em, n, args: dict(c='persist_put_ctrl', sig='bool (const unsigned int, const unsigned int)') if 'unsigned' in em.tstr(args[1]['type']) and 'char' not in em.tstr(args[1]['type']) and 'string' not in em.tstr(args[1]['type'])
                                                          else dict(c='persist_put_msg', sig='bool (const unsigned int, const FIX8::f8String &)'),
        }),
    prelude=PRELUDE,
    force_fields={'FIX8::Session': [('_connection', 'FIX8::Connection *'), ('_persist', 'FIX8::Persister *'), ('_plogger', 'FIX8::Logger *'), ('_next_send_seq', 'unsigned int'),
                                    ('_next_receive_seq', 'unsigned int'), ('_loginParameters', 'FIX8::LoginParameters'), ('_sid', 'FIX8::SessionID'), ('_last_sent', 'FIX8::Tickval')],
                  'FIX8::LoginParameters': [('_always_seqnum_assign', 'bool'), ('_reset_sequence_numbers', 'bool'), ('_silent_disconnect', 'bool'), ('_no_chksum_flag', 'bool'), ('_permissive_mode_flag', 'bool'), ('_reliable', 'bool'), ('_enforce_compids', 'bool')]},
    functions=[
        dict(q='FIX8::Session::send_process', sig=None, cname='session_send_process'),
        dict(q='FIX8::Session::update_persist_seqnums', sig=None, cname='session_update_persist_seqnums'),
        dict(q='FIX8::Session::recover_seqnums', sig=None, cname='session_recover_seqnums'),
        dict(q='FIX8::LoginParameters::LoginParameters', sig='void () noexcept(false)', cname='lp_default_ctor', self_type='FIX8::LoginParameters *',
             select_inits=['_reset_sequence_numbers', '_always_seqnum_assign', '_silent_disconnect', '_no_chksum_flag', '_permissive_mode_flag', '_reliable', '_enforce_compids'], optional_inits=['_always_seqnum_assign']),
    ],
    postlude=POST,
    proofs=[
        dict(name='send_numbering', harness='h_send_c16', properties=['C16'], solvers=['cadical', 'z3'], timeout=dict(quick=600, thorough=1800), floor=10, level='proved-modular', object_bits=10),
        dict(name='update_persist', harness='h_update_persist', properties=['C16'], solvers=['cadical', 'z3'], timeout=dict(quick=300, thorough=900), floor=4, level='proved-modular', object_bits=10),
        dict(name='recover', harness='h_recover', properties=['C16'], solvers=['cadical', 'z3'], timeout=dict(quick=300, thorough=900), floor=4, level='proved-modular', object_bits=10),
        dict(name='default_parameters', harness='h_default_parameters', properties=['C18'], solvers=['cadical', 'z3'], timeout=dict(quick=120, thorough=300), floor=2, level='proved-modular', object_bits=10),
        dict(name='send_store', harness='h_send_c17', properties=['C17'], solvers=['cadical', 'z3'], timeout=dict(quick=600, thorough=1800), floor=6, level='proved-modular', object_bits=10),
        dict(name='send_buffer', harness='h_send_c03', properties=['C03'], solvers=['cadical', 'z3'], timeout=dict(quick=600, thorough=1800), floor=1, level='proved-modular', object_bits=10),
        dict(name='send_buffer_small', harness='h_send_c03s', properties=['C03'], solvers=['cadical', 'z3'], timeout=dict(quick=600, thorough=1800), floor=1, level='proved-modular', object_bits=10),
        dict(name='send_possdup', harness='h_send_c18', properties=['C18'], solvers=['cadical', 'z3'], timeout=dict(quick=600, thorough=1800), floor=1, level='proved-modular', object_bits=10),
    ],
    trusted_base=['ASSUMED: the message header is the ghost record of the six fields send_process touches and `*hdr << new F(v)` / have / get / remove act on it; Message::encode renders exactly that header '
                  'record into the caller\'s buffer; Connection::send transmits the bytes it is given; Persister::put stores what it is given; std::string operations on the batch buffer (append, '
                  'operator[], clear invalidating pointers into it); modify_header / modify_outbound hooks do nothing (base implementations) -- model bodies in specs/k_send.py'],
    assumptions=['one call of send_process, sequential (the spin lock and the pipelined writer are dropped: C25 is not decided); a message that already carries MsgSeqNum also carries SendingTime',
                 'sequence numbers below 4*10^9'],
)
