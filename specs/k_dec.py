"""K-dec (C04 / C05): MessageBase::decode (runtime/message.cpp), Message::decode (include/fix8/message.hpp) and Message::factory, bodies from the clang AST.

The raw text is a ghost sequence of at most NTOK tokens `tag=value<SOH>` laid out contiguously (offset, length, tag number per token): the
tokeniser model hands out token i when asked at its offset (K-tok proves the real tokeniser's safety; its functional behaviour is ASSUMED here).
A message part (header / body / trailer) is a presence set of at most NTR field traits.  The decode loop is unwound for NTOK tokens
(bounded stand-in: every obligation here is labelled bounded, refutations are concrete counterexamples and are replayed natively).

Strict mode, one part:   every token before the returned offset was legal for this part and became exactly one field with its own tag and its own
                         value text, in order; a repeated non-automatic tag raises; the first tag that is not legal for the part ends the part.
Whole message (C04):     an accepted message has no unconsumed token -- REFUTED: Message::factory drops the consumed length, so everything from the
                         first tag that is illegal where it stands is silently discarded.
Permissive mode (C05):   the unknown text a part keeps lies before the offset it hands to the next part -- REFUTED: a part that rewinds to its
                         first unknown token keeps the whole run in its _unknown buffer, so the header re-emits the body and trailer.
"""
NTOK, NTR = 3, 3
PRE_STRUCTS = r'''
struct sv_m { const char *data; unsigned long size; };
struct ft_m { unsigned short _fnum; int _ftype; unsigned short _field_traits; };      /* FieldTrait: number, type, trait bits */
struct pres_m { struct ft_m arr[3]; unsigned n; };                                     /* Presence (and the FieldTraits wrapper around it) */
struct posmap_m { unsigned n; };
struct be_m { unsigned short _fnum; void *_rlm; int _create; const char *_name; };
struct bf_m { unsigned short tag; int from_token; _Bool fixed_width; };                                   /* BaseField created by the decoder */
struct ctx_m { int dummy; };
struct oss_m { int dummy; };
'''
PRELUDE = r'''
#include <stdlib.h>
#define VACUITY_PROBE() __CPROVER_assert(0, "vacuity-probe")
unsigned nondet_uint(void); unsigned short nondet_ushort(void); _Bool nondet_bool(void); int nondet_int(void); unsigned long nondet_ulong(void);
#ifndef NTOK
#define NTOK 3
#endif
/* ---- ghost: the raw text as tokens ---- */
char g_raw[4096]; unsigned g_ntok; unsigned g_off[NTOK + 1]; unsigned short g_tag[NTOK]; int g_cur = -1;   /* g_off[i]..g_off[i+1] is token i; g_cur: the token last handed out */
/* ---- ghost: what the decoder did ---- */
int g_nadded; unsigned short g_added_tag[NTOK + 1]; unsigned g_added_pos[NTOK + 1]; int g_added_from[NTOK + 1];
unsigned g_unk_calls; unsigned g_unk_lo, g_unk_hi; _Bool g_unk_contiguous, g_unk_exact;              /* _unknown.append calls: lowest start / highest end offset appended */
int g_group_calls, g_fixed_calls; _Bool g_fixed_ok, g_cur_fixed;      /* g_cur_fixed: the token last handed out came from the fixed-width tokeniser (its bytes are taken by count, whatever they are) */
struct bf_m g_bf[NTOK + 1]; int g_nbf;
/* ---- ASSUMED models ---- */
unsigned long sv_size(const struct sv_m *s) { return s->size; }
const char *sv_data(const struct sv_m *s) { return s->data; }
unsigned long posmap_size(const struct posmap_m *p) { return p->n; }
unsigned tok_extract(const char *from, unsigned sz, char *tag, char *val)
{
  /* the tokeniser: at a token boundary with the whole token inside the window it returns the token's length, otherwise 0 */
  for (unsigned i = 0; i < NTOK; ++i)
    if (i < g_ntok && from == g_raw + g_off[i]) { if (g_off[i + 1] - g_off[i] <= sz) { g_cur = (int)i; g_cur_fixed = 0; tag[0] = (char)i; val[0] = (char)i; return g_off[i + 1] - g_off[i]; } return 0; }
  return 0;
}
unsigned short atoi_tag(const char *tag, char term) { return g_cur >= 0 ? g_tag[g_cur] : 0; }
unsigned g_val_sz;
unsigned atoi_val(const char *val, char term) { return g_val_sz; }                  /* the length a Length field declares */
const struct pres_m *ft_get_presence(const struct pres_m *f) { return f; }
const struct ft_m *pres_find(const struct pres_m *p, unsigned short key)
{ for (unsigned i = 0; i < 3; ++i) if (i < p->n && p->arr[i]._fnum == key) return &p->arr[i]; return p->arr + p->n; }
const struct ft_m *pres_end(const struct pres_m *p) { return p->arr + p->n; }
unsigned short ebit_has(const unsigned short *bits, unsigned bit) { return *bits & (1u << bit); }
void ebit_set(unsigned short *bits, unsigned bit, _Bool on) { if (on) *bits |= (unsigned short)(1u << bit); else *bits &= (unsigned short)~(1u << bit); }
struct be_m g_be;
const struct be_m *ctx_find_be(const struct ctx_m *c, unsigned short fnum) { g_be._fnum = fnum; return &g_be; }      /* every tag of a presence set has a field definition */
struct bf_m *be_create(const int *inst, const char *val, const void *rlm, int ival)
{ __CPROVER_assume(g_nbf <= NTOK); g_bf[g_nbf].tag = g_be._fnum; g_bf[g_nbf].from_token = (int)val[0]; g_bf[g_nbf].fixed_width = g_cur_fixed; return &g_bf[g_nbf++]; }   /* the field is built from this value text */
struct FIX8_MessageBase;
void mb_add_field_decoder(struct FIX8_MessageBase *self, unsigned short fnum, unsigned pos, struct bf_m *what)
{ __CPROVER_assume(g_nadded <= NTOK); g_added_tag[g_nadded] = fnum; g_added_pos[g_nadded] = pos; g_added_from[g_nadded] = what->tag == fnum ? what->from_token : -2; g_nadded++; }
_Bool mb_has_group_count(const struct bf_m *bf) { return nondet_bool(); }
unsigned mb_decode_group(struct FIX8_MessageBase *self, void *grpbase, unsigned short fnum, const struct sv_m *from, unsigned s_offset, unsigned ignore) { g_group_calls++; return s_offset; }
unsigned tok_extract_fixed(const char *from, unsigned sz, unsigned val_sz, char *tag, char *val)
{
  /* K-tok: extract_element_fixed_width copies val_sz bytes and a terminator into val, and the tag digits into tag, without a limit of its own */
  __CPROVER_assert((unsigned long)val_sz + 1 <= __CPROVER_OBJECT_SIZE(val) - __CPROVER_POINTER_OFFSET(val), "C03.decode.data_value_buffer_holds_the_declared_length_and_its_terminator");
  g_fixed_calls++;
  if (g_fixed_ok)      /* the data token is there: it is handed out like any other token (its tag digits, its bytes) */
    for (unsigned i = 0; i < NTOK; ++i)
      if (i < g_ntok && from == g_raw + g_off[i] && g_off[i + 1] - g_off[i] <= sz + 1) { g_cur = (int)i; g_cur_fixed = 1; tag[0] = (char)i; val[0] = (char)i; return g_off[i + 1] - g_off[i]; }
  return 0;
}
void unk_append(struct sv_m *u, const char *p, unsigned long n);
void unk_assign(struct sv_m *u, const char *p, unsigned long n) { g_unk_calls = 0; unk_append(u, p, n); }     /* assign: what was kept before is gone */
void unk_append(struct sv_m *u, const char *p, unsigned long n)
{
  unsigned lo = (unsigned)(p - g_raw), hi = lo + (unsigned)n;
  _Bool exact = 0; for (unsigned i = 0; i < NTOK; ++i) if (i < g_ntok && lo == g_off[i] && hi == g_off[i + 1]) exact = 1;
  if (!exact) g_unk_exact = 0;                                          /* what is kept must be exactly one token of the text */
  if (g_unk_calls == 0) { g_unk_lo = lo; g_unk_contiguous = 1; } else if (lo != g_unk_hi) g_unk_contiguous = 0;
  g_unk_hi = hi; if (g_unk_calls < 100) g_unk_calls++;
}
unsigned short pres_find_missing(const struct pres_m *p, unsigned type)
{ for (unsigned i = 0; i < 3; ++i) if (i < p->n && (p->arr[i]._field_traits & (1u << type)) && !(p->arr[i]._field_traits & (1u << K_present))) return p->arr[i]._fnum; return 0; }
void oss_ctor(struct oss_m *o) { }
'''
POST = r'''
static void mk_text(struct sv_m *from)
{
  g_ntok = nondet_uint(); __CPROVER_assume(g_ntok <= NTOK);
  g_off[0] = nondet_uint(); __CPROVER_assume(g_off[0] <= 64);
  for (unsigned i = 0; i < NTOK; ++i) { unsigned len = nondet_uint(); __CPROVER_assume(len >= 4 && len <= 64); g_off[i + 1] = g_off[i] + len; g_tag[i] = nondet_ushort(); __CPROVER_assume(g_tag[i] >= 1); }
  from->data = g_raw; from->size = g_off[g_ntok];                       /* the text ends with the last token */
  g_cur = -1; g_nadded = 0; g_nbf = 0; g_unk_calls = 0; g_unk_lo = 0; g_unk_hi = 0; g_unk_contiguous = 1; g_unk_exact = 1; g_group_calls = 0; __exc = 0;
}
static void mk_part(struct FIX8_MessageBase *m)
{
  m->_fp.n = nondet_uint(); __CPROVER_assume(m->_fp.n <= 3);
  for (unsigned i = 0; i < 3; ++i) {
    m->_fp.arr[i]._fnum = nondet_ushort(); m->_fp.arr[i]._ftype = K_ft_string; m->_fp.arr[i]._field_traits = nondet_ushort();
    __CPROVER_assume(m->_fp.arr[i]._fnum >= 1 && !(m->_fp.arr[i]._field_traits & ((1u << K_present) | (1u << K_group) | (1u << K_automatic))));      /* fresh part: nothing present yet; no groups, no Length/data pairs, no framework-maintained (automatic) fields in this unit */
  }
  __CPROVER_assume(m->_fp.n < 2 || m->_fp.arr[0]._fnum < m->_fp.arr[1]._fnum); __CPROVER_assume(m->_fp.n < 3 || m->_fp.arr[1]._fnum < m->_fp.arr[2]._fnum);
  m->_pos.n = 0; m->_unknown.data = 0; m->_unknown.size = 0;
}
static _Bool legal(const struct FIX8_MessageBase *m, unsigned short tag) { for (unsigned i = 0; i < 3; ++i) if (i < m->_fp.n && m->_fp.arr[i]._fnum == tag) return 1; return 0; }
/* strict mode, one part */
void h_part_strict(void)
{
  struct sv_m from; mk_text(&from); struct FIX8_MessageBase m; mk_part(&m); struct FIX8_MessageBase m0 = m;
  unsigned r = mb_decode(&m, &from, g_off[0], 0, 0);
  if (!__exc) {
    unsigned j = NTOK + 1; for (unsigned i = 0; i <= NTOK; ++i) if (i <= g_ntok && r == g_off[i] && j == NTOK + 1) j = i;
    __CPROVER_assert(j <= g_ntok, "C04.part.strict.stops_on_a_token_boundary");
    __CPROVER_assert(g_nadded == (int)j, "C04.part.strict.one_field_per_consumed_token");
    for (unsigned i = 0; i < NTOK; ++i) if (i < j) {
      __CPROVER_assert(legal(&m0, g_tag[i]), "C04.part.strict.every_consumed_tag_is_legal_for_this_part");
      __CPROVER_assert(g_added_tag[i] == g_tag[i] && g_added_from[i] == (int)i && g_added_pos[i] == i + 1, "C04.part.strict.field_keeps_its_own_tag_value_and_order");
      for (unsigned k = 0; k < NTOK; ++k) if (k < i) __CPROVER_assert(g_tag[k] != g_tag[i] || (pres_find(&m0._fp, g_tag[i])->_field_traits & (1u << K_automatic)), "C04.part.strict.no_repeated_field_is_accepted");
    }
    __CPROVER_assert(j == g_ntok || !legal(&m0, g_tag[j]), "C04.part.strict.stops_only_at_a_tag_that_is_not_legal_here");
    __CPROVER_assert(pres_find_missing(&m._fp, K_mandatory) == 0, "C04.part.strict.no_mandatory_field_missing_on_return");
    __CPROVER_assert(g_unk_calls == 0, "C04.part.strict.nothing_kept_as_unknown");
  }
  VACUITY_PROBE();
}
/* a Length field followed by its data field: the declared length is bounded by what the value buffer holds */
void h_part_length(void)
{
  struct sv_m from; mk_text(&from); struct FIX8_MessageBase m; mk_part(&m);
  __CPROVER_assume(m._fp.n >= 1 && g_ntok >= 1 && g_tag[0] == m._fp.arr[0]._fnum && m._fp.arr[0]._fnum != 9);
  m._fp.arr[0]._ftype = K_ft_Length; g_fixed_calls = 0; g_val_sz = nondet_uint(); g_fixed_ok = 0;
  unsigned r = mb_decode(&m, &from, g_off[0], 0, nondet_bool());
  __CPROVER_assert(__exc || g_fixed_calls <= 1, "C03.decode.at_most_one_data_field_follows_a_length_field");
  __CPROVER_assert(g_val_sz > 2047u || g_fixed_calls == 1, "C06.decode.every_declared_length_up_to_the_field_limit_reaches_the_data_tokeniser");
  __CPROVER_assert(g_val_sz <= 2047u || (g_fixed_calls == 0 && __exc), "C06.decode.a_declared_length_beyond_the_field_limit_is_refused");
  VACUITY_PROBE();
}
/* a Length field and its data field (the next tag, of type data) are consumed as a pair */
void h_part_length_pair(void)
{
  struct sv_m from; mk_text(&from); struct FIX8_MessageBase m; mk_part(&m);
  __CPROVER_assume(m._fp.n >= 2 && g_ntok >= 2 && g_tag[0] == m._fp.arr[0]._fnum && m._fp.arr[0]._fnum != 9 && m._fp.arr[0]._fnum < 65535);
  __CPROVER_assume(m._fp.arr[1]._fnum == m._fp.arr[0]._fnum + 1 && g_tag[1] == m._fp.arr[1]._fnum);
  m._fp.arr[0]._ftype = K_ft_Length; m._fp.arr[1]._ftype = K_ft_data; g_fixed_calls = 0; g_val_sz = nondet_uint(); __CPROVER_assume(g_val_sz <= 2047u); g_fixed_ok = 1;
  __CPROVER_assume(!(m._fp.arr[0]._field_traits & (1u << K_mandatory)) || 1);
  unsigned r = mb_decode(&m, &from, g_off[0], 0, 0);
  __CPROVER_assert(__exc || r >= g_off[2], "C06.decode.a_length_field_and_the_data_field_that_follows_it_are_consumed_together");
  __CPROVER_assert(__exc || (g_nadded >= 2 && g_added_tag[0] == g_tag[0] && g_added_tag[1] == g_tag[1] && g_added_from[1] == 1), "C06.decode.the_data_field_is_built_from_the_fixed_width_value");
  __CPROVER_assert(__exc || (g_nbf >= 2 && g_bf[1].fixed_width && !g_bf[0].fixed_width), "C06.decode.the_data_bytes_are_taken_by_count_not_up_to_the_next_separator");
  /* C04's "no field ... given a value different from its text": a data value may contain the separator byte, so an accepted data field must be the counted bytes, never the text up to the next separator */
  __CPROVER_assert(__exc || (g_nbf >= 2 && g_bf[1].tag == g_tag[1] && g_bf[1].from_token == 1 && g_bf[1].fixed_width), "C04.part.strict.an_accepted_data_field_holds_the_counted_bytes_of_its_own_token");
  __CPROVER_assert(__exc || (g_nadded >= 2 && g_added_tag[1] == g_tag[1] && g_added_from[1] == 1 && g_added_pos[1] == 2), "C04.part.strict.the_data_field_is_retained_under_its_own_tag_in_input_order");
  VACUITY_PROBE();
}
/* permissive mode, one part */
void h_part_permissive(void)
{
  struct sv_m from; mk_text(&from); struct FIX8_MessageBase m; mk_part(&m); struct FIX8_MessageBase m0 = m;
  unsigned r = mb_decode(&m, &from, g_off[0], 0, 1);
  if (!__exc) {
    int known = 0; for (unsigned i = 0; i < NTOK; ++i) if (i < g_ntok && g_off[i] < r && legal(&m0, g_tag[i])) known++;
    __CPROVER_assert(r >= g_off[0] && r <= g_off[g_ntok], "C05.part.permissive.returned_offset_inside_the_text");
    __CPROVER_assert(g_nadded >= known, "C05.part.permissive.no_known_field_before_the_returned_offset_is_lost");
    unsigned unknown_tokens = 0; for (unsigned i = 0; i < NTOK; ++i) if (i < g_ntok && !legal(&m0, g_tag[i])) unknown_tokens++;
    __CPROVER_assert(g_unk_exact && g_unk_calls == unknown_tokens, "C05.part.permissive.every_unknown_token_is_kept_once_with_exactly_its_own_bytes");
    __CPROVER_assert(g_unk_calls == 0 || g_unk_hi <= r, "C05.part.permissive.unknown_text_kept_by_this_part_lies_before_the_offset_handed_on");
  }
  VACUITY_PROBE();
}
'''

def _split(text):
    """one copy of each multi-property harness per property: assertion lines are kept only when their label starts with that property's id"""
    import re
    out = []
    for chunk in re.split(r'(?m)^(?=/\* |static |void h_)', text):
        m = re.search(r'(?m)^void (h_\w+)\(void\)', chunk)
        props = sorted(set(re.findall(r'__CPROVER_assert\(.*"(C\d\d)\.', chunk)))
        if not m or len(props) < 2:
            out.append(chunk)
            continue
        for p in props:
            lines = []
            for ln in chunk.split('\n'):
                a = re.search(r'__CPROVER_assert\(.*"(C\d\d)\.', ln)
                if a and a.group(1) != p:
                    continue
                lines.append(ln.replace('void %s(void)' % m.group(1), 'void %s_%s(void)' % (m.group(1), p.lower())))
            out.append('\n'.join(lines))
    return ''.join(out)


MB = 'FIX8::MessageBase'
PS = r'FIX8::presorted_set<unsigned short, FIX8::FieldTrait, (FIX8::)?FieldTrait::Compare>'
UNIT = dict(
    name='k_dec', tu='tu/rt_message.cpp', no_follow=True,
    pre_structs=PRE_STRUCTS,
    probe={'K_present': 'FIX8::FieldTrait::present', 'K_automatic': 'FIX8::FieldTrait::automatic', 'K_group': 'FIX8::FieldTrait::group', 'K_mandatory': 'FIX8::FieldTrait::mandatory',
           'K_ft_string': 'FIX8::FieldTrait::ft_string', 'K_ft_Length': 'FIX8::FieldTrait::ft_Length', 'K_ft_data': 'FIX8::FieldTrait::ft_data'},
    emit=dict(
        exceptions=True,
        may_throw={'mb_decode_group': True},
        pod=[r'std::basic_string<char>'],
        constants={'Common_BodyLength': '((unsigned short)9)'},
        default_args={'atoi_tag': {1: '0'}, 'atoi_val': {1: '0'}, 'pres_find_missing': {0: 'K_mandatory'}, 'ebit_set': {1: '1'}},
        type_map=[(r'(std::basic_string<char>|std::string|FIX8::f8String)', 'struct sv_m'), (r'FIX8::FieldTraits', 'struct pres_m'), (PS, 'struct pres_m'), (r'FIX8::Presence', 'struct pres_m'),
                  (r'FIX8::FieldTrait', 'struct ft_m'), (r'FIX8::FieldTrait::FieldType', 'int'), (r'FIX8::FieldTrait::TraitTypes', 'unsigned int'),
                  (r'FIX8::ebitset<FIX8::FieldTrait::TraitTypes, unsigned short>', 'unsigned short'),
                  (r'FIX8::Positions|std::multimap<unsigned short, FIX8::BaseField \*.*>', 'struct posmap_m'), (r'FIX8::F8MetaCntx', 'struct ctx_m'), (r'FIX8::BaseEntry', 'struct be_m'),
                  (r'FIX8::BaseField', 'struct bf_m'), (r'FIX8::GroupBase', 'void'), (r'FIX8::RealmBase', 'void'), (r'FIX8::Inst', 'int'),
                  (r'std::basic_ostringstream<char>|std::ostringstream', 'struct oss_m')],
        lazy_structs=[r'FIX8::MessageBase'],
        calls_rx=[(PS + r'::find', 'pres_find'), (PS + r'::end', 'pres_end'),
                  (r'FIX8::ebitset<FIX8::FieldTrait::TraitTypes, unsigned short>::has', 'ebit_has'), (r'FIX8::ebitset<FIX8::FieldTrait::TraitTypes, unsigned short>::set', 'ebit_set')],
        calls={
            'std::basic_string<char>::size': 'sv_size', 'std::basic_string<char>::data': 'sv_data', 'std::basic_string<char>::append': 'unk_append', 'std::basic_string<char>::assign': 'unk_assign',
            'std::multimap<unsigned short, FIX8::BaseField *>::size': 'posmap_size',
            'extract_element': 'tok_extract', 'extract_element_fixed_width': 'tok_extract_fixed',
            'fast_atoi|unsigned short (const char *, const char)': 'atoi_tag', 'fast_atoi|unsigned int (const char *, const char)': 'atoi_val',
            'FIX8::FieldTraits::get_presence': dict(c='ft_get_presence', sig='const FIX8::Presence &() const'), 'FIX8::FieldTraits::find_missing': 'pres_find_missing',
            'FIX8::F8MetaCntx::find_be': 'ctx_find_be', 'FIX8::Inst::_do': 'be_create',
            MB + '::add_field_decoder': 'mb_add_field_decoder', 'has_group_count': 'mb_has_group_count', MB + '::has_group_count': 'mb_has_group_count', MB + '::decode_group': dict(c='mb_decode_group', sig='unsigned int (FIX8::GroupBase *, const unsigned short, const FIX8::f8String &, unsigned int, unsigned int)'),
            'std::basic_ostringstream<char>::basic_ostringstream': 'oss_ctor',
        }),
    prelude=PRELUDE,
    force_fields={MB: [('_fp', 'FIX8::FieldTraits'), ('_pos', 'FIX8::Positions'), ('_unknown', 'FIX8::f8String'), ('_ctx', 'FIX8::F8MetaCntx')]},
    functions=[
        dict(q=MB + '::decode', sig=None, cname='mb_decode'),
    ],
    postlude=_split(POST),
    proofs=[
        dict(name='part_strict', harness='h_part_strict', properties=['C04', 'C01'], solvers=['cadical', 'z3'], timeout=dict(quick=600, thorough=1800), floor=6, level='bounded', unwind=5, object_bits=10),
        dict(name='part_length_c03', harness='h_part_length_c03', properties=['C03'], solvers=['cadical', 'z3'], timeout=dict(quick=600, thorough=1800), floor=1, level='bounded', unwind=5, object_bits=10),
        dict(name='part_length_c06', harness='h_part_length_c06', properties=['C06'], solvers=['cadical', 'z3'], timeout=dict(quick=600, thorough=1800), floor=2, level='bounded', unwind=5, object_bits=10),
        dict(name='part_length_pair', harness='h_part_length_pair_c06', properties=['C06'], solvers=['cadical', 'z3'], timeout=dict(quick=600, thorough=1800), floor=2, level='bounded', unwind=5, object_bits=10),
        dict(name='part_length_pair_c04', harness='h_part_length_pair_c04', properties=['C04'], solvers=['cadical', 'z3'], timeout=dict(quick=600, thorough=1800), floor=2, level='bounded', unwind=5, object_bits=10),
        dict(name='part_strict_5_tokens', harness='h_part_strict', tier='thorough', cc_flags=['-DNTOK=5'], properties=['C04', 'C01'], solvers=['cadical', 'z3'], timeout=dict(quick=1800, thorough=3600), floor=6, level='bounded', unwind=8, object_bits=10),
        dict(name='part_permissive_5_tokens', harness='h_part_permissive', tier='thorough', cc_flags=['-DNTOK=5'], properties=['C05'], solvers=['cadical', 'z3'], timeout=dict(quick=1800, thorough=3600), floor=3, level='bounded', unwind=8, object_bits=10),
        dict(name='part_permissive', harness='h_part_permissive', properties=['C05'], solvers=['cadical', 'z3'], timeout=dict(quick=600, thorough=1800), floor=3, level='bounded', unwind=5, object_bits=10),
    ],
    trusted_base=['ASSUMED: the tokeniser hands out the ghost tokens (its safety is K-tok\'s subject); Presence::find / end, trait bit operations, F8MetaCntx::find_be, the field instantiator, '
                  'add_field_decoder, std::string::append as logging models (model bodies in specs/k_dec.py)'],
    assumptions=['bounded: texts of at most 3 tokens (5 in the thorough tier), parts of at most 3 field traits; no repeating groups in the part (decode_group is a model here, K-dgrp covers it); Length/data pairs only in the part_length harnesses, where the fixed-width tokeniser is a model with the capacity assertion'],
)
