"""K-enc (C02): Message::encode(char **) (runtime/message.cpp:424-498) -- how the wire image is assembled around the section encoders.

The section encoders (header without 8/9, body, trailer without 10: MessageBase::encode(char*)) and the field encoders
(BaseField::encode(char*): decimal tag '=' value SOH) are opaque here (ASSUMED models): each writes n bytes at the cursor it is given and
returns n, where n is chosen by the harness (sections: arbitrary; BeginString field: 2+|BeginString|+1; BodyLength field: 3 + number of
decimal digits of the value set -- what K-int proves about itoa; CheckSum field: 7).  A ghost log records where each encoder was asked to
write and in which order, the value stored in BodyLength, the span handed to calc_chksum and the text stored in CheckSum.  The properties
of C02 that this function is responsible for are postconditions over that log.
"""
PRELUDE = r'''
#include <stdlib.h>
#define VACUITY_PROBE() __CPROVER_assert(0, "vacuity-probe")
long nondet_long(void); unsigned nondet_uint(void); _Bool nondet_bool(void); unsigned long nondet_ulong(void);
#define HCO 32ul                                  /* HEADER_CALC_OFFSET (checked against the probe constant in the harness) */
/* ---- ghost log ---- */
struct FIX8_MessageBase *g_hdr, *g_trl; const struct FIX8_Message *g_msg;
unsigned long g_nh, g_nb, g_nt, g_bslen;          /* bytes written by header / body / trailer section encoders; length of the BeginString text */
char *g_hdr_at, *g_body_at, *g_trl_at, *g_begin_at, *g_bodylen_at, *g_chk_at;      /* cursors given to the encoders (0 = not called) */
long g_seq, g_seq_hdr, g_seq_body, g_seq_trl, g_seq_begin, g_seq_bodylen_enc, g_seq_bodylen_set, g_seq_chk_calc, g_seq_chk_set, g_seq_chk_enc;
long g_bodylen_value; const char *g_chk_from; unsigned long g_chk_len; unsigned g_chk_value; long g_chk_text, g_msgtype_set;
_Bool g_via_string; long g_assigned_n; const char *g_assigned_from;
_Bool g_clr8, g_clr9, g_clr10, g_null_begin, g_null_bodylen, g_null_chk;
struct field_m g_f_msgtype, g_f_begin, g_f_bodylen, g_f_chk;
static unsigned long declen(long v) { return v < 10 ? 1 : v < 100 ? 2 : v < 1000 ? 3 : v < 10000 ? 4 : v < 100000 ? 5 : v < 1000000 ? 6 : v < 10000000 ? 7 : 8; }
/* ---- ASSUMED models ---- */
struct field_m *mb_get_msg_type(struct FIX8_MessageBase *m) { return &g_f_msgtype; }
struct field_m *mb_get_begin_string(struct FIX8_MessageBase *m) { return g_null_begin ? 0 : &g_f_begin; }
struct field_m *mb_get_body_length(struct FIX8_MessageBase *m) { return g_null_bodylen ? 0 : &g_f_bodylen; }
struct field_m *mb_get_check_sum(struct FIX8_MessageBase *m) { return g_null_chk ? 0 : &g_f_chk; }
void fld_set_str(struct field_m *f, long *s) { if (f == &g_f_msgtype) g_msgtype_set = *s; if (f == &g_f_chk) { g_chk_text = *s; g_seq_chk_set = ++g_seq; } }
void fld_set_int(struct field_m *f, int *v) { __CPROVER_assert(f == &g_f_bodylen, "model: only BodyLength is set to an int"); g_bodylen_value = *v; g_seq_bodylen_set = ++g_seq; }
unsigned long section_encode(struct FIX8_MessageBase *m, char *to)
{
  /* which section: the header object, the trailer object, or the message's own body */
  unsigned long n;
  if (m == g_hdr) { n = g_nh; g_hdr_at = to; g_seq_hdr = ++g_seq; }
  else if (m == g_trl) { n = g_nt; g_trl_at = to; g_seq_trl = ++g_seq; }
  else { n = g_nb; g_body_at = to; g_seq_body = ++g_seq; }
  __CPROVER_assert(n == 0 || __CPROVER_w_ok(to, n), "C03.encode.section_bytes_fit_in_the_output_buffer");
  return n;
}
unsigned long fld_encode(struct field_m *f, char *to)
{
  unsigned long n;
  if (f == &g_f_begin) { n = 2 + g_bslen + 1; g_begin_at = to; g_seq_begin = ++g_seq; }
  else if (f == &g_f_bodylen) { n = 3 + declen(g_bodylen_value); g_bodylen_at = to; g_seq_bodylen_enc = ++g_seq; }
  else { n = 7; g_chk_at = to; g_seq_chk_enc = ++g_seq; }
  __CPROVER_assert(__CPROVER_w_ok(to, n), "C03.encode.field_bytes_fit_in_the_output_buffer");
  return n;
}
void ft_clear(struct ft_m *fp, unsigned short tag, unsigned what)
{
  __CPROVER_assert(what == E_FIX8_FieldTrait_TraitTypes_suppress, "model: only the suppress trait is cleared");
  if (tag == 8) g_clr8 = 1; if (tag == 9) g_clr9 = 1; if (tag == 10) g_clr10 = 1;
}
unsigned calc_chksum_model(const char *from, unsigned long sz, unsigned offset, int len)
{
  __CPROVER_assert(offset == 0 && len == -1, "model: whole-span checksum");
  g_chk_from = from; g_chk_len = sz; g_seq_chk_calc = ++g_seq; g_chk_value = nondet_uint() % 256;   /* K-chk: byte sum mod 256 of exactly that span */
  return g_chk_value;
}
_Bool g_small; _Bool g_assigned_ok; const char *g_contract_start; unsigned long g_contract_len;
long *str_assign_bytes(long *s, const char *p, unsigned long n)
{ g_assigned_n = (long)n; g_assigned_ok = p == g_contract_start && n == g_contract_len && __CPROVER_r_ok(p, n); *s = (long)n; return s; }
/* Message::encode(char **) by the contract K-enc proves of it (h_encode): given room for HEADER_CALC_OFFSET + sections + CheckSum field + terminator from *store,
   it leaves *store at the first byte of the message and returns its length */
struct FIX8_Message;
unsigned long message_encode_contract(const struct FIX8_Message *m, char **store)
{
  unsigned long body = g_nh + g_nb + g_nt, need = HCO + body + 7 + 1;
  if (g_small) __CPROVER_assert(need <= __CPROVER_OBJECT_SIZE(*store) - __CPROVER_POINTER_OFFSET(*store), "C03.encode_to_string.output_buffer_holds_a_message_of_at_most_the_maximum_length");
  else __CPROVER_assert(need <= __CPROVER_OBJECT_SIZE(*store) - __CPROVER_POINTER_OFFSET(*store), "C03.encode_to_string.output_buffer_holds_the_encoded_message");
  __CPROVER_assume(need <= __CPROVER_OBJECT_SIZE(*store) - __CPROVER_POINTER_OFFSET(*store));       /* what follows is checked for the runs in which it fits */
  unsigned long hlen = 2 + g_bslen + 1 + 3 + declen((long)body);
  *store = *store + HCO - hlen; g_contract_start = *store; g_contract_len = hlen + body + 7;
  return g_contract_len;
}
unsigned long str_size_id(const long *s) { return (unsigned long)*s; }
long fmt_chksum_model(unsigned v) { return 1000 + (long)v; }      /* the 3-digit text of v, as an id (K-fmt) */
'''

POST = r'''
/* Message::encode(f8String&): the same assembly into a FIX8_MAX_MSG_LENGTH + HEADER_CALC_OFFSET stack buffer, whatever the fields need */
void h_encode_to_string(void)
{
  struct FIX8_Message m; struct FIX8_MessageBase hdr, trl;
  g_msg = &m; g_hdr = &hdr; g_trl = &trl; m._header = &hdr; m._trailer = &trl; g_via_string = 1; g_small = 0;
  g_nh = nondet_ulong(); g_nb = nondet_ulong(); g_nt = nondet_ulong(); g_bslen = nondet_ulong();
  __CPROVER_assume(g_nh <= 4096 && g_nt <= 4096 && g_nb < 9990000 && g_bslen >= 1 && g_bslen <= 19);    /* the field values are as long as the application made them */
  m.__base._ctx._preamble_sz = 2 + g_bslen + 1 + 3;
  g_null_begin = g_null_bodylen = g_null_chk = 0;
  g_seq = 0; g_hdr_at = g_body_at = g_trl_at = g_begin_at = g_bodylen_at = g_chk_at = 0; g_clr8 = g_clr9 = g_clr10 = 0; g_chk_from = 0; __exc = 0;
  long to = 0;
  unsigned long r = message_encode_to_string(&m, &to);
  __CPROVER_assert(__exc || (g_assigned_ok && r == (unsigned long)g_assigned_n), "C03.encode_to_string.result_is_the_whole_encoded_message_read_inside_the_buffer");
  VACUITY_PROBE();
}
/* the same for messages whose sections render to at most FIX8_MAX_MSG_LENGTH - 8 bytes: the buffer (with its HEADER_CALC_OFFSET reserve) holds them */
void h_encode_to_string_small(void)
{
  struct FIX8_Message m; struct FIX8_MessageBase hdr, trl;
  g_msg = &m; g_hdr = &hdr; g_trl = &trl; m._header = &hdr; m._trailer = &trl; g_via_string = 1;
  g_nh = nondet_ulong(); g_nb = nondet_ulong(); g_nt = nondet_ulong(); g_bslen = nondet_ulong();
  __CPROVER_assume(g_nh <= 4096 && g_nt <= 4096 && g_nb < 9990000 && g_bslen >= 1 && g_bslen <= 19);    /* the field values are as long as the application made them */
  m.__base._ctx._preamble_sz = 2 + g_bslen + 1 + 3;
  __CPROVER_assume(g_nh + g_nb + g_nt <= 8192ul - 8ul);
  g_small = 1;
  g_null_begin = g_null_bodylen = g_null_chk = 0;
  g_seq = 0; g_hdr_at = g_body_at = g_trl_at = g_begin_at = g_bodylen_at = g_chk_at = 0; g_clr8 = g_clr9 = g_clr10 = 0; g_chk_from = 0; __exc = 0;
  long to = 0;
  unsigned long r = message_encode_to_string(&m, &to);
  __CPROVER_assert(__exc || (g_assigned_ok && r == (unsigned long)g_assigned_n), "C03.encode_to_string.result_is_the_whole_encoded_message_read_inside_the_buffer");
  VACUITY_PROBE();
}
void h_encode(void)
{
  struct FIX8_Message m; struct FIX8_MessageBase hdr, trl;
  g_msg = &m; g_hdr = &hdr; g_trl = &trl; m._header = &hdr; m._trailer = &trl; g_via_string = 0;
  g_nh = nondet_ulong(); g_nb = nondet_ulong(); g_nt = nondet_ulong(); g_bslen = nondet_ulong();
  __CPROVER_assume(g_nh <= 4096 && g_nt <= 4096 && g_nb < 9990000 && g_bslen >= 1 && g_bslen <= 19);    /* message below 10^7 bytes; BeginString at most 19 characters */
  m.__base._ctx._preamble_sz = 2 + g_bslen + 1 + 3;                                             /* as F8MetaCntx's constructor computes it */
  g_null_begin = nondet_bool(); g_null_bodylen = nondet_bool(); g_null_chk = nondet_bool();
  unsigned long cap = HCO + g_nh + g_nb + g_nt + 7 + 1;                                /* exactly the room the message needs */
  char *buf = malloc(cap); __CPROVER_assume(buf != 0);
  char *store = buf;
  g_seq = 0; g_hdr_at = g_body_at = g_trl_at = g_begin_at = g_bodylen_at = g_chk_at = 0; g_clr8 = g_clr9 = g_clr10 = 0; g_chk_from = 0;
  __CPROVER_assert(K_HEADER_CALC_OFFSET == HCO, "model constant HEADER_CALC_OFFSET");
  __exc = 0;
  unsigned long r = message_encode(&m, &store);
  if (__exc) {
    __CPROVER_assert(g_null_begin || g_null_bodylen || g_null_chk, "C02.throws_only_for_a_missing_mandatory_field");
  } else {
    unsigned long body = g_nh + g_nb + g_nt;
    __CPROVER_assert(g_hdr_at == buf + HCO && g_body_at == g_hdr_at + g_nh && g_trl_at == g_body_at + g_nb && g_chk_at == g_trl_at + g_nt
                     && g_seq_hdr < g_seq_body && g_seq_body < g_seq_trl, "C02.sections_contiguous_header_body_trailer");
    __CPROVER_assert(g_bodylen_value == (long)body, "C02.bodylength_is_bytes_between_bodylength_field_and_checksum_field");
    __CPROVER_assert(g_seq_bodylen_set < g_seq_bodylen_enc && g_seq_trl < g_seq_bodylen_set, "C02.bodylength_set_after_all_sections_and_before_it_is_rendered");
    __CPROVER_assert(g_begin_at == store && g_bodylen_at == g_begin_at + 2 + g_bslen + 1 && g_bodylen_at + 3 + declen((long)body) == g_hdr_at,
                     "C02.preamble_8_then_9_abuts_the_rest_of_the_header");
    __CPROVER_assert(store >= buf && store < buf + HCO, "C02.preamble_inside_the_reserved_offset");
    __CPROVER_assert(g_chk_from == store && g_chk_from + g_chk_len == g_chk_at, "C02.checksum_covers_exactly_all_bytes_before_the_checksum_field");
    __CPROVER_assert(g_seq_begin < g_seq_chk_calc && g_seq_bodylen_enc < g_seq_chk_calc && g_seq_trl < g_seq_chk_calc, "C02.checksum_computed_after_every_covered_byte_is_written");
    __CPROVER_assert(g_chk_text == 1000 + (long)g_chk_value && g_seq_chk_calc < g_seq_chk_set && g_seq_chk_set < g_seq_chk_enc, "C02.checksum_field_holds_the_formatted_sum_when_rendered");
    __CPROVER_assert(r == (unsigned long)(g_chk_at + 7 - store), "C02.returned_length_is_the_whole_message");
    __CPROVER_assert(g_clr8 && g_clr9 && g_clr10, "C02.suppressed_fields_8_9_10_are_rendered");
    __CPROVER_assert(g_msgtype_set == m.__base._msgType, "C02.msgtype_field_set_from_the_message_type");
  }
  VACUITY_PROBE();
}
'''

FLD = r'FIX8::Field<.*>'
UNIT = dict(
    name='k_enc', tu='tu/rt_message.cpp', no_follow=True,
    probe={'K_HEADER_CALC_OFFSET': 'FIX8::HEADER_CALC_OFFSET', 'E_FIX8_FieldTrait_TraitTypes_suppress': 'FIX8::FieldTrait::suppress'},
    pre_structs='struct field_m { int dummy; };\nstruct ft_m { int dummy; };\n',
    emit=dict(
        exceptions=True,
        default_args={'calc_chksum_model': {2: '0u', 3: '-1'}},
        pod=[r'std::basic_string<char>'],
        bases={'FIX8::Message': 'FIX8::MessageBase'},
        constants={'HEADER_CALC_OFFSET': '32ul', 'FIX8_MAX_MSG_LENGTH': '8192', 'Common_BeginString': '((unsigned short)8)', 'Common_BodyLength': '((unsigned short)9)', 'Common_CheckSum': '((unsigned short)10)'},
        type_map=[(r'(std::basic_string<char>|std::string|FIX8::f8String)', 'long'), (FLD, 'struct field_m'),
                  (r'FIX8::(msg_type|begin_string|body_length|check_sum)', 'struct field_m'), (r'FIX8::FieldTraits', 'struct ft_m'), (r'FIX8::BaseField', 'struct field_m'),
                  (r'FIX8::FieldTrait::TraitTypes', 'unsigned int')],
        lazy_structs=[r'FIX8::Message', r'FIX8::MessageBase', r'FIX8::F8MetaCntx'],
        calls={'FIX8::MessageBase::get_msg_type': 'mb_get_msg_type', 'FIX8::MessageBase::get_begin_string': 'mb_get_begin_string',
               'FIX8::MessageBase::get_body_length': 'mb_get_body_length', 'FIX8::MessageBase::get_check_sum': 'mb_get_check_sum',
               'FIX8::MessageBase::encode': 'section_encode',
               'FIX8::msg_type::set': dict(c='fld_set_str', sig='void (const std::string &)'), 'FIX8::check_sum::set': dict(c='fld_set_str', sig='void (const std::string &)'),
               'FIX8::body_length::set': dict(c='fld_set_int', sig='void (const int &)'), 'FIX8::Field<int, 9>::set': dict(c='fld_set_int', sig='void (const int &)'),
               'FIX8::Field<std::basic_string<char>, 35>::set': dict(c='fld_set_str', sig='void (const std::string &)'), 'FIX8::Field<std::basic_string<char>, 10>::set': dict(c='fld_set_str', sig='void (const std::string &)'),
               'FIX8::BaseField::encode': 'fld_encode', 'FIX8::begin_string::encode': 'fld_encode', 'FIX8::body_length::encode': 'fld_encode', 'FIX8::check_sum::encode': 'fld_encode',
               'FIX8::FieldTraits::clear': 'ft_clear', 'struct ft_m::clear': 'ft_clear',
               'FIX8::Message::encode': 'message_encode_contract', 'std::basic_string<char>::assign': 'str_assign_bytes', 'std::basic_string<char>::size': 'str_size_id',
               'calc_chksum': 'calc_chksum_model', 'fmt_chksum': 'fmt_chksum_model'}),
    prelude=PRELUDE,
    force_fields={'FIX8::Message': [('_header', 'FIX8::MessageBase *'), ('_trailer', 'FIX8::MessageBase *')],
                  'FIX8::MessageBase': [('_fp', 'FIX8::FieldTraits')],
                  'FIX8::F8MetaCntx': [('_preamble_sz', 'unsigned long')]},
    functions=[dict(q='FIX8::Message::encode', sig='size_t (char **) const', cname='message_encode'),
               dict(q='FIX8::Message::encode', sig='size_t (FIX8::f8String &) const', cname='message_encode_to_string')],
    postlude=POST,
    proofs=[dict(name='encode_to_string_small', harness='h_encode_to_string_small', properties=['C03'], solvers=['cadical', 'z3'], timeout=dict(quick=600, thorough=1800), floor=2, level='proved-modular', object_bits=10),
            dict(name='encode_to_string', harness='h_encode_to_string', properties=['C03'], solvers=['cadical', 'z3'], timeout=dict(quick=600, thorough=1800), floor=2, level='proved-modular', object_bits=10),
            dict(name='encode', harness='h_encode', properties=['C02'], solvers=['cadical', 'z3'], timeout=dict(quick=600, thorough=1800), floor=10, level='proved-modular', object_bits=10)],
    trusted_base=['ASSUMED: MessageBase::encode(char*) and BaseField::encode(char*) write exactly the number of bytes they return at the cursor they are given; BeginString renders as 2+|text|+1 '
                  'bytes, BodyLength as 3 + decimal digits of its value (K-int), CheckSum as 7 bytes; calc_chksum is the byte sum mod 256 of the span it is given (K-chk, proved under C07); '
                  'fmt_chksum renders 3 digits (model bodies in specs/k_enc.py)'],
    assumptions=['message below 10^7 bytes, BeginString of at most 19 characters (HEADER_CALC_OFFSET = 32 reserves room for 8=...|9=NNNNNNN|)',
                 'field order inside the sections, group counts and the decimal-tag=value shape of each field are properties of the section/field encoders, not decided here'],
)
