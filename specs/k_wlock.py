"""K-wlock (C25, lock discipline of the writer): FIXWriter::write(Message*, bool), write_batch, write(Message&) (include/fix8/connection.hpp), bodies from the clang AST.

Concurrency itself is outside sequential contracts.  What contracts CAN decide is the discipline the writer relies on: in the threaded and coroutine
models every call of Session::send_process is made while the writer's spin lock is held (the scoped guard is lowered to a ghost "acquired" that lasts to
the end of the function -- its scope), and in the pipelined model these functions never call send_process at all but hand the message to the queue whose
single consumer (FIXWriter::execute) is the only caller.  Under the ASSUMED correctness of f8_spin_lock (mutual exclusion) and of the queue (C30) the calls
of send_process are therefore serialised, and C16 / C17's per-call contracts give unique consecutive numbers and faithful stores for any number of senders.
NOT decided: data races on other session state, the lock and the queue themselves.
"""
PRE_STRUCTS = r'''
struct ses_m { int dummy; };
struct msg_m { _Bool end_of_batch; };
struct queue_m { int dummy; };
struct lock_m { int dummy; };
struct vec_m { struct msg_m **items; unsigned long n; };
struct uptr_m { struct msg_m *p; };
'''
PRELUDE = r'''
#define VACUITY_PROBE() __CPROVER_assert(0, "vacuity-probe")
unsigned nondet_uint(void); _Bool nondet_bool(void); unsigned long nondet_ulong(void);
_Bool g_lock_held; const void *g_lock_obj; int g_send_calls, g_push_calls; _Bool g_all_sends_locked; struct msg_m *g_sent[3]; _Bool g_sent_eob[3];
void guard_acquired(const void *lock) { g_lock_held = 1; g_lock_obj = lock; }
void guard_released(const void *lock) { g_lock_held = 0; }
_Bool ses_send_process(struct ses_m *s, struct msg_m *m)
{
  if (!g_lock_held) g_all_sends_locked = 0;
  __CPROVER_assume(g_send_calls < 3); g_sent[g_send_calls] = m; g_sent_eob[g_send_calls] = m->end_of_batch; g_send_calls++;
  return nondet_bool();
}
_Bool queue_try_push(struct queue_m *q, struct msg_m **m) { g_push_calls++; return nondet_bool(); }
void uptr_ctor(struct uptr_m *u, struct msg_m *p) { u->p = p; }
struct msg_m *uptr_get(const struct uptr_m *u) { return u->p; }
void msg_set_end_of_batch(struct msg_m *m, _Bool v) { m->end_of_batch = v; }
_Bool vec_empty(const struct vec_m *v) { return v->n == 0; }
unsigned long vec_size(const struct vec_m *v) { return v->n; }
struct msg_m **vec_front(const struct vec_m *v) { return &v->items[0]; }
struct msg_m **vec_begin(const struct vec_m *v) { return v->items; }
struct msg_m **vec_end(const struct vec_m *v) { return v->items + v->n; }
'''
POST = r'''
static void mk(struct FIX8_FIXWriter *w) { w->__base._pmodel = nondet_uint() % 3; g_lock_held = 0; g_send_calls = 0; g_push_calls = 0; g_all_sends_locked = 1; __exc = 0; }
void h_write(void)
{
  struct FIX8_FIXWriter w; mk(&w); struct msg_m m; _Bool destroy = nondet_bool();
  _Bool r = fixwriter_write(&w, &m, destroy);
  _Bool pipe = w.__base._pmodel == K_pm_pipeline;
  __CPROVER_assert(!pipe || (g_send_calls == 0 && g_push_calls == 1), "C25.write.pipelined_model_hands_the_message_to_the_queue_and_never_sends_itself");
  __CPROVER_assert(pipe || (g_send_calls == 1 && g_push_calls == 0 && g_sent[0] == &m), "C25.write.other_models_send_the_message_exactly_once");
  __CPROVER_assert(g_all_sends_locked && (pipe || g_lock_obj == (const void *)&w._con_spl), "C25.write.send_process_is_called_only_with_the_writer_lock_held");
  VACUITY_PROBE();
}
void h_write_ref(void)
{
  struct FIX8_FIXWriter w; mk(&w); struct msg_m m;
  _Bool r = fixwriter_write_ref(&w, &m);
  _Bool pipe = w.__base._pmodel == K_pm_pipeline;
  __CPROVER_assert(!pipe || (__exc && g_send_calls == 0), "C25.write_ref.refused_in_the_pipelined_model");
  __CPROVER_assert(pipe || (g_send_calls == 1 && g_sent[0] == &m && g_all_sends_locked && g_lock_obj == (const void *)&w._con_spl), "C25.write_ref.sends_once_with_the_writer_lock_held");
  VACUITY_PROBE();
}
void h_write_batch(void)
{
  struct FIX8_FIXWriter w; mk(&w); struct msg_m m0, m1; struct msg_m *items[2] = { &m0, &m1 }; struct vec_m v; v.items = items; v.n = 2; _Bool destroy = nondet_bool();
  m0.end_of_batch = nondet_bool(); m1.end_of_batch = nondet_bool();
  unsigned long r = fixwriter_write_batch(&w, &v, destroy);
  _Bool pipe = w.__base._pmodel == K_pm_pipeline;
  __CPROVER_assert(!pipe || (g_send_calls == 0 && g_push_calls == 2), "C25.write_batch.pipelined_model_queues_every_message");
  __CPROVER_assert(pipe || (g_send_calls == 2 && g_sent[0] == &m0 && g_sent[1] == &m1 && !g_sent_eob[0] && g_sent_eob[1]), "C25.write_batch.other_models_send_every_message_in_order_marking_the_last");
  __CPROVER_assert(g_all_sends_locked && (pipe || g_lock_obj == (const void *)&w._con_spl), "C25.write_batch.the_whole_batch_is_sent_under_one_hold_of_the_writer_lock");
  VACUITY_PROBE();
}
'''
W = 'FIX8::FIXWriter'
UNIT = dict(
    name='k_wlock', tu='tu/rt_connection.cpp', no_follow=True,
    pre_structs=PRE_STRUCTS,
    probe={'K_pm_pipeline': 'FIX8::pm_pipeline'},
    emit=dict(
        exceptions=True, guard_ghost='guard_acquired', guard_ghost_release='guard_released',
        bases={'FIX8::FIXWriter': 'FIX8::AsyncSocket<FIX8::Message *>'},
        pod=[r'std::basic_string<char>'],
        type_map=[(r'FIX8::Session', 'struct ses_m'), (r'FIX8::Message', 'struct msg_m'), (r'FIX8::ProcessModel', 'unsigned int'), (r'FIX8::f8_spin_lock', 'struct lock_m'),
                  (r'FIX8::f8_concurrent_queue<FIX8::Message \*>|FIX8::ff_unbounded_queue<FIX8::Message \*>', 'struct queue_m'), (r'Poco::Net::StreamSocket', 'void'),
                  (r'std::vector<(FIX8::)?Message \*.*>', 'struct vec_m'), (r'std::unique_ptr<FIX8::Message.*>', 'struct uptr_m'),
                  (r'__gnu_cxx::__normal_iterator<FIX8::Message \*const \*, std::vector<FIX8::Message \*.*>>', 'struct msg_m **'),
                  (r'std::vector<FIX8::Message \*.*>::const_iterator', 'struct msg_m **')],
        lazy_structs=[r'FIX8::FIXWriter', r'FIX8::AsyncSocket<.*>'],
        calls_rx=[(r'FIX8::(f8_concurrent_queue|ff_unbounded_queue)<FIX8::Message \*>::try_push', dict(c='queue_try_push', sig='bool (FIX8::Message *const &)')),
                  (r'std::unique_ptr<FIX8::Message.*>::unique_ptr', 'uptr_ctor'), (r'std::unique_ptr<FIX8::Message.*>::get', 'uptr_get'),
                  (r'std::vector<FIX8::Message \*.*>::empty', 'vec_empty'), (r'std::vector<FIX8::Message \*.*>::size', 'vec_size'), (r'std::vector<FIX8::Message \*.*>::front', dict(c='vec_front', sig='FIX8::Message *const &() const')),
                  (r'std::vector<FIX8::Message \*.*>::begin', 'vec_begin'), (r'std::vector<FIX8::Message \*.*>::end', 'vec_end')],
        calls={'FIX8::Session::send_process': 'ses_send_process', 'FIX8::Message::set_end_of_batch': 'msg_set_end_of_batch',
               W + '::write': lambda em, n, args: 'fixwriter_write' if len(args) == 2 else 'fixwriter_write_ref'}),
    prelude=PRELUDE,
    force_fields={W: [('_con_spl', 'FIX8::f8_spin_lock')]},
    functions=[
        dict(q=W + '::write', sig='bool (FIX8::Message *, bool)', cname='fixwriter_write'),
        dict(q=W + '::write', sig='bool (FIX8::Message &)', cname='fixwriter_write_ref'),
        dict(q=W + '::write_batch', sig=None, cname='fixwriter_write_batch'),
    ],
    postlude=POST,
    proofs=[
        dict(name='write', harness='h_write', properties=['C25'], solvers=['cadical', 'z3'], timeout=dict(quick=300, thorough=900), floor=3, level='proved-modular', object_bits=10),
        dict(name='write_ref', harness='h_write_ref', properties=['C25'], solvers=['cadical', 'z3'], timeout=dict(quick=300, thorough=900), floor=2, level='proved-modular', object_bits=10),
        dict(name='write_batch', harness='h_write_batch', properties=['C25'], solvers=['cadical', 'z3'], timeout=dict(quick=300, thorough=900), floor=3, level='bounded', unwind=4, object_bits=10),
    ],
    trusted_base=['ASSUMED: f8_spin_lock / f8_scoped_spin_lock give mutual exclusion while the guard is in scope; the queue hands every pushed message to its single consumer once (C30); '
                  'std::unique_ptr / std::vector accessors (model bodies in specs/k_wlock.py)'],
    assumptions=['sequential verification of the lock DISCIPLINE only; batches of two messages in the write_batch harness (bounded)'],
)
