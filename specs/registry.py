"""Which units decide which property, and at what level (MANIFEST.json is generated from this)."""

PROPS = {}
replayers = {}     # unit name -> function(obligation id, trace inputs, trace text, workdir) -> dict(reproduced=bool, ...)

COMMON_TRUST = [
    'clang-14 AST of the TU equals what g++ 12 compiles; vlib/cxx2c.py lowering rules (listed with firing counts in extraction_rules_fired)',
    'CBMC 6.11 goto-instrument --dfcc contract instrumentation and the SAT/SMT back ends are sound',
    'x86-64 data model: LP64, little endian, char signed, unaligned loads allowed',
    'sequential semantics: atomics are plain variables, no concurrency, no signals',
]

PROPS['C07'] = dict(
    units=['k_chk'], level='proof', design_ref='6/C07',
    technique='CBMC dfcc function contract + loop contracts (lane-decomposed inductive invariant, lock-step ghost byte sum) on calc_chksum extracted from the clang AST',
    text='Unbounded proof for every buffer content, every size up to 2^31-1 and every offset/length pair: the result equals the '
         'lock-step ghost sum of exactly bytes [offset, offset+n) mod 256, and every read is inside an object of exactly that extent. The std::string overload '
         'is proved (modularly, from the pointer overload\'s contract) to hand over exactly the string\'s bytes, size, offset and length.',
    note='sz capped at 2^31-1 (int len); ghost spec is the byte-at-a-time running sum; unaligned 32-bit loads assumed defined (x86-64)',
    trusted_base=COMMON_TRUST,
    explanation='Message::calc_chksum is extracted from the clang AST on each run; its contract (requires is_fresh(from, offset+n); ensures '
                'result == ghost byte sum, ghost count == n) is enforced with goto-instrument --dfcc; both loops carry loop contracts so the proof is unbounded in sz.',
)


PROPS['C08'] = dict(
    units=['k_int'], level='proof', design_ref='6/C08',
    technique='CBMC contracts on itoa<int>, itoa<unsigned>, fast_atoi<int|unsigned|unsigned short> extracted from the clang AST: '
              'canonical-text and value postconditions against a strtol-style spec function, plus the modular round-trip lemma over the two contracts',
    text='Integer conjunct: proof for all 2^32 values of int and of unsigned. itoa writes at most 12 bytes, returns the length, and the text is the '
         'canonical decimal (optional single minus only for negatives, no leading zero) whose spec value is the argument; fast_atoi returns the spec '
         'value of every canonical text in range; the two contracts compose to fast_atoi(itoa(x)) == x. Loops are closed by unwinding to the '
         '11-character width of a 32-bit decimal with unwinding assertions, which is complete for the domain. Floating-point conjunct '
         '(modp_dtoa / fast_atof correct rounding and half-ulp parse-back): NOT decided by this check.',
    note='floating-point half of C08 is not decided (IEEE rounding over a decimal digit chain is out of reach of CBMC\'s float bit-blasting); '
         'spec_val/spec_canon are a trusted 12-line oracle; itoa only at base 10; thorough tier adds the direct (non-modular) round trip on the real bodies',
    trusted_base=COMMON_TRUST,
    explanation='Each function is enforced against its contract in its own harness (is_fresh 12-byte buffer, so any 13th byte written is a bounds violation); '
                'rt_int_modular replaces both calls by their contracts and proves the round trip from the contracts alone.',
)

PROPS['C09'] = dict(
    units=['k_date'], level='proof', design_ref='6/C09',
    technique='CBMC harness contracts on time_to_epoch, format0/parse_decimal, date_time_format, date_time_parse, time_parse, date_parse extracted from the '
              'clang AST, against Hinnant civil-calendar spec functions; Tickval (std::chrono + gmtime_r) is an assumed model',
    text='Proof for every valid broken-down time 1970..2099 (all days, seconds of day, milliseconds): time_to_epoch equals the proleptic-Gregorian '
         'day count * 86400 + seconds of day; the rendered text for each of the six indicators is exactly the fixed-width wire text of the calendar fields, '
         'written inside a 21-byte buffer; parsing the wire text of any valid field tuple hands exactly those fields to time_to_epoch and returns its value '
         'scaled to ns plus the milliseconds; time-only and date-only/MonthYear texts likewise. The pure calendar lemma that composes format and parse into the round trip (the two spec directions are inverse '
         'on [1970,2100)) and the direct round trip on the compiled codecs are NOT proved (CBMC did not finish within 30 min): both tiers evaluate them '
         'natively, exhaustively over all 47482 days, labelled native and never counted as proved. The GetTimeAsStringMS conjunct (iostream rendering of log timestamps) is NOT decided by this check.',
    note='Tickval::get_tm (chrono to_time_t + gmtime_r) and Tickval::msecs are ASSUMED to return the spec calendar fields (model bodies in specs/k_date.py); '
         'utcdiff = 0; loops bounded by field width <= 4 are unwound with unwinding assertions (complete); GetTimeAsStringMS not covered',
    trusted_base=COMMON_TRUST,
    explanation='Field tuples are symbolic over the whole valid domain; wire text is characterised by layout + digit-group recomposition (no division), '
                'so format and parse are each proved against the same text predicate and compose to the round trip through the calendar inverse lemma.',
)


PROPS['C10'] = dict(
    units=['k_realm'], level='proof', design_ref='6/C10',
    technique='CBMC harness contracts on RealmBase::get_rlm_idx<int|char> and is_valid<int|char> extracted from the clang AST, over a realm table of symbolic '
              'length; std::lower_bound / std::binary_search are assumed ISO contracts with a ghost partition index; membership by a single ghost witness',
    text='Proof for every strictly sorted table of 1..2^24 ints or chars, every probe value and every witness position: a set-realm index is -1 or a valid '
         'index whose element equals the value (idx_exact), a member always gets its own index (idx_member), the index is a valid subscript of '
         '_descriptions[_sz] (idx_in_bounds); a range-realm index is reported only for values inside [lo, hi]; is_valid equals set membership / range inclusion. '
         'The per-field wrappers Field<int|char|Boolean, tag>::get_rlm_idx()/is_valid() (what MessageBase::print calls) look up the field\'s own value -- for Boolean its wire character Y/N -- in the field\'s own realm, -1/true without a realm.',
    note='std::lower_bound / std::binary_search contracts are ASSUMED (model bodies); "tables are strictly sorted" and "_descriptions has _sz entries" are '
         'facts about f8c output, not proved; only the int and char instantiations are verified (f8String / fp_type share the text, not the proof); '
         'the printer MessageBase::print (iostream) is not under contract: it subscripts _descriptions with exactly the index proved in bounds here',
    trusted_base=COMMON_TRUST,
    explanation='The real template bodies are extracted per instantiation; the table lives behind a malloc of symbolic size, so any read outside [0,_sz) is a bounds '
                'violation; sortedness is instantiated at (witness, partition point), which is the only instance the proof uses.',
)

PROPS['C12'] = dict(
    units=['k_tab', 'k_pset'], level='proof', design_ref='6/C12',
    technique='CBMC contracts (harness pre/postconditions, dfcc loop contracts on the two index-building loops) on GeneratedTable::_find/find_ptr/find_pair_ptr/find_ref/at for '
              'both instantiations the library uses, F8MetaCntx::find_be with the constructor\'s index loop, FieldTrait_Hash_Array + Presence::find, and Presence '
              'insert/find/clear/at, all extracted from the clang AST; representation invariant of the sorted set proved preserved by every operation (inductive step '
              'of the history lemma); STL algorithms, strcmp, memcpy/memmove are assumed model bodies with ghost witnesses',
    text='Proof for every strictly sorted table of 1..2^20 entries (field table: unsigned keys; message table: C-string keys ordered by strcmp), every probe key and every '
         'witness position: a lookup hit returns exactly the entry whose key equals the probe, a present key is always found, the result points into the table, '
         'find_ref throws only InvalidMetadata and only on a miss, at() is bounds-checked. F8MetaCntx::find_be after the constructor\'s index loop returns the entry with that '
         'tag or null (tables up to 2^20 entries, tags 0..65535). FieldTrait_Hash_Array + Presence::find: hit exactly for present tags, end() otherwise, for every '
         'non-empty table of up to 65536 traits. Insertable Presence: find/at/size correct under the representation invariant (capacity >= 1, size <= capacity, storage of '
         'exactly capacity elements, strictly sorted), and insert and clear re-establish it: insert refuses a duplicate and leaves the set unchanged, otherwise size+1, every old '
         'element keeps its content at its (shifted) position, the new element is at the partition point, order is strict, the returned iterator points at the new element '
         '-- on all three code paths (first element, room left, reallocation) -- which is the inductive step covering every sequence of inserts, lookups and clears. '
         'NOT decided: the reverse name tables (std::map with a strcmp comparator: libstdc++ code), the generic presorted_set template (only its FieldTrait specialisation is '
         'instantiated anywhere), Presence constructors/copy, FieldTraits wrapper methods.',
    note='std::lower_bound / equal_range / fill, strcmp, memcpy / memmove, operator new[] are ASSUMED (model bodies, listed); "generated tables are strictly sorted, unique and non-empty" is a fact '
         'about f8c output; memcpy/memmove model = exact copy of two ghost-watched elements + one arbitrary other element havocked (byte-level havoc of a symbolic range is intractable in CBMC); '
         'F8MetaCntx constructor: only the two index initialisers and the first three body statements are extracted (the std::function / std::map members are dropped)',
    trusted_base=COMMON_TRUST,
    explanation='Tables live behind mallocs of symbolic size so any access outside is a bounds violation; membership is a single ghost witness index and sortedness is instantiated at '
                '(witness, partition point) or per loop iteration; the two index-building loops carry dfcc loop contracts (hit and miss invariants over a ghost watched slot).',
)

PROPS['C29'] = dict(
    units=['k_rot', 'k_rot_fp'], level='proof', design_ref='6/C29',
    technique='CBMC dfcc loop contracts on the two loops of the rotation block of FileLogger::rotate and of the purge block of FilePersister::initialise, extracted from the '
              'clang AST of runtime/logger.cpp and runtime/filepersist.cpp; std::string / ostringstream / vector<string> / rename are assumed models (file name = generation '
              'number, vector subscripts require index < size) whose call sites become named obligations',
    text='Proof for every rotation count 0..2^32-1, every flag word and force value (no unwinding: both loops carry loop contracts): the name list holds the live name followed by '
         'generations 1..min(count,1024) in order and never more than 1025 entries; every vector subscript in the rename loop is below size() (the obligation that failed for counts '
         'above 1024 before the fix); the rename calls are exactly name.(k-1) -> name.k for k = min(count,1024) down to 1, in that order, with no other name touched; an append-mode log is '
         'not rotated unless forced; the call leaves the logger\'s configuration (flags, count, path) unchanged. Same for the file store\'s purge rotation with data and index files '
         'shifted in lock step. NOT decided: the contents of the files (rename(2) semantics), directory creation and the re-opening of the live file.',
    note='only the rotation blocks are extracted (statement selection; the rest of the two functions is path handling, stream opening and logging); std::string, std::ostringstream, '
         'std::vector<std::string> and rename are ASSUMED models; failures of rename are ignored by the code and not treated as violations',
    trusted_base=COMMON_TRUST,
    explanation='A file name is modelled by its generation number, so "name.k gets what name.(k-1) held" is the obligation dst == src+1 at every rename call, and the order/extent of the '
                'shift is the loop invariant over a ghost rename log.',
)

PROPS['C23'] = dict(
    units=['k_sid', 'k_logon'], level='proof', design_ref='13/C23',
    technique='CBMC harness contracts on SessionID::operator==, operator!=, same_*_comp_id (K-sid) and on Session::handle_logon (K-logon), all extracted from the clang AST; identity string model '
              '(a CompID is an id, std::string ==/!= are assumed content equality); the inbound Logon, the client list, logger/persister creation, authenticate, the sequence gate and send are models',
    text='Identity (K-sid, all CompID values incl. the aliased case): two session identities compare equal exactly when SenderCompID and TargetCompID are both equal, operator!= is exactly the '
         'negation of operator== (failed before fix 9eedfd3), the four same_*_comp_id cross-checks compare the intended pair. '
         'Logon handling (K-logon, proved-modular for every session state, configuration and Logon content): an ACCEPTOR answers with a Logon -- exactly one -- only and exactly when the '
         'TargetCompID is its own SenderCompID (if CompID enforcement is on), the sender is in the configured client list with the configured address (if a list / an address is configured) and '
         'authenticate() agrees; the reply echoes HeartBtInt and DefaultApplVerID and the connection adopts the interval; ResetSeqNumFlag=Y makes both sequence numbers 1 before the sequence gate '
         'and the reply, otherwise they are the recovered numbers overridden by the numbers requested at start; the session identity becomes the mirror of the Logon; a refused logon sends '
         'nothing, stops the session, ends in state terminated and reports failure; a completed one enters normal operation and starts supervision. An INITIATOR treats a response whose '
         'BeginString / CompIDs do not mirror its identity as a mismatch: with enforcement it stops without applying the gate, otherwise (and for a matching response) it applies the gate and '
         'enters normal operation; it never answers and never touches the numbers. A Logon while logged on is rejected and changes nothing. '
         'NOT decided: Configuration::create_clients / the address comparison inside Poco, authenticate() overrides, the schedule check ordering (the Logon reply precedes it), start().',
    note='handle_logon is under contract over ASSUMED models of ~35 library / virtual calls; std::string ==/!= assumed; BeginString is not part of SessionID equality in the code (stated as the spec too)',
    trusted_base=COMMON_TRUST,
    explanation='SessionID is a struct of three string ids and the cached id string; the cached string is unconstrained, so an implementation comparing it instead of the CompIDs is refuted. '
                'handle_logon is one call over symbolic state, so its postconditions hold for every reachable and unreachable configuration alike.',
)

PROPS['C24'] = dict(
    units=['k_sched'], level='proof', design_ref='6/C24',
    technique='CBMC harness contracts on Schedule::test (with Tickval::in_range / is_errorval) extracted from the clang AST, against a window specification written from the property, as a '
              'one-step lemma over two clock readings at most 60 s apart (virtual clock; Tickval/chrono and gmtime weekday are assumed integer models; cvc5 back end for the 64-bit '
              'day arithmetic); decode_dow evaluated natively and exhaustively over all strings of up to 3 bytes',
    text='Daily schedules: proof for every start < end, utc offset within +-14 h and instant 2001..2096 that test() returns exactly "local time of day in [start, end]" whatever the '
         'previous state. Weekly schedules, one-step lemma (previous state correct at a check at most 60 s earlier => new state correct; window >= 60 s): proved for windows running '
         'from an earlier to a later weekday and not ending in the last minute of a day. REFUTED on the pinned tree and listed as known findings (each reproduced on the real code under '
         'a virtual clock): windows that begin and end on the same weekday never activate; windows that wrap over the week end are left a day late; windows ending in the last minute '
         'of their end day are left late. decode_dow: exhaustive native evaluation (not a proof) of all 16 843 009 strings of length 0..3 against the table in the property. '
         'NOT decided: Configuration::create_schedule (XML attribute handling), the session-level use of the result.',
    note='Tickval (std::chrono) and the weekday of gmtime_r are ASSUMED integer models; the weekly claim is the inductive step only (the first check after start-up inside a window is outside it); '
         'decode_dow is exhaustive-native over its stated finite domain, labelled as such',
    trusted_base=COMMON_TRUST,
    explanation='The specification window is computed from the same quotient/remainder terms the code computes, so the solver relates code and spec without a second 64-bit division.',
)

PROPS['C28'] = dict(
    units=['k_log'], level='proof', design_ref='6/C28',
    technique='CBMC harness contracts on Logger::is_loggable, Logger::send, Logger::enqueue, Logger::operator(), Logger::flush and the numbering statement and the output step of Logger::process_logline extracted from the clang AST; the lock-free queue is an assumed model whose try_push '
              'nondeterministically accepts or refuses',
    text='Sequential conjuncts only: proof for every level mask, level, line and queue answer that a line at a disabled level is never submitted (and send reports success), a line at an '
         'enabled level is submitted exactly once with its text, level and value, and send/enqueue return true exactly when the queue accepted the line (the obligation that failed before fix '
         '33c45da). The consumer thread\'s body Logger::operator() (clang AST, loop contract; the queue is a ghost FIFO of accepted lines and other threads act between any two of its '
         'steps: producers add lines until stop() is called, stop() requests the stop and then enqueues the end marker): it ends only after stop was requested and only when every accepted '
         'line has been handed to process_logline -- the obligation that failed before fix 676e2e5 (the loop ended as soon as the stop was requested: 20000 lines submitted, about 2800 written); '
         'the end marker is never written as a line. Logger::flush (clang AST, loop contract over a buffer of any length up to 10^6 lines): every buffered line is inserted into the stream '
         'exactly once, in buffer order, under one hold of the logger mutex, and the buffer is empty afterwards (so a second flush writes nothing twice). The numbering statement of '
         'Logger::process_logline (`case sequence:`; the innermost statement that increments _sequence, selected from the AST on every run -- the rest of process_logline is formatting and '
         'is NOT extracted): exactly one number is written per line, exactly one counter advances by one, the number written is the successor of the previous line of the same counter, '
         'and a logger that does not separate directions numbers all lines from one counter. The output step of process_logline (the `if (_flags & buffer) ... else ...` that ends it, selected '
         'from the AST the same way; strings are identities): a buffering logger appends the line to its buffer exactly once and writes nothing, a direct logger inserts the line into the '
         'stream exactly once, under the logger mutex, which is released afterwards, and the write reaches the file before the step ends (endl, or an explicit flush when the logger writes no line feeds); flush() ends every line it writes. NOT decided: conjuncts about producer interleavings (exactly once / per-producer order '
         'under 1-8 concurrent producers: the queue itself, C30), the formatting part of process_logline (the loop over positions), that the buffer append itself is not under the mutex flush() holds (a data race if flush() is called from another thread -- schedules), that stop() joins the thread.',
    note='producer interleavings are outside sequential contracts; the consumer is verified against an environment that may act between any two of its steps; queue, LogElement constructor, thread id are ASSUMED models',
    trusted_base=COMMON_TRUST,
    explanation='The ghost log of the queue model records each try_push call and its answer, so "submitted exactly once" and "reports success iff accepted" are postconditions over that log.',
)

PROPS['C31'] = dict(
    units=['k_timer'], level='proof', design_ref='6/C31',
    technique='CBMC dfcc loop contract on the loop of Timer<Session>::operator() (every iteration checked from an arbitrary queue state), harness contracts on Timer::schedule, Timer::clear '
              '(loop contract) and TimerEvent::operator<, extracted from the clang AST of the instantiation the session uses; std::priority_queue, Tickval/clock and the callback are assumed models '
              'that carry the obligations as assertions at the moment of each event',
    text='Proof, for every queue state, clock reading and callback result, that in one iteration of the timer thread a callback runs only for the event that was the queue maximum, only after it '
         'has been removed, never before its due time and never for an unset (0) due time; that a repeating event whose callback returned true is re-queued exactly once, unchanged except for '
         'its due time = this run + its interval, and is not re-queued otherwise; that schedule(e, ms) queues exactly e with due time now + ms and interval ms; that clear() leaves no pending '
         'event and returns the number removed (for every queue size, loop contract); that operator< orders by later due time, so the queue maximum (assumed std::priority_queue semantics) '
         'is the earliest due event. NOT decided: real-time lateness, that the timer thread is scheduled at all, and every race between clear()/schedule() from other threads and an '
         'iteration in progress (the spin lock is dropped by the extraction; interleavings are outside sequential contracts).',
    note='std::priority_queue, Tickval (std::chrono), the callback and the cancellation token are ASSUMED models; concurrency conjunct of "after clearing no pending event runs" (clear racing a running callback) is not decided',
    trusted_base=COMMON_TRUST,
    explanation='The loop body is verified from a havocked state under a loop contract, so the obligations hold for every iteration of every run; ghost per-iteration flags tie the callback, the pop and the push together.',
)

PROPS['C02'] = dict(
    units=['k_enc', 'k_chk'], level='proof', design_ref='6/C02',
    technique='CBMC harness contract on Message::encode(char **) extracted from the clang AST of runtime/message.cpp: the section encoders, field encoders, calc_chksum and fmt_chksum are assumed '
              'models that log where and in which order they are asked to write; the wire-format facts this function is responsible for are postconditions over that ghost log',
    text='Assembly step only (proved-modular): for every split of the message into header / body / trailer bytes (total below 10^7), every BeginString length up to 19 and every checksum value: '
         'the sections are written contiguously in the order header, body, trailer starting HEADER_CALC_OFFSET bytes into the buffer; BodyLength is set, after all sections are written and before it is '
         'rendered, to exactly the number of bytes between the BodyLength field and the CheckSum field; the 8= and 9= fields are written in that order so that they end exactly where the rest of the '
         'header begins (the digit-count ladder agrees with the decimal length for every value -- the obligation an off-by-one boundary breaks); the checksum is computed after every covered byte is '
         'written, over exactly the bytes from the first byte of 8= up to the CheckSum field, formatted and stored before the CheckSum field is rendered directly after the trailer; the returned length '
         'is the whole message; suppression is cleared for 8, 9, 10; exceptions only for a missing mandatory field. calc_chksum itself is proved under C07. NOT decided: the rendering of individual '
         'fields as decimal-tag=value SOH, schema position order inside a section, group count/element structure (MessageBase::encode / encode_group over the _pos multimap), fmt_chksum.',
    note='MessageBase::encode(char*) (sections) and BaseField::encode(char*) (fields) are ASSUMED to write exactly the bytes they report; field order and group structure inside sections are not covered; '
         'BeginString up to 19 characters and messages below 10^7 bytes are stated bounds',
    trusted_base=COMMON_TRUST,
    explanation='Each opaque encoder is a model that records the cursor it was given and a sequence number; contiguity, BodyLength, the checksummed span and the ordering constraints are then plain '
                'arithmetic over that log, checked for all byte counts at once.',
)

PROPS['C15'] = dict(
    units=['k_read'], level='proof', design_ref='6/C15',
    technique='CBMC dfcc function contract + loop contract on FIXReader::sockRead extracted from the clang AST of connection.hpp; the socket is an assumed model delivering the next bytes of a '
              'ghost inbound stream in arbitrary chunk sizes (k-witness content)',
    text='Chunking conjunct (proved-modular, unbounded in the number of chunks): for every request of 1..8192 bytes and EVERY sequence of chunk sizes the socket chooses, sockRead either throws '
         'PeerResetConnection or returns exactly the requested count, has consumed exactly that many bytes of the stream, and the buffer holds exactly the next stream bytes in order (each byte '
         'lands at its own offset: the obligation a missing `+ rddone` breaks); every receive call is given room for the bytes it may write. '
         'Framing (FIXReader::read from the clang AST, against sockRead\'s contract with --replace-call-with-contract, its length loop under a loop contract; every preamble size, BodyLength and '
         'tokeniser geometry): every sockRead request is 1..8192 bytes into a buffer with room for it (also body + checksum); the message buffer is indexed inside its bounds; the tokeniser\'s '
         'tag and value buffers hold whatever the preamble can contain (both failed before fix 363a513: 8 KB of digits from the peer overflowed the stack -- ASan, through a real socket); a frame '
         'is handed on only with our BeginString and 1 <= BodyLength <= max - preamble - 7, its length is exactly the number of stream bytes consumed for it and the session is then marked as '
         'having received; every failure is a framing exception (IllegalMessage / InvalidVersion / InvalidBodyLength / PeerResetConnection) or a false return with nothing marked received. '
         'NOT decided: byte identity of the assembled frame (string assign / append are size-only models; sockRead\'s byte identity is proved), FIXReader::execute (thread / queue hand-off), '
         'termination (the code retries for ever on EAGAIN).',
    note='sockRead and read are covered; Poco::Net::StreamSocket::receiveBytes, the tokeniser geometry and std::string assign/append are ASSUMED models; errno is a plain variable',
    trusted_base=COMMON_TRUST,
    explanation='The inbound stream is a ghost cursor plus one watched position; the loop invariant says the bytes received so far sit at their stream offsets, so any chunking yields the same buffer.',
)

PROPS['C26'] = dict(
    units=['k_mper', 'k_fper'], level='proof', design_ref='6/C26',
    technique='CBMC harness contracts (one dfcc loop contract) on MemoryPersister::put(seq,text), put(sender,target), get(seq,text), get(sender&,target&), get_last_seqnum, '
              'find_nearest_highest_seqnum extracted from the clang AST of runtime/persist.cpp; std::map and std::string are assumed models in the single-witness abstraction '
              '(one arbitrary watched key exact, all other keys nondeterministic, maximum key tracked)',
    text='Memory persister, per-operation store contract (proved-modular, for every store state expressible through the watched key and every argument): storing to 0 or to an occupied number is '
         'refused and leaves the stored text untouched; storing to a free number makes exactly that text the one get returns; get hits exactly the stored numbers; the control record returned is the '
         'LAST pair stored and a control put always succeeds (both obligations failed before fixes 4ce2d71 / 7005104); the last sequence number is the largest stored key (0 when empty) and not '
         'below any stored number; nearest-highest (requested >= 1) lies in [requested, last] and is not above any stored number in that range (loop contract, every range). These are the '
         'inductive steps of "behaves like a map from sequence number to bytes plus one control record" for every sequence of these operations. Range retrieval '
         'MemoryPersister::get(from, to, session, callback) (dfcc loop contract over the iterator, every store and range): exactly the stored records of [from, to] (to = 0: up to the last) are '
         'handed to the callback, each once, in ascending order and with the stored text, then completion is signalled exactly once, and the count returned is the number handed over. '
         'File persister (K-fper: FilePersister::put x2, get x2, get_last_seqnum, find_nearest_highest_seqnum, get(from, to, ..) from the clang AST over ghost models of the two files and the in-memory index): '
         'put is refused for 0 / an occupied number / an unopened store and then writes nothing; it appends the text to the data file and one index record naming exactly that region; get reads '
         'exactly the region the record names, into a buffer large enough for it (failed before fix 40e3b9c: a stored text longer than FIX8_MAX_MSG_LENGTH overflowed a stack buffer -- ASan); '
         'the control record lives in slot 0 and control get returns the last pair put; last / nearest-highest / range retrieval as for the memory persister (loop contracts). '
         'NOT decided: FilePersister::initialise (index replay on reopen), the history lemma as one composed statement.',
    note='std::map / std::string / lseek / read / write are ASSUMED models (single-witness abstraction, ghost files); the range-get callback is a model that always asks to continue; find_nearest_highest_seqnum(0, last) returns 0 '
         'when a control record exists (key 0 is found first): requested >= 1 is a stated precondition (sequence numbers start at 1)',
    trusted_base=COMMON_TRUST,
    explanation='Each for-all-keys clause of the store contract is stated about one arbitrary ghost key; the map model answers exactly for that key and nondeterministically for every other, '
                'so a proof holds for every key and every map by generalisation.',
)

PROPS['C19'] = dict(
    units=['k_seq', 'k_proc'], level='proof', design_ref='6/C19',
    technique='CBMC harness contract on Session::enforce with Session::sequence_check, compid_check, do_state_change, States::is_established/is_live and SessionID::same_*_comp_id all '
              'translated from their real bodies (clang AST of runtime/session.cpp); the inbound message header, send/generate_resend_request and the session configuration are assumed models',
    text='The library-side gate (proved-modular, for every session state, expected number, received number, header content and configuration): enforce lets a message through to the application '
         '(returns false without throwing) exactly when the session is established, the CompIDs match the session identity when enforcement is on, and the number is the expected one or lower '
         'with PossDupFlag=Y and OrigSendingTime not after SendingTime; a higher number in normal operation is withheld, a ResendRequest starting at the expected number is sent (exactly one) and '
         'the state becomes resend_request_sent; a lower number without PossDup raises MsgSequenceTooLow; the gate never moves the expected number and raises only protocol exceptions. '
         'ASSUMED: every handle_application is `enforce(seqnum, msg) || msg->process(router)` (as all in-tree ones are). '
         'Around the gate (K-proc: Session::process from the clang AST, handlers other than handle_sequence_reset as models applying the gate\'s contract; proved-modular for every state, number, '
         'message type, construction outcome and handler outcome): the number handed to the handlers is the MsgSeqNum field of the message, also when an earlier header value contains the text "34=" '
         '(failed before fix 2fe21e9); the message type selects exactly one handler; a message that cannot be constructed reaches no handler, an ordinary failure is answered with exactly one Reject '
         'and consumes the number, one that forces logout stops the session; a lower number without PossDupFlag is not delivered and shuts the session down, with a Logout during logon. '
         'KNOWN FINDING: in normal operation that shutdown sends no Logout (process() sends it only in state logon_received). '
         'NOT decided: handle_logon / handle_admin / activation_check bodies, Message::factory (C04), the history lemma.',
    note='the gate and process() are under contract; the admin handlers other than handle_sequence_reset are models; message header accessors, string search and send() are ASSUMED models; delivery itself happens in user code',
    trusted_base=COMMON_TRUST,
    explanation='The inbound message is a ghost record of the header facts the gate reads; all session state it touches is symbolic, so the postconditions hold for every reachable and unreachable state alike.',
)

PROPS['C20'] = dict(
    units=['k_seq', 'k_proc'], level='proof', design_ref='6/C20',
    technique='same unit as C19 (Session::enforce / sequence_check from the clang AST): obligations about a number above the expected one',
    text='A number above the expected one in normal operation is withheld and answered with a ResendRequest, not treated as fatal (proved). REFUTED on the pinned tree and listed as known findings, '
         'each reproduced through the real Session::process with the utests mock connection: a further higher-numbered message while the resend is pending (conformant: the counterparty keeps '
         'sending) raises InvalidMsgSequence, which forces a logoff; a Logon whose number is above the expected one does the same (unless the ignore_logon_sequence_check flag is set). '
         'The expected inbound number (K-proc: Session::process and handle_sequence_reset from the clang AST, proved-modular): an in-sequence message advances it by exactly one; a SequenceReset / '
         'GapFill with NewSeqNo at or above it makes it NewSeqNo and returns a pending recovery to normal operation, one below it never lowers it, and a SequenceReset is never delivered. '
         'KNOWN FINDINGS (refuted, each reproduced through the real Session::process): the epilogue of process() also advances the expected number for a WITHHELD message and for an ACCEPTED '
         'DUPLICATE, so after a gap that the counterparty answers by replaying two or more application messages the next new message is "too low" and the session is terminated '
         '(Logon 1, order 2, order 5, replay 3 4 5 with PossDup, order 6), and one conformant PossDup duplicate in normal operation does the same. Recovery by GapFill alone works. '
         'NOT decided: the sending side (C18), the whole exchange as a history.',
    note='per-call contracts of the gate, process() and handle_sequence_reset; the conformant-counterparty history lemma is not built',
    trusted_base=COMMON_TRUST,
    explanation='See C19.',
)

PROPS['C03'] = dict(
    units=['k_tok', 'k_dec', 'k_enc', 'k_send'], level='proof', design_ref='6/C03',
    technique='CBMC dfcc function contracts with loop contracts on MessageBase::extract_element(const char*, unsigned, char*, char*) and extract_element_fixed_width (clang AST of message.hpp), '
              'and the three tokeniser calls of MessageBase::extract_header checked against the callee contract with --replace-call-with-contract (call-site precondition obligations)',
    text='Tokeniser safety (proved, unbounded in the input length up to 8192 by loop contracts): given output buffers of input length + 1 bytes, extract_element reads only inside the input, writes only '
         'inside the two buffers, consumes at most the input and a non-zero result ends on an SOH; extract_element_fixed_width likewise with a value buffer of val_sz + 1 bytes (it may report one '
         'byte more than the input when the data runs to the very end: the separator is accounted for, not checked -- stated in the contract). Call sites: extract_header passes a 32-byte tag '
         'buffer, a 2048-byte value buffer and the caller\'s 32-byte len / mtype buffers and shows the tokeniser at most 31 bytes per field, so the callee\'s capacity preconditions hold at all '
         'three calls (they were refuted before fix b253198: stack-buffer-overflow from a 59-byte input, ASan); FIXReader::read\'s two calls are checked in C15 (fix 363a513). '
         'Encode side: Message::encode(f8String&) (from the clang AST) hands Message::encode(char**) a stack buffer of FIX8_MAX_MSG_LENGTH + HEADER_CALC_OFFSET bytes, while that function needs '
         'HEADER_CALC_OFFSET + all field bytes + 8 (K-enc proves that room sufficient and the last byte necessary): KNOWN FINDING -- nothing bounds the field values, a NewOrderSingle with a '
         '10000-byte Text overflows the stack (ASan); Session::send_process has the same buffer and the same KNOWN FINDING (order with a 20000-byte Text through the real send_process: SIGSEGV); '
         'messages whose fields render to at most FIX8_MAX_MSG_LENGTH - 8 bytes fit in both (proved). '
         'NOT decided: the tokeniser call sites in MessageBase::decode / decode_group (2048-byte buffers against fields of up to the message length), '
         'Message::factory / decode as a whole (totality, exception types, hangs), the field encoders themselves.',
    note='the two char* tokenisers, extract_header\'s call sites, decode\'s Length/data branch (bounded) and the two fixed encode buffers are under contract; isdigit (C locale), memcpy (k-witness model), std::string data()/size() ASSUMED',
    trusted_base=COMMON_TRUST,
    explanation='The callee contract states the weakest simple capacity condition (buffers as long as the input plus terminator); each caller is then checked against it, so a fixed-size stack buffer fed '
                'by network input shows up as a failed, named precondition at that call site.',
)

PROPS['C06'] = dict(
    units=['k_tok', 'k_dec'], level='proof', design_ref='6/C06',
    technique='CBMC dfcc function + loop contract on MessageBase::extract_element_fixed_width (clang AST of message.hpp) with a k-witness memcpy model',
    text='Decoder side of the fixed-width extraction only: for every input, tag length and declared data length (all up to 8192) a non-zero result is exactly tag + 1 + data length + 1, the data '
         'lies inside the input, and every data byte is copied to the value buffer unchanged WHATEVER it is (SOH, "=", anything; ghost witness index), followed by a terminator. '
         'NOT decided: the ft_Length branch of MessageBase::decode that calls it (the lasttag+1 / data-type checks, the 2047-byte limit), decode_group (which has no such branch: data '
         'inside groups), the Field<f8String> constructor from const char* (stops at an embedded NUL), and the encode side.',
    note='one function only; memcpy is an ASSUMED k-witness model; isdigit C locale',
    trusted_base=COMMON_TRUST,
    explanation='See C03.',
)

PROPS['C22'] = dict(
    units=['k_hb'], level='proof', design_ref='6/C22',
    technique='CBMC harness contracts on Session::heartbeat_service (one supervision tick under a virtual clock), handle_test_request, handle_heartbeat, do_state_change and '
              'Connection::set_hb_interval / get_hb_interval20pc extracted from the clang AST; sending, message generation, the clock and the gate are assumed models with a ghost send log',
    text='Per supervision tick (proved-modular, for every heartbeat interval 1..86400 s, every pair of last-sent / last-received instants, both clock readings, every session state): a Heartbeat '
         'without TestReqID is sent exactly when at least H whole seconds have passed since the last send; when more than H + H/5 whole seconds have passed since the last receive, a TestRequest is '
         'sent and the state becomes test_request_sent, or -- if a TestRequest is already outstanding -- a Logout is sent (not incrementing the sequence number), the session is stopped and the '
         'state becomes session_terminated; nothing else is sent, the state is otherwise unchanged, nothing happens when shut down or not connected; the margin the setter stores is H + H/5. '
         'An inbound TestRequest is answered by exactly one Heartbeat carrying the same TestReqID; an inbound Heartbeat while a TestRequest is outstanding returns the state to continuous. '
         'Because the per-tick contract is universally quantified over the clock readings and the timestamps, it covers every timeline of send/receive instants and ticks. NOT decided: that ticks '
         'occur (timer thread, C31), update_received/update_sent bookkeeping in send_process and the reader, generate_heartbeat attaching the TestReqID field (assumed).',
    note='whole-second granularity of the comparisons is made explicit in the specification; generate_* and send are ASSUMED models; the gate enforce is K-seq',
    trusted_base=COMMON_TRUST,
    explanation='The tick is loop-free; the two clock reads are two ghost instants, so "all timelines" reduces to all values of four timestamps and the state.',
)

PROPS['C18'] = dict(
    units=['k_rtx', 'k_send', 'k_mper', 'k_fper'], level='proof', design_ref='6/C18',
    technique='CBMC harness contracts on Session::retrans_callback (per stored record and for the completion call) and Session::handle_resend_request extracted from the clang AST of '
              'runtime/session.cpp, with a ghost coverage counter (first number of the requested range not yet answered) and a ghost send log; the persister\'s range protocol, message '
              'generation and send() are assumed models',
    text='Per callback (proved-modular, for every request range, coverage state, record number and next outbound number): for a stored record s at or after the first unanswered number cov, a '
         'GapFill is sent exactly when s > cov, with MsgSeqNum cov (the first number of the gap -- the obligation that failed before fix eeab569) and NewSeqNo s, then the stored message s is sent '
         'as a replay, coverage advances to s + 1, and the session\'s own numbering is untouched; on completion one GapFill with MsgSeqNum cov is sent whose NewSeqNo is above cov and not below '
         'the number the session would use next, the next outbound number becomes that NewSeqNo and the state returns to continuous. The request handler ignores a request while a replay is in '
         'progress, rejects Begin > End (End != 0) or Begin = 0, hands a valid range unchanged to the persister, and without a persister gap-fills the whole range. By induction over the '
         'persister\'s callback protocol (ASSUMED: ascending stored records of the range, then completion) every number of the range is answered exactly once, in ascending order. '
         'A replayed message (one that reaches send_process already carrying MsgSeqNum) keeps that number and goes out with PossDupFlag=Y and OrigSendingTime equal to its original SendingTime (k_send/send_possdup, proved-modular). '
         'The configuration a session has when the application sets nothing (LoginParameters\' defaulted constructor with its default member initialisers, from the clang AST): retransmissions are not renumbered (the member was left uninitialised before fix cf74be5), sequence numbers are not reset, checksums are verified, decoding is strict. '
         'That protocol is proved for the memory persister (k_mper/range: MemoryPersister::get(from, to, ..) hands over exactly the stored records of the range, ascending, then signals completion once). '
         'and for the file persister (k_fper/range, each record read from the region its index entry names). NOT decided: the bytes of the replayed body.',
    note='persister range protocol, generate_sequence_reset, Message::factory and send are ASSUMED models; numbers below 2^31 in the request handler (it computes in int)',
    trusted_base=COMMON_TRUST,
    explanation='The whole-range statement is an induction over the callback sequence; the inductive step is the per-callback contract over the ghost coverage counter.',
)

PROPS['C16'] = dict(
    units=['k_send', 'k_proc'], level='proof', design_ref='12/C16',
    technique='CBMC harness contracts on Session::send_process, Session::update_persist_seqnums and Session::recover_seqnums extracted from the clang AST of runtime/session.cpp; the message header '
              'is a ghost record of the six fields send_process touches, Message::encode / Connection::send / Persister::put and the batch buffer are assumed models that log what they were given',
    text='Per call of send_process (proved-modular, for every header state, custom number, no_increment / end_of_batch flag, admin or application message, persister present or not, write success '
         'or failure, and both numbering modes): a message that arrives without MsgSeqNum (or any message under always_seqnum_assign) goes on the wire with the next outbound number, or the custom '
         'number; a message that already carries one keeps it; SendingTime is now; the next outbound number advances by exactly one for a new message that is not custom-numbered, no_increment or a '
         'SequenceReset, and is untouched otherwise (also under always_seqnum_assign -- the obligation that failed before fix f3341f0); the expected inbound number is untouched; the control record '
         'is written exactly once per new message and equals the session numbers after the send, for counted and for uncounted sends (the latter failed before fix 5ef9bf2); a failed write consumes '
         'no number. update_persist_seqnums writes exactly the session numbers; recover_seqnums continues from the control record. "Consecutive, no two new messages share a number" follows by '
         'induction over calls from the per-call contract. After every inbound message that process() handles without an exception the control record is written once and equals the session '
         'numbers, and the outbound number is untouched (K-proc). NOT decided: Session::start / handle_logon number selection, concurrent senders (C25), the pipelined writer thread.',
    note='header, encode, connection, persister and batch-buffer models are ASSUMED; sequential single call',
    trusted_base=COMMON_TRUST,
    explanation='The whole-history statement is an induction over send_process calls whose inductive step is the per-call contract; histories with restarts additionally use recover_seqnums\' contract.',
)
PROPS['C17'] = dict(
    units=['k_send'], level='proof', design_ref='12/C17',
    technique='CBMC harness contract on Session::send_process extracted from the clang AST of runtime/session.cpp, with a ghost log of Persister::put (number, pointer, whether the pointer still '
              'addresses live bytes of this message) and of Message::encode (where the wire image of this message lives)',
    text='Per call (proved-modular, all header states / flags / batch states): exactly the new application messages are stored (administrative messages, retransmissions and failed writes are not), '
         'under the number that went on the wire, and the stored text is read from the encoded bytes of this message -- also for the last message of a batch, whose pointer is redirected to the '
         'batch buffer that is cleared after the write (the obligation that failed before fix 80b1e01: the persister stored an empty string). KNOWN FINDING: an application message sent under a '
         'custom number is stored under the session\'s next outbound number, not the custom number on the wire. NOT decided: that the persister keeps the bytes (C26/C27), the bytes of encode (C01).',
    note='header, encode, connection, persister and batch-buffer models are ASSUMED; "same bytes" is pointer identity with the encoded image plus liveness of the buffer, not a byte comparison',
    trusted_base=COMMON_TRUST,
    explanation='Single-call property; the statement over histories is the per-call contract applied to each send.',
)

PROPS['C14'] = dict(
    units=['k_ghash'], level='proof', design_ref='12/C14',
    technique='CBMC assertions on the schema compiler\'s group_hash (compiler/f8c.cpp) and rothash (include/fix8/f8utils.hpp) extracted from the clang AST: the structural key under which f8c shares '
              'generated group metadata must be injective on the definitions of one count field; the refuting field numbers are replayed through the real rothash and the real f8c on a generated schema',
    text='f8c files every definition of a group count field under group_hash(definition) and emits ONE set of traits per key, so two definitions share metadata exactly when their keys are equal. '
         'Proved (all inputs): rothash is the documented mixing function and is injective in its value argument for every accumulator; definitions with one member field never collide. '
         'KNOWN FINDING (refuted, counterexample replayed on the real compiler): two-member definitions with different member fields can have equal keys -- the mixing function is linear over GF(2), '
         'key(a,b) = g(a) ^ b ^ const -- e.g. members {200,1024} and {201,9249}: the real f8c then reports "1 variants, 2 common" and the generated code uses the first definition\'s trait table for '
         'the second message\'s group. NOT decided: the rest of the compiler (load_messages / find_group / trait emission), nested-group shapes beyond the fixed ones, definitions that differ only in '
         'field order or required flags (they share a key by construction and are outside the property\'s wording).',
    note='shape-bounded (one / two member fields, no nested groups), field numbers symbolic; iteration order of the presence set is an ASSUMED model',
    trusted_base=COMMON_TRUST,
    explanation='Injectivity of the sharing key is the invariant the compiler\'s CommonGroups map relies on; a refutation with concrete field numbers is a schema that breaks the property.',
)

PROPS['C04'] = dict(
    units=['k_dec', 'k_fac', 'k_dgrp'], level='model_checking', design_ref='13/C04',
    technique='CBMC assertions on MessageBase::decode (clang AST of runtime/message.cpp) over a ghost token sequence and presence set, the loop unwound for the stated bound; Message::decode and '
              'Message::factory (real bodies) composed with that per-part behaviour as a model; refutations replayed through the real Message::factory on the generated FIX42 test classes',
    text='Strict mode, one message part (header / body / trailer), BOUNDED to texts of at most 3 tokens and parts of at most 3 field traits (no groups, no framework-maintained '
         'fields): decode stops on a token boundary; every token before the returned offset was legal for the part and became exactly one field with its own tag, built from its own value text, '
         'at consecutive positions; a repeated tag raises; it stops only at a tag that is not legal for the part; no mandatory field is missing on return; nothing is kept as unknown. '
         'A Length field followed by its data field (separate harness, same bound): the accepted data field is built from the counted bytes of its own token (a data value may contain the '
         'separator byte, so reading it up to the next separator would give it a value different from its text) and is retained under its own tag in input order; a refutation is replayed '
         'through the real factory on a Logon whose RawData contains the separator. '
         'Message::factory / Message::decode (proved-modular over that per-part behaviour): parts are decoded header, body, trailer, each from where the previous one stopped, the trailer up to the '
         'checksum field; unframed text, an unknown message type, a text not ending in the checksum field or a checksum mismatch are not accepted. '
         'KNOWN FINDING (refuted, replayed on the real code): factory drops the length decode() consumed, so a message is accepted although tokens remain -- everything from the first tag that is not '
         'legal where it stands (undefined tag, misplaced field) up to the checksum is silently discarded (NewOrderSingle with 29999=zzz after the mandatory fields: accepted, 44= and 58= lost). '
         'Repeating groups (K-dgrp: MessageBase::decode_group with add_field and the FieldTraits helpers from the clang AST; BOUNDED: 2 tokens, definitions of at most 3 members, no nesting): '
         'every element handed to the group begins with the group\'s first field, every consumed token is a member and becomes exactly one field of exactly one element with its own tag and value, '
         'the first non-member ends the group unconsumed, an undefined group is refused. '
         'NOT decided: nested groups, that the number of elements equals the count field (the code never compares them), automatic fields repeated after extract_header, numeric text variants, the bound itself.',
    note='per-part obligations are a bounded stand-in (3 tokens, 3 traits), never counted as proved; the factory composition is modular over an ASSUMED per-part model',
    trusted_base=COMMON_TRUST,
    explanation='Acceptance of a whole message is the conjunction of the three per-part decodes and the final check that nothing is left; the last conjunct is what the code omits.',
)
PROPS['C05'] = dict(
    units=['k_dec', 'k_menc'], level='model_checking', design_ref='13/C05',
    technique='CBMC assertions on MessageBase::decode in permissive mode (clang AST of runtime/message.cpp) over a ghost token sequence, loop unwound for the stated bound; the refutation replayed '
              'through the real Message::factory / Message::encode on the generated FIX42 test classes',
    text='Permissive mode, one message part, BOUNDED (3 tokens, 3 field traits): the returned offset lies inside the text; no known field before the returned offset is lost. '
         'KNOWN FINDING (refuted, replayed on the real code): a part that rewinds to its first unknown token -- which every header does, since the body\'s fields are unknown to it -- keeps the whole '
         'run in its unknown buffer, so the text after the offset it hands on is BOTH kept by this part and decoded by the next: re-encoding a permissively decoded message emits the body and the '
         'checksum field again (a conforming 139-byte NewOrderSingle re-encodes to 218 bytes with three 10= fields). A repair has to decide which part owns a trailing unknown run (the last part must '
         'keep it): recorded, not patched. NOT decided: unknown fields inside groups, byte-for-byte re-emission of the retained unknown text (std::string append is a logging model), the bound itself.',
    note='bounded stand-in (3 tokens, 3 traits), never counted as proved',
    trusted_base=COMMON_TRUST,
    explanation='Pass-through needs each unknown token to be owned by exactly one part; the obligation states that as "what a part keeps lies before what it hands on".',
)

PROPS['C27'] = dict(
    units=['k_fper'], level='proof', design_ref='13/C27',
    technique='CBMC harness contracts on FilePersister::put(seqnum, text) and put(sender, target) (clang AST of runtime/filepersist.cpp) over a ghost model of the index and data files in which every '
              'system-call model asserts the crash invariant of the disk state after applying its effect -- a crash point is "after some completed system call"',
    text='Crash invariant: every index record on disk names bytes that are on disk (so a reopen never maps a number to bytes that were not stored for it and a later append cannot slide under a '
         'dangling record). Proved-modular for every store state, text size and system-call failure pattern: it holds after EVERY system call inside put(seqnum, text) (failed before fix 315f6e2, '
         'which wrote the index record before the data: replayed as reopen + put(3) making get(2) return the bytes of 3); the index record is appended (no record overwritten) and names the '
         'region that was already written; the text is appended to the data file. '
         'KNOWN FINDING (refuted, replayed on the real code): put(sender, target) writes slot 0 of the index file although slot 0 holds a message record when a message was stored before any '
         'control record -- put(1,..) put(2,..) put(10,20), reopen: get(1) fails. '
         'Reopen (the index-replay branch of FilePersister::initialise, extracted as a nested block, loop contract over the records of the index file): every record on disk is in the rebuilt '
         'in-memory index with its offset and size -- when a number occurs twice the FIRST record wins -- no number appears without a record, nothing is written. With the crash invariant this '
         'gives: after a crash at any system-call boundary of a put and a reopen, every number maps to bytes that were stored for it. '
         'NOT decided: torn writes inside one write call, fsync / ordering below the system-call interface, the purge / rotation path (C29), open() failures beyond "initialise reports failure".',
    note='crash points are system-call boundaries of one operation; torn writes are not modelled; lseek / read / write / open are ASSUMED POSIX models',
    trusted_base=COMMON_TRUST,
    explanation='A crash leaves the disk in the state after some completed system call, so an invariant asserted inside every system-call model is checked at every crash point of the operation.',
)

PROPS['C11'] = dict(
    units=['k_copy'], level='model_checking', design_ref='13/C11',
    technique='CBMC assertions on MessageBase::copy_legal and move_legal with the inline helpers they run through (add_field x2, get_field, clear_positions, FieldTraits::has x2 / get x2 / getPos / set / '
              'get_presence) extracted from the clang AST, over parts of bounded size (loops unwound); the refutation replayed through the real Message::factory / clone / encode',
    text='BOUNDED to message parts of at most 3 field traits without repeating groups, empty target, force = false (what clone() uses). Copy: every field of the source that is present and legal for the '
         'target arrives exactly once as an equal copy in a new object, is positioned and marked present; absent or illegal fields are not copied; the count returned is the number copied; the source is '
         'unchanged. Move: the very same field objects arrive once, the source no longer refers to them and its positions are cleared, nothing is copied. '
         'KNOWN FINDING (refuted, replayed on the real code): the copy does not keep the relative order of the fields -- add_field places every field at its SCHEMA position -- so clone() of a decoded '
         'message whose body fields arrived in another order re-encodes to different bytes (same fields, same values, same checksum; 55,11,54,21,40.. becomes 11,21,55,54,..). Messages built through '
         'the API are in schema order already and clone byte-identically. Groups (one group with one element): copy creates one new element in the TARGET\'s group per source element and copies the source element into it, the count field is copied too; '
         'move hands the source\'s group object to the target (replacing its empty one or adding it) and the source forgets it. Message::clone (proved-modular over copy_legal): a new message '
         'of the same type is created and body, header and trailer are each copied into the matching part, never with force. NOT decided: nested groups beyond one level / one element, force = true, the bound.',
    note='bounded stand-in (3 traits per part, no groups), never counted as proved; field / position maps are small insertion logs; BaseField::copy() is an ASSUMED model',
    trusted_base=COMMON_TRUST,
    explanation='Byte identity of a clone needs the same fields, the same values and the same order; the first two are per-field obligations, the third is the order obligation that fails.',
)

PROPS['C25'] = dict(
    units=['k_wlock'], level='proof', design_ref='13/C25',
    technique='CBMC harness contracts on FIXWriter::write(Message*, bool), write(Message&) and write_batch (clang AST of include/fix8/connection.hpp) with the scoped spin-lock guard lowered to ghost '
              '"acquired until the function returns" state: the LOCK DISCIPLINE the writer relies on; interleavings themselves are not explored',
    text='Lock discipline (proved-modular, every process model, destroy flag, send outcome; write_batch for batches of two): in the threaded and coroutine models every call of Session::send_process '
         'made by the writer happens while the writer\'s own spin lock is held, a whole batch is sent under ONE hold of it, in order, with exactly the last message marked end-of-batch, and each '
         'message is sent exactly once; in the pipelined model these functions never call send_process -- they hand every message to the queue, whose single consumer (FIXWriter::execute) is the '
         'only caller -- and the direct write(Message&) is refused. Under the ASSUMED correctness of f8_spin_lock (mutual exclusion) and of the queue (C30) the calls of send_process are therefore '
         'serialised for any number of sending threads, and C16 / C17\'s per-call contracts then give unique consecutive numbers and faithful stores. '
         'NOT decided: the interleavings themselves, data races on other session state (e.g. the timestamps read by the supervision timer), the spin lock and the queue, FIXWriter::execute.',
    note='sequential proof of a locking discipline, not an exploration of schedules; "no data race occurs" is NOT decided',
    trusted_base=COMMON_TRUST,
    explanation='Mutual exclusion of the critical section reduces the concurrent property to the sequential per-call contract of send_process; what has to be shown about the code is that every path '
                'into the critical section takes the lock, which is a per-function postcondition over ghost lock state.',
)

PROPS['C01'] = dict(
    units=['k_menc', 'k_dec'], level='model_checking', design_ref='13/C01',
    technique='CBMC assertions on MessageBase::encode(char*), BaseField::encode(char*) and MessageBase::decode (clang AST of runtime/message.cpp / include/fix8/field.hpp) over parts of bounded size '
              '(loops unwound); the leaf value codecs are the subject of C08 / C09',
    text='The STRUCTURAL half of the round trip, BOUNDED to parts of at most 3 fields / 3 tokens without repeating groups. Encode: the unsuppressed fields of a part are rendered in position order, '
         'back to back, each as <decimal tag> = <value bytes> SOH, suppressed ones are skipped, the unknown text follows, the returned length is the number of bytes written. Decode (strict, K-dec): '
         'every token becomes exactly one field with its own tag, built from its own value text, at consecutive positions in arrival order. Hence decode(encode(part)) has the part\'s fields in the '
         'part\'s order and re-encoding renders the same tokens, PROVIDED each field\'s value codec is a round trip: proved for integers (C08) and timestamps (C09), '
         'NOT decided for floats (modp_dtoa / fast_atof), strings, characters, booleans and the other Field<T> specialisations. '
         'NOT decided: repeating groups of any depth, Length/data pairs (C06 covers their decode branch), Message-level composition of header / body / trailer on the decode side beyond C04, '
         'the bound itself, "all message types of the compiled schemas" (the proof is about the generic engine, not about each generated class).',
    note='bounded stand-in for the structure only; never counted as proved; value round trips are delegated to C08 / C09 and are partly undecided',
    trusted_base=COMMON_TRUST,
    explanation='A message round trip factors into the order-and-framing behaviour of the generic encode / decode loops and the per-type value codecs; this check covers the former.',
)

# ---------------------------------------------------------------- native replayers
import os
import re
from vlib import replay as _rp


def _replay_k_chk(oid, inputs, trace, wd):
    inputs = inputs or {}
    exe = _rp.build_native(os.path.join(_rp.VERIF, 'replay', 'k_chk.cpp'), os.path.join(wd, 'replay_k_chk'))
    out = dict(steps=[])
    sz, off, ln = (_rp.num(inputs.get(k, '')) for k in ('sz', 'offset', 'len'))
    if None not in (sz, off, ln) and sz <= (1 << 24):
        rc, o = _rp.run_native(exe, [sz, off, ln])
        out['steps'].append(dict(kind='trace-inputs', args=[sz, off, ln], rc=rc, output=o[-1500:]))
        if rc != 0:
            out['reproduced'] = True
            return out
    rc, o = _rp.run_native(exe, ['search'])
    out['steps'].append(dict(kind='native contract-checking search sz<=600', rc=rc, output=o[-1500:]))
    out['reproduced'] = rc != 0
    return out


replayers['k_chk'] = _replay_k_chk


def _replay_k_int(oid, inputs, trace, wd):
    exe = _rp.build_native(os.path.join(_rp.VERIF, 'replay', 'k_int.cpp'), os.path.join(wd, 'replay_k_int'))
    out = dict(steps=[])
    for key, mode in (('value', 'uone' if 'uint' in oid else 'one'), ('x', 'uone' if 'uint' in oid else 'one')):
        v = _rp.num(inputs.get(key, ''))
        if v is not None:
            rc, o = _rp.run_native(exe, [mode, v])
            out['steps'].append(dict(kind='trace-inputs', args=[mode, v], rc=rc, output=o[-1500:]))
            if rc != 0:
                out['reproduced'] = True
                return out
    rc, o = _rp.run_native(exe, ['search'])
    out['steps'].append(dict(kind='native contract-checking search (boundaries + stride 9973 over int and unsigned)', rc=rc, output=o[-1500:]))
    out['reproduced'] = rc != 0
    return out


def _replay_k_date(oid, inputs, trace, wd):
    exe = _rp.build_native(os.path.join(_rp.VERIF, 'replay', 'k_date.cpp'), os.path.join(wd, 'replay_k_date'))
    out = dict(steps=[])
    v = _rp.num(inputs.get('ms', ''))
    if v is None:
        # harnesses over calendar fields: rebuild the instant from the trace's field tuple
        f = {k: _rp.num(inputs.get('f.' + k, '') or inputs.get('f0.' + k, '')) for k in ('y', 'mo', 'd', 'h', 'mi', 's', 'ms')}
        if None not in (f['y'], f['mo'], f['d']):
            import calendar
            try:
                v = calendar.timegm((f['y'], f['mo'], f['d'], f['h'] or 0, f['mi'] or 0, f['s'] or 0)) * 1000 + (f['ms'] or 0)
            except Exception:
                v = None
    if v is not None and 0 <= v < 4102444800000:
        rc, o = _rp.run_native(exe, ['one', v])
        out['steps'].append(dict(kind='trace-inputs', args=['one', v], rc=rc, output=o[-1500:]))
        if rc != 0:
            out['reproduced'] = True
            return out
    rc, o = _rp.run_native(exe, ['search'])
    out['steps'].append(dict(kind='native contract-checking search (first/last/mid ms of every day 1970..2099 + prime stride)', rc=rc, output=o[-1500:]))
    out['reproduced'] = rc != 0
    return out




def _replay_k_realm(oid, inputs, trace, wd):
    exe = _rp.build_native(os.path.join(_rp.VERIF, 'replay', 'k_realm.cpp'), os.path.join(wd, 'replay_k_realm'))
    which = ('field' if '.field.' in oid or 'h_field_' in oid else 'range_member' if '.range.' in oid and 'idx_member' in oid else 'range_valid' if 'range_inclusion' in oid
             else 'range_first' if '.range.' in oid else 'set')
    rc, o = _rp.run_native(exe, ['search', which])
    return dict(steps=[dict(kind='native contract-checking search: every strictly sorted table over an 8-letter alphabet x every probe value (%s realms, int and char)' % which,
                            rc=rc, output=o[-1500:])], reproduced=rc != 0)


def _replay_k_tab(oid, inputs, trace, wd):
    exe = _rp.build_native(os.path.join(_rp.VERIF, 'replay', 'k_tab.cpp'), os.path.join(wd, 'replay_k_tab'))
    which = 'gt' if '.gt_' in oid or 'gt_' in oid.split(':')[0] else 'findbe' if 'find_be' in oid or 'metacntx' in oid else 'ftha' if 'ftha' in oid else 'pset' if 'pset' in oid or 'ps_' in oid else 'all'
    rc, o = _rp.run_native(exe, ['search', which])
    return dict(steps=[dict(kind='native contract-checking search (%s): small-alphabet exhaustive tables / operation sequences against a reference map, ASan+UBSan' % which,
                            rc=rc, output=o[-1500:])], reproduced=rc != 0)


def _replay_k_rot(oid, inputs, trace, wd):
    R = _rp.astdump.REPO
    exe = _rp.build_native(os.path.join(_rp.VERIF, 'replay', 'k_rot.cpp'), os.path.join(wd, 'replay_k_rot'),
                           extra=['-D_GLIBCXX_ASSERTIONS', R + '/runtime/logger.cpp', R + '/runtime/filepersist.cpp', R + '/runtime/persist.cpp', R + '/runtime/f8utils.cpp', '-lz'],
                           sanitize=True, timeout=1200)
    which = 'persister' if 'purge' in oid or 'filepersister' in oid else 'logger' if 'rotate' in oid else 'all'
    rc, o = _rp.run_native(exe, ['search', which, os.path.join(wd, 'rotscratch')], timeout=900)
    return dict(steps=[dict(kind='native contract-checking search (%s): real rotate()/initialise(purge) on a scratch directory, counts {0..9,1023,1024,1025,1100} x pre-existing generation sets, '
                                 'ASan + _GLIBCXX_ASSERTIONS' % which, rc=rc, output=o[-1500:])], reproduced=rc != 0)


def _replay_k_sid(oid, inputs, trace, wd):
    R = _rp.astdump.REPO
    lib = R + '/runtime/.libs' if os.path.exists(R + '/runtime/.libs/libfix8.so') else '/repo/runtime/.libs'
    # SessionID::make_id (compiled, not under test here) comes from the repository's built libfix8.so; the comparisons are header-inline and compiled from the working tree
    exe = _rp.build_native(os.path.join(_rp.VERIF, 'replay', 'k_sid.cpp'), os.path.join(wd, 'replay_k_sid'), extra=['-L' + lib, '-lfix8', '-Wl,-rpath,' + lib])
    rc, o = _rp.run_native(exe, ['search'])
    return dict(steps=[dict(kind='native contract-checking search: every pair of identities over 3 values per CompID (incl. values containing "->"), both BeginStrings', rc=rc, output=o[-1500:])],
                reproduced=rc != 0)


def _replay_k_sched(oid, inputs, trace, wd):
    exe = _rp.build_native(os.path.join(_rp.VERIF, 'replay', 'k_sched.cpp'), os.path.join(wd, 'replay_k_sched'))
    which = ('daily' if 'daily' in oid else 'same_day' if 'same_day' in oid else 'wrap' if 'wrap' in oid else 'forward_late_end' if 'last_minute' in oid else 'forward')
    rc, o = _rp.run_native(exe, ['search', which])
    return dict(steps=[dict(kind='native history under a virtual clock (%s windows): checked every 30 s over three weeks, 6 utc offsets, against the window specification' % which,
                            rc=rc, output=o[-1500:])], reproduced=rc == 1)


def _replay_k_log(oid, inputs, trace, wd):
    R = _rp.astdump.REPO
    if 'consumer' in oid:
        exe = _rp.build_native(os.path.join(_rp.VERIF, 'replay', 'k_logstop.cpp'), os.path.join(wd, 'replay_k_logstop'), extra=[R + '/runtime/logger.cpp', R + '/runtime/f8utils.cpp', '-lz'], sanitize=False, timeout=1200)
        sd = os.path.join(wd, 'logstopscratch'); os.makedirs(sd, exist_ok=True)
        rc, o = _rp.run_native(exe, [20000, sd], timeout=600)
        return dict(steps=[dict(kind='native: 20000 lines submitted to a real FileLogger, then stop(); lines in the file counted (5 rounds)', rc=rc, output=o[-1200:])], reproduced=rc == 1)
    if '.flush.' in oid or '.sequence.' in oid or 'logger_flush' in oid or 'logger_number_line' in oid:
        which = 'flush' if ('flush' in oid) else 'sequence'
        exe = _rp.build_native(os.path.join(_rp.VERIF, 'replay', 'k_logseq.cpp'), os.path.join(wd, 'replay_k_logseq'), extra=[R + '/runtime/logger.cpp', R + '/runtime/f8utils.cpp', '-lz'], sanitize=False, timeout=1200)
        sd = os.path.join(wd, 'logseqscratch'); os.makedirs(sd, exist_ok=True)
        rc, o = _rp.run_native(exe, [which, sd], timeout=300)
        return dict(steps=[dict(kind='native: 20 lines (val alternating 0/1) submitted to a real FileLogger numbering its lines%s, stopped%s; numbers and texts in the file compared with 1..20 / the submitted texts' % ((', buffering', ', flushed twice') if which == 'flush' else ('', '')), rc=rc, output=o[-1200:])], reproduced=rc == 1)
    exe = _rp.build_native(os.path.join(_rp.VERIF, 'replay', 'k_log.cpp'), os.path.join(wd, 'replay_k_log'), extra=[R + '/runtime/logger.cpp', R + '/runtime/f8utils.cpp', '-lz'], timeout=1200)
    rc, o = _rp.run_native(exe, ['search', os.path.join(wd, 'logscratch')], timeout=600)
    return dict(steps=[dict(kind='native contract-checking search: real FileLogger, every level mask x every level, return values and file content', rc=rc, output=o[-1500:])], reproduced=rc == 1)


def _replay_k_enc(oid, inputs, trace, wd):
    R = _rp.astdump.REPO
    if 'encode_to_string' in oid:
        exe = _rp.build_native(os.path.join(_rp.VERIF, 'replay', 'k_encbig.cpp'), os.path.join(wd, 'replay_k_encbig'),
                               extra=[R + '/runtime/message.cpp', '-I/repo/utests', '-L/repo/utests/.libs', '-lutest', '-L/repo/runtime/.libs', '-lfix8',
                                      '-Wl,-rpath,/repo/utests/.libs', '-Wl,-rpath,/repo/runtime/.libs'], timeout=900)
        rc, o = _rp.run_native(exe, [10000])
        asan = 'AddressSanitizer' in o
        return dict(steps=[dict(kind='native: NewOrderSingle with a 10000-byte Text encoded through Message::encode(f8String&) (ASan)', rc=rc, asan_report=asan, output=o[-1200:])], reproduced=asan or rc != 0)
    # generated FIX42 test classes and the rest of the runtime come from the repository's built libraries; Message::encode itself is compiled from the working tree
    exe = _rp.build_native(os.path.join(_rp.VERIF, 'replay', 'k_enc.cpp'), os.path.join(wd, 'replay_k_enc'),
                           extra=[R + '/runtime/message.cpp', '-I/repo/utests', '-L/repo/utests/.libs', '-lutest', '-L/repo/runtime/.libs', '-lfix8',
                                  '-Wl,-rpath,/repo/utests/.libs', '-Wl,-rpath,/repo/runtime/.libs'], timeout=900)
    rc, o = _rp.run_native(exe, ['search'])
    return dict(steps=[dict(kind='native contract-checking search: NewOrderSingle with Text lengths 1..1200, with and without a signed trailer; independent wire-format checker', rc=rc, output=o[-1500:])],
                reproduced=rc == 1)


def _replay_k_mper(oid, inputs, trace, wd):
    R = _rp.astdump.REPO
    if '.range.' in oid:      # the range retrieval is exercised through the real Session::handle_resend_request (three store shapes, bounded and open ranges)
        return _replay_k_seq('C18.' + oid, inputs, trace, wd)
    exe = _rp.build_native(os.path.join(_rp.VERIF, 'replay', 'k_mper.cpp'), os.path.join(wd, 'replay_k_mper'),
                           extra=[R + '/runtime/persist.cpp', R + '/runtime/logger.cpp', R + '/runtime/f8utils.cpp', '-lz'], timeout=1200)
    os.makedirs(os.path.join(wd, 'mperscratch'), exist_ok=True)
    import subprocess
    env = dict(os.environ, ASAN_OPTIONS='detect_leaks=0')
    p = subprocess.run([exe, 'search'], cwd=os.path.join(wd, 'mperscratch'), stdout=subprocess.PIPE, stderr=subprocess.STDOUT, text=True, timeout=900, env=env)
    return dict(steps=[dict(kind='native contract-checking search: every sequence of up to 5 store operations against a reference map', rc=p.returncode, output=p.stdout[-1500:])],
                reproduced=p.returncode == 1)


def _replay_k_seq(oid, inputs, trace, wd):
    R = _rp.astdump.REPO
    if 'default_parameters' in oid:
        lib = R + '/runtime/.libs' if os.path.exists(R + '/runtime/.libs/libfix8.so') else '/repo/runtime/.libs'
        exe = _rp.build_native(os.path.join(_rp.VERIF, 'replay', 'k_lp.cpp'), os.path.join(wd, 'replay_k_lp'), extra=['-L' + lib, '-lfix8', '-Wl,-rpath,' + lib], sanitize=False)
        rc, o = _rp.run_native(exe, [])
        return dict(steps=[dict(kind='native: LoginParameters default-constructed (placement new) over storage filled with 0xff', rc=rc, output=o[-600:])], reproduced=rc == 1)
    # the real Session::process / enforce / sequence_check (session.cpp compiled from the working tree with the utests' mock connection); generated classes and the rest of the runtime from
    # the repository's built libraries; no sanitizer (session.cpp's statics exist twice, in the program and in libfix8)
    exe = _rp.build_native(os.path.join(_rp.VERIF, 'replay', 'k_seq.cpp'), os.path.join(wd, 'replay_k_seq'), sanitize=False, timeout=900,
                           extra=['/repo/utests/mockConnection.cpp', '-I/repo/utests', '-L/repo/utests/.libs', '-lutest', '-L/repo/runtime/.libs', '-lfix8',
                                  '-Wl,-rpath,/repo/utests/.libs', '-Wl,-rpath,/repo/runtime/.libs'])
    which = 'send_big' if 'C03.send' in oid else 'recovery' if 'does_not_advance' in oid else 'too_low' if 'too_low' in oid else 'seqnum_text' if 'C19.seqnum' in oid else 'send_custom' if 'custom_number_is_stored' in oid else 'send' if re.search(r'C1[67]\.|possdup_and_original', oid) else 'second_gap' if 'resend_pending' in oid else 'logon_gap' if 'logon_with_a_higher' in oid else 'tick' if 'C22' in oid else 'resend' if 'C18' in oid else 'gate'
    os.makedirs(os.path.join(wd, 'seqscratch'), exist_ok=True)
    import subprocess
    p = subprocess.run([exe, 'search', which], cwd=os.path.join(wd, 'seqscratch'), stdout=subprocess.PIPE, stderr=subprocess.STDOUT, text=True, timeout=300)
    return dict(steps=[dict(kind='native session history (%s) through the real Session::process / send_process with the utests mock connection' % which, rc=p.returncode,
                            killed_by_signal=(-p.returncode if p.returncode < 0 else None), output=p.stdout[-1500:])],
                reproduced=p.returncode == 1 or p.returncode < 0)


def _replay_k_tok(oid, inputs, trace, wd):
    R = _rp.astdump.REPO
    exe = _rp.build_native(os.path.join(_rp.VERIF, 'replay', 'k_tok.cpp'), os.path.join(wd, 'replay_k_tok'),
                           extra=[R + '/runtime/message.cpp', '-L/repo/runtime/.libs', '-lfix8', '-Wl,-rpath,/repo/runtime/.libs'], timeout=900)
    which = 'header_tag' if 'tag_capacity' in oid else 'header_val' if 'val_capacity' in oid else 'tok'
    rc, o = _rp.run_native(exe, [which])
    asan = 'AddressSanitizer' in o
    return dict(steps=[dict(kind='native replay (%s): real extract_header / tokenisers under ASan' % which, rc=rc, asan_report=asan, output=o[-1800:])], reproduced=(rc != 0 or asan))



def _replay_k_ghash(oid, inputs, trace, wd):
    import subprocess
    R = _rp.astdump.REPO
    inputs = inputs or {}
    v = [_rp.num(inputs.get(k, '')) for k in ('a0', 'a1', 'b0', 'b1')]
    if None in v:
        v = [200, 1024, 201, 9249]          # the counterexample recorded with the known finding
    out = dict(steps=[])
    exe = _rp.build_native(os.path.join(_rp.VERIF, 'replay', 'k_ghash.cpp'), os.path.join(wd, 'replay_k_ghash'))
    rc, o = _rp.run_native(exe, v)
    out['steps'].append(dict(kind='native: real rothash folded over both member lists', rc=rc, output=o[-600:]))
    # the real schema compiler, built from the working tree's compiler/*.cpp, on a generated schema whose two messages define group 5000 with these member fields
    lib = R + '/runtime/.libs' if os.path.exists(R + '/runtime/.libs/libfix8.so') else '/repo/runtime/.libs'
    f8c = os.path.join(wd, 'f8c_wt')
    p = subprocess.run(['g++', '-std=gnu++17', '-O0', '-w', '-DHAVE_CONFIG_H', '-I' + R + '/include', '-I' + R, '-I' + R + '/compiler'] +
                       [R + '/compiler/' + f for f in ('f8c.cpp', 'f8cutils.cpp', 'f8precomp.cpp')] +
                       ['-o', f8c, '-L' + lib, '-lfix8', '-Wl,-rpath,' + lib, '-lPocoNet', '-lPocoUtil', '-lPocoFoundation', '-lpthread'],
                       stdout=subprocess.PIPE, stderr=subprocess.STDOUT, text=True, timeout=900)
    if p.returncode != 0:
        out['steps'].append(dict(kind='build of f8c from the working tree failed', rc=p.returncode, output=p.stdout[-800:]))
        out['reproduced'] = rc == 1
        return out
    gd = os.path.join(wd, 'ghash_gen')
    os.makedirs(gd, exist_ok=True)
    xml = open(os.path.join(_rp.VERIF, 'replay', 'k_ghash_schema.xml')).read()
    for k, n in zip(('@A0@', '@A1@', '@B0@', '@B1@'), v):
        xml = xml.replace(k, str(n))
    with open(os.path.join(gd, 'coll.xml'), 'w') as f:
        f.write(xml)
    p = subprocess.run([f8c, '-sV', '-p', 'coll', '-n', 'COLL', 'coll.xml'], cwd=gd, stdout=subprocess.PIPE, stderr=subprocess.STDOUT, text=True, timeout=300)
    shared = None
    try:
        tr = open(os.path.join(gd, 'coll_traits.cpp')).read()
        m = re.search(r'Second::NoThings::_traits(\[\]\s*\{(.*?)\};|\((\w+)\))', tr, re.S)
        table = m.group(2) if m and m.group(2) else None
        if m and m.group(3):
            mm = re.search(r'const FieldTrait ' + m.group(3) + r'\[\][^{]*\{(.*?)\};', tr, re.S)
            table = mm.group(1) if mm else None
        nums = sorted(int(x) for x in re.findall(r'\{\s*(\d+),', table or ''))
        shared = nums != sorted(v[2:])
        out['steps'].append(dict(kind='real f8c on the generated schema: the member table the generated code uses for the second message\'s group', rc=p.returncode,
                                 second_definition=sorted(v[2:]), table_used_by_generated_code=nums, output=p.stdout[-400:]))
    except Exception as e:
        out['steps'].append(dict(kind='f8c output could not be inspected', error=str(e)[:300], output=p.stdout[-400:]))
    out['reproduced'] = rc == 1 and bool(shared)
    return out



def _replay_k_dec(oid, inputs, trace, wd):
    R = _rp.astdump.REPO
    exe = _rp.build_native(os.path.join(_rp.VERIF, 'replay', 'k_dec.cpp'), os.path.join(wd, 'replay_k_dec'),
                           extra=[R + '/runtime/message.cpp', '-I/repo/utests', '-L/repo/utests/.libs', '-lutest', '-L/repo/runtime/.libs', '-lfix8',
                                  '-Wl,-rpath,/repo/utests/.libs', '-Wl,-rpath,/repo/runtime/.libs'], timeout=900)
    which = 'strict_unknown' if 'C04.factory' in oid else 'data_soh' if ('data_field' in oid or 'data_bytes' in oid) else 'all' if 'C04' in oid else 'permissive_plain' if 'C05' in oid else 'all'
    rc, o = _rp.run_native(exe, [which])
    return dict(steps=[dict(kind='native: real Message::factory (and Message::encode for the re-encoding) on generated FIX42 test classes, scenario ' + which, rc=rc, output=o[-1500:])], reproduced=rc == 1)



def _replay_k_fper(oid, inputs, trace, wd):
    R = _rp.astdump.REPO
    if '.range.' in oid or 'nearest' in oid:
        return _replay_k_seq('C18.' + oid, inputs, trace, wd)
    exe = _rp.build_native(os.path.join(_rp.VERIF, 'replay', 'k_fper.cpp'), os.path.join(wd, 'replay_k_fper'),
                           extra=[R + '/runtime/filepersist.cpp', R + '/runtime/persist.cpp', R + '/runtime/logger.cpp', R + '/runtime/f8utils.cpp', '-lz'], timeout=1200)
    which = 'ctrl_overwrite' if 'overwrites_a_message_record' in oid else 'dangling' if ('C27.crash' in oid or 'C27.put' in oid) else 'long_record' if 'read_buffer' in oid else 'all'
    sd = os.path.join(wd, 'fperscratch')
    os.makedirs(sd, exist_ok=True)
    rc, o = _rp.run_native(exe, [which, sd])
    return dict(steps=[dict(kind='native: real FilePersister on scratch files, scenario ' + which + ' (ASan)', rc=rc, asan_report='AddressSanitizer' in o, output=o[-1500:])], reproduced=rc != 0)



def _replay_k_read(oid, inputs, trace, wd):
    R = _rp.astdump.REPO
    if 'C15.read' not in oid and 'fixreader_read' not in oid:
        return None
    exe = _rp.build_native(os.path.join(_rp.VERIF, 'replay', 'k_read.cpp'), os.path.join(wd, 'replay_k_read'),
                           extra=['-fno-access-control', R + '/runtime/connection.cpp', '-I/repo/utests', '-L/repo/utests/.libs', '-lutest', '-L/repo/runtime/.libs', '-lfix8',
                                  '-Wl,-rpath,/repo/utests/.libs', '-Wl,-rpath,/repo/runtime/.libs'], timeout=1200)
    steps, rep = [], False
    for which in (['long_tag'] if 'tag_buffer' in oid else ['long_value'] if 'value_buffer' in oid else ['valid', 'long_tag', 'long_value']):
        rc, o = _rp.run_native(exe, [which], timeout=120)
        asan = 'AddressSanitizer' in o
        steps.append(dict(kind='native: real FIXReader::read fed through a loopback TCP connection in 7-byte chunks, scenario ' + which + ' (ASan)', rc=rc, asan_report=asan, output=o[-900:]))
        rep = rep or rc != 0 or asan
    return dict(steps=steps, reproduced=rep)



def _replay_k_copy(oid, inputs, trace, wd):
    R = _rp.astdump.REPO
    exe = _rp.build_native(os.path.join(_rp.VERIF, 'replay', 'k_copy.cpp'), os.path.join(wd, 'replay_k_copy'),
                           extra=[R + '/runtime/message.cpp', '-I/repo/utests', '-L/repo/utests/.libs', '-lutest', '-L/repo/runtime/.libs', '-lfix8',
                                  '-Wl,-rpath,/repo/utests/.libs', '-Wl,-rpath,/repo/runtime/.libs'], timeout=900)
    rc, o = _rp.run_native(exe, [])
    return dict(steps=[dict(kind='native: decode a NewOrderSingle with body fields in non-schema order, clone it, encode both (and the same for a message built through the API)', rc=rc, output=o[-1500:])],
                reproduced=rc != 0)


replayers['k_tok'] = _replay_k_tok
replayers['k_copy'] = _replay_k_copy
replayers['k_read'] = _replay_k_read
replayers['k_fper'] = _replay_k_fper
replayers['k_dec'] = _replay_k_dec
replayers['k_fac'] = _replay_k_dec
replayers['k_menc'] = _replay_k_enc
replayers['k_ghash'] = _replay_k_ghash
replayers['k_seq'] = _replay_k_seq
replayers['k_hb'] = _replay_k_seq
replayers['k_rtx'] = _replay_k_seq
replayers['k_send'] = _replay_k_seq
replayers['k_proc'] = _replay_k_seq
replayers['k_logon'] = _replay_k_seq
replayers['k_mper'] = _replay_k_mper
replayers['k_enc'] = _replay_k_enc
replayers['k_sched'] = _replay_k_sched
replayers['k_log'] = _replay_k_log
replayers['k_sid'] = _replay_k_sid
replayers['k_rot'] = _replay_k_rot
replayers['k_rot_fp'] = _replay_k_rot
replayers['k_tab'] = _replay_k_tab
replayers['k_pset'] = _replay_k_tab
replayers['k_realm'] = _replay_k_realm
replayers['k_int'] = _replay_k_int
replayers['k_date'] = _replay_k_date


# ---------------------------------------------------------------- not applicable / not (yet) claimed
NOT_APPLICABLE = {
    'C13': 'quantifies over programs (schemas) and the behaviour of generated C++: no function contract within CBMC reach expresses "the emitted program implements the schema"',
    'C21': 'whole-system history over two processes, a lossy network, file persistence and restarts: not expressible as function contracts; its per-session steps are C16-C20/C26',
    'C30': 'all interleavings of a lock-free CAS protocol in C++ templates: outside sequential contracts',
    'C32': 'istream/regex/std::map-driven recursive parser: every step is an opaque library call, no C-expressible core with a tree-equality contract',
}
for _i in range(1, 33):
    _k = 'C%02d' % _i
    NOT_APPLICABLE.setdefault(_k, 'not yet claimed: verification units for this property are not built yet (see DESIGN.md section 6 for the plan)')
