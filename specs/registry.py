"""Which units decide which property, and at what level (MANIFEST.json is generated from this)."""

PROPS = {}
replayers = {}     # unit name -> function(obligation id, trace inputs, trace text, workdir) -> dict(reproduced=bool, ...)

COMMON_TRUST = [
    'clang-14 AST of the TU equals what g++ 12 compiles; vlib/cxx2c.py lowering rules (listed with firing counts in extraction_rules_fired)',
    'CBMC 6.11 goto-instrument --dfcc contract instrumentation and the SAT/SMT back ends are sound',
    'x86-64 data model: LP64, little endian, char signed, unaligned loads allowed',
    'sequential semantics: atomics are plain variables, no concurrency, no signals',
]

PROPS['C07'] = dict(
    units=['k_chk'], level='proof', design_ref='6/C07',
    technique='CBMC dfcc function contract + loop contracts (lane-decomposed inductive invariant, lock-step ghost byte sum) on calc_chksum extracted from the clang AST',
    text='Unbounded proof for every buffer content, every size up to 2^31-1 and every offset/length pair: the result equals the '
         'lock-step ghost sum of exactly bytes [offset, offset+n) mod 256, and every read is inside an object of exactly that extent.',
    note='sz capped at 2^31-1 (int len); ghost spec is the byte-at-a-time running sum; unaligned 32-bit loads assumed defined (x86-64)',
    trusted_base=COMMON_TRUST,
    explanation='Message::calc_chksum is extracted from the clang AST on each run; its contract (requires is_fresh(from, offset+n); ensures '
                'result == ghost byte sum, ghost count == n) is enforced with goto-instrument --dfcc; both loops carry loop contracts so the proof is unbounded in sz.',
)


PROPS['C08'] = dict(
    units=['k_int'], level='proof', design_ref='6/C08',
    technique='CBMC contracts on itoa<int>, itoa<unsigned>, fast_atoi<int|unsigned|unsigned short> extracted from the clang AST: '
              'canonical-text and value postconditions against a strtol-style spec function, plus the modular round-trip lemma over the two contracts',
    text='Integer conjunct: proof for all 2^32 values of int and of unsigned. itoa writes at most 12 bytes, returns the length, and the text is the '
         'canonical decimal (optional single minus only for negatives, no leading zero) whose spec value is the argument; fast_atoi returns the spec '
         'value of every canonical text in range; the two contracts compose to fast_atoi(itoa(x)) == x. Loops are closed by unwinding to the '
         '11-character width of a 32-bit decimal with unwinding assertions, which is complete for the domain. Floating-point conjunct '
         '(modp_dtoa / fast_atof correct rounding and half-ulp parse-back): NOT decided by this check.',
    note='floating-point half of C08 is not decided (IEEE rounding over a decimal digit chain is out of reach of CBMC\'s float bit-blasting); '
         'spec_val/spec_canon are a trusted 12-line oracle; itoa only at base 10; thorough tier adds the direct (non-modular) round trip on the real bodies',
    trusted_base=COMMON_TRUST,
    explanation='Each function is enforced against its contract in its own harness (is_fresh 12-byte buffer, so any 13th byte written is a bounds violation); '
                'rt_int_modular replaces both calls by their contracts and proves the round trip from the contracts alone.',
)

PROPS['C09'] = dict(
    units=['k_date'], level='proof', design_ref='6/C09',
    technique='CBMC harness contracts on time_to_epoch, format0/parse_decimal, date_time_format, date_time_parse, time_parse, date_parse extracted from the '
              'clang AST, against Hinnant civil-calendar spec functions; Tickval (std::chrono + gmtime_r) is an assumed model',
    text='Proof for every valid broken-down time 1970..2099 (all days, seconds of day, milliseconds): time_to_epoch equals the proleptic-Gregorian '
         'day count * 86400 + seconds of day; the rendered text for each of the six indicators is exactly the fixed-width wire text of the calendar fields, '
         'written inside a 21-byte buffer; parsing the wire text of any valid field tuple hands exactly those fields to time_to_epoch and returns its value '
         'scaled to ns plus the milliseconds; time-only and date-only/MonthYear texts likewise. The pure calendar lemma that composes format and parse into the round trip (the two spec directions are inverse '
         'on [1970,2100)) and the direct round trip on the compiled codecs are NOT proved (CBMC did not finish within 30 min): both tiers evaluate them '
         'natively, exhaustively over all 47482 days, labelled native and never counted as proved. The GetTimeAsStringMS conjunct (iostream rendering of log timestamps) is NOT decided by this check.',
    note='Tickval::get_tm (chrono to_time_t + gmtime_r) and Tickval::msecs are ASSUMED to return the spec calendar fields (model bodies in specs/k_date.py); '
         'utcdiff = 0; loops bounded by field width <= 4 are unwound with unwinding assertions (complete); GetTimeAsStringMS not covered',
    trusted_base=COMMON_TRUST,
    explanation='Field tuples are symbolic over the whole valid domain; wire text is characterised by layout + digit-group recomposition (no division), '
                'so format and parse are each proved against the same text predicate and compose to the round trip through the calendar inverse lemma.',
)


PROPS['C10'] = dict(
    units=['k_realm'], level='proof', design_ref='6/C10',
    technique='CBMC harness contracts on RealmBase::get_rlm_idx<int|char> and is_valid<int|char> extracted from the clang AST, over a realm table of symbolic '
              'length; std::lower_bound / std::binary_search are assumed ISO contracts with a ghost partition index; membership by a single ghost witness',
    text='Proof for every strictly sorted table of 1..2^24 ints or chars, every probe value and every witness position: a set-realm index is -1 or a valid '
         'index whose element equals the value (idx_exact), a member always gets its own index (idx_member), the index is a valid subscript of '
         '_descriptions[_sz] (idx_in_bounds); a range-realm index is reported only for values inside [lo, hi]; is_valid equals set membership / range inclusion.',
    note='std::lower_bound / std::binary_search contracts are ASSUMED (model bodies); "tables are strictly sorted" and "_descriptions has _sz entries" are '
         'facts about f8c output, not proved; only the int and char instantiations are verified (f8String / fp_type share the text, not the proof); '
         'the printer MessageBase::print (iostream) is not under contract: it subscripts _descriptions with exactly the index proved in bounds here',
    trusted_base=COMMON_TRUST,
    explanation='The real template bodies are extracted per instantiation; the table lives behind a malloc of symbolic size, so any read outside [0,_sz) is a bounds '
                'violation; sortedness is instantiated at (witness, partition point), which is the only instance the proof uses.',
)

# ---------------------------------------------------------------- native replayers
import os
from vlib import replay as _rp


def _replay_k_chk(oid, inputs, trace, wd):
    exe = _rp.build_native(os.path.join(_rp.VERIF, 'replay', 'k_chk.cpp'), os.path.join(wd, 'replay_k_chk'))
    out = dict(steps=[])
    sz, off, ln = (_rp.num(inputs.get(k, '')) for k in ('sz', 'offset', 'len'))
    if None not in (sz, off, ln) and sz <= (1 << 24):
        rc, o = _rp.run_native(exe, [sz, off, ln])
        out['steps'].append(dict(kind='trace-inputs', args=[sz, off, ln], rc=rc, output=o[-1500:]))
        if rc != 0:
            out['reproduced'] = True
            return out
    rc, o = _rp.run_native(exe, ['search'])
    out['steps'].append(dict(kind='native contract-checking search sz<=600', rc=rc, output=o[-1500:]))
    out['reproduced'] = rc != 0
    return out


replayers['k_chk'] = _replay_k_chk


def _replay_k_int(oid, inputs, trace, wd):
    exe = _rp.build_native(os.path.join(_rp.VERIF, 'replay', 'k_int.cpp'), os.path.join(wd, 'replay_k_int'))
    out = dict(steps=[])
    for key, mode in (('value', 'uone' if 'uint' in oid else 'one'), ('x', 'uone' if 'uint' in oid else 'one')):
        v = _rp.num(inputs.get(key, ''))
        if v is not None:
            rc, o = _rp.run_native(exe, [mode, v])
            out['steps'].append(dict(kind='trace-inputs', args=[mode, v], rc=rc, output=o[-1500:]))
            if rc != 0:
                out['reproduced'] = True
                return out
    rc, o = _rp.run_native(exe, ['search'])
    out['steps'].append(dict(kind='native contract-checking search (boundaries + stride 9973 over int and unsigned)', rc=rc, output=o[-1500:]))
    out['reproduced'] = rc != 0
    return out


def _replay_k_date(oid, inputs, trace, wd):
    exe = _rp.build_native(os.path.join(_rp.VERIF, 'replay', 'k_date.cpp'), os.path.join(wd, 'replay_k_date'))
    out = dict(steps=[])
    v = _rp.num(inputs.get('ms', ''))
    if v is None:
        # harnesses over calendar fields: rebuild the instant from the trace's field tuple
        f = {k: _rp.num(inputs.get('f.' + k, '') or inputs.get('f0.' + k, '')) for k in ('y', 'mo', 'd', 'h', 'mi', 's', 'ms')}
        if None not in (f['y'], f['mo'], f['d']):
            import calendar
            try:
                v = calendar.timegm((f['y'], f['mo'], f['d'], f['h'] or 0, f['mi'] or 0, f['s'] or 0)) * 1000 + (f['ms'] or 0)
            except Exception:
                v = None
    if v is not None and 0 <= v < 4102444800000:
        rc, o = _rp.run_native(exe, ['one', v])
        out['steps'].append(dict(kind='trace-inputs', args=['one', v], rc=rc, output=o[-1500:]))
        if rc != 0:
            out['reproduced'] = True
            return out
    rc, o = _rp.run_native(exe, ['search'])
    out['steps'].append(dict(kind='native contract-checking search (first/last/mid ms of every day 1970..2099 + prime stride)', rc=rc, output=o[-1500:]))
    out['reproduced'] = rc != 0
    return out




def _replay_k_realm(oid, inputs, trace, wd):
    exe = _rp.build_native(os.path.join(_rp.VERIF, 'replay', 'k_realm.cpp'), os.path.join(wd, 'replay_k_realm'))
    which = ('range_member' if '.range.' in oid and 'idx_member' in oid else 'range_valid' if 'range_inclusion' in oid
             else 'range_first' if '.range.' in oid else 'set')
    rc, o = _rp.run_native(exe, ['search', which])
    return dict(steps=[dict(kind='native contract-checking search: every strictly sorted table over an 8-letter alphabet x every probe value (%s realms, int and char)' % which,
                            rc=rc, output=o[-1500:])], reproduced=rc != 0)


replayers['k_realm'] = _replay_k_realm
replayers['k_int'] = _replay_k_int
replayers['k_date'] = _replay_k_date


# ---------------------------------------------------------------- not applicable / not (yet) claimed
NOT_APPLICABLE = {
    'C13': 'quantifies over programs (schemas) and the behaviour of generated C++: no function contract within CBMC reach expresses "the emitted program implements the schema"',
    'C21': 'whole-system history over two processes, a lossy network, file persistence and restarts: not expressible as function contracts; its per-session steps are C16-C20/C26',
    'C25': 'quantifies over thread interleavings; the contract tooling here is sequential (atomics are plain variables)',
    'C27': 'crash points are partial executions; function contracts speak about completed calls',
    'C30': 'all interleavings of a lock-free CAS protocol in C++ templates: outside sequential contracts',
    'C32': 'istream/regex/std::map-driven recursive parser: every step is an opaque library call, no C-expressible core with a tree-equality contract',
}
for _i in range(1, 33):
    _k = 'C%02d' % _i
    NOT_APPLICABLE.setdefault(_k, 'not yet claimed: verification units for this property are not built yet (see DESIGN.md section 6 for the plan)')
