"""Which units decide which property, and at what level (MANIFEST.json is generated from this)."""

PROPS = {}
replayers = {}     # unit name -> function(obligation id, trace inputs, trace text, workdir) -> dict(reproduced=bool, ...)

COMMON_TRUST = [
    'clang-14 AST of the TU equals what g++ 12 compiles; vlib/cxx2c.py lowering rules (listed with firing counts in extraction_rules_fired)',
    'CBMC 6.11 goto-instrument --dfcc contract instrumentation and the SAT/SMT back ends are sound',
    'x86-64 data model: LP64, little endian, char signed, unaligned loads allowed',
    'sequential semantics: atomics are plain variables, no concurrency, no signals',
]

PROPS['C07'] = dict(
    units=['k_chk'], level='proof', design_ref='6/C07',
    technique='CBMC dfcc function contract + loop contracts (lane-decomposed inductive invariant, lock-step ghost byte sum) on calc_chksum extracted from the clang AST',
    text='Unbounded proof for every buffer content, every size up to 2^31-1 and every offset/length pair: the result equals the '
         'lock-step ghost sum of exactly bytes [offset, offset+n) mod 256, and every read is inside an object of exactly that extent.',
    note='sz capped at 2^31-1 (int len); ghost spec is the byte-at-a-time running sum; unaligned 32-bit loads assumed defined (x86-64)',
    trusted_base=COMMON_TRUST,
    explanation='Message::calc_chksum is extracted from the clang AST on each run; its contract (requires is_fresh(from, offset+n); ensures '
                'result == ghost byte sum, ghost count == n) is enforced with goto-instrument --dfcc; both loops carry loop contracts so the proof is unbounded in sz.',
)


# ---------------------------------------------------------------- native replayers
import os
from vlib import replay as _rp


def _replay_k_chk(oid, inputs, trace, wd):
    exe = _rp.build_native(os.path.join(_rp.VERIF, 'replay', 'k_chk.cpp'), os.path.join(wd, 'replay_k_chk'))
    out = dict(steps=[])
    sz, off, ln = (_rp.num(inputs.get(k, '')) for k in ('sz', 'offset', 'len'))
    if None not in (sz, off, ln) and sz <= (1 << 24):
        rc, o = _rp.run_native(exe, [sz, off, ln])
        out['steps'].append(dict(kind='trace-inputs', args=[sz, off, ln], rc=rc, output=o[-1500:]))
        if rc != 0:
            out['reproduced'] = True
            return out
    rc, o = _rp.run_native(exe, ['search'])
    out['steps'].append(dict(kind='native contract-checking search sz<=600', rc=rc, output=o[-1500:]))
    out['reproduced'] = rc != 0
    return out


replayers['k_chk'] = _replay_k_chk


# ---------------------------------------------------------------- not applicable / not (yet) claimed
NOT_APPLICABLE = {
    'C13': 'quantifies over programs (schemas) and the behaviour of generated C++: no function contract within CBMC reach expresses "the emitted program implements the schema"',
    'C21': 'whole-system history over two processes, a lossy network, file persistence and restarts: not expressible as function contracts; its per-session steps are C16-C20/C26',
    'C25': 'quantifies over thread interleavings; the contract tooling here is sequential (atomics are plain variables)',
    'C27': 'crash points are partial executions; function contracts speak about completed calls',
    'C30': 'all interleavings of a lock-free CAS protocol in C++ templates: outside sequential contracts',
    'C32': 'istream/regex/std::map-driven recursive parser: every step is an opaque library call, no C-expressible core with a tree-equality contract',
}
for _i in range(1, 33):
    _k = 'C%02d' % _i
    NOT_APPLICABLE.setdefault(_k, 'not yet claimed: verification units for this property are not built yet (see DESIGN.md section 6 for the plan)')
