"""K-dgrp (C04, repeating groups): MessageBase::decode_group (runtime/message.cpp) with the inline helpers it runs through -- MessageBase::add_field(fnum, itr, pos, what, check),
FieldTraits::get / has / getPos / set / is_group (include/fix8) -- bodies from the clang AST, over the ghost token sequence of K-dec.

BOUNDED: texts of at most 2 tokens, a group definition of at most 3 member traits (number, position inside the group, trait bits), at most 3 elements, no nested groups.
  every element handed to the group starts with the group's first field (the member at position 1);
  every consumed token is a member of the group and becomes exactly one field of the current element, with its own tag, built from its own value text, at consecutive positions;
  a member that is already present in the current element starts the next element; the first token that is not a member ends the group and is not consumed.
"""
from specs import k_copy as _kc
NTOK = 2
PRE_STRUCTS = _kc.PRE_STRUCTS + r'''
struct sv_m { const char *data; unsigned long size; };
struct be_m { unsigned short _fnum; void *_rlm; int _create; };
struct ctx_m2 { int dummy; };
struct uptr_m { struct FIX8_MessageBase *p; };
'''
PRELUDE = r'''
#include <stdlib.h>
#define VACUITY_PROBE() __CPROVER_assert(0, "vacuity-probe")
unsigned nondet_uint(void); unsigned short nondet_ushort(void); _Bool nondet_bool(void); long nondet_long(void);
#ifndef NTOK
#define NTOK 2
#endif
char g_raw[4096]; unsigned g_ntok; unsigned g_off[NTOK + 1]; unsigned short g_tag[NTOK]; int g_cur = -1;
struct bf_m g_bf[NTOK + 1]; int g_nbf; long g_bf_from[NTOK + 1];
/* ---- ASSUMED models (as in K-dec / K-copy) ---- */
unsigned long sv_size(const struct sv_m *s) { return s->size; }
const char *sv_data(const struct sv_m *s) { return s->data; }
unsigned tok_extract(const char *from, unsigned sz, char *tag, char *val)
{
  for (unsigned i = 0; i < NTOK; ++i)
    if (i < g_ntok && from == g_raw + g_off[i]) { if (g_off[i + 1] - g_off[i] <= sz) { g_cur = (int)i; tag[0] = (char)i; val[0] = (char)i; return g_off[i + 1] - g_off[i]; } return 0; }
  return 0;
}
unsigned atoi_tag(const char *tag, char term) { return g_cur >= 0 ? g_tag[g_cur] : 0; }
const struct ft_m *pres_begin(const struct pres_m *p) { return p->arr; }
const struct ft_m *pres_end(const struct pres_m *p) { return p->arr + p->n; }
const struct ft_m *pres_find(const struct pres_m *p, unsigned short key)
{ for (unsigned i = 0; i < 3; ++i) if (i < p->n && p->arr[i]._fnum == key) return &p->arr[i]; return p->arr + p->n; }
unsigned short ebit_and(const unsigned short *bits, unsigned bit) { return *bits & (unsigned short)(1u << bit); }
unsigned short ebit_has(const unsigned short *bits, unsigned bit) { return *bits & (unsigned short)(1u << bit); }
void ebit_set(unsigned short *bits, unsigned bit, _Bool on) { if (on) *bits |= (unsigned short)(1u << bit); else *bits &= (unsigned short)~(1u << bit); }
struct fiter_m fmap_find(struct fmap_m *m, const unsigned short *k)
{ struct fiter_m it; it.p = m->ents + m->n; for (unsigned i = 0; i < 4; ++i) if (i < m->n && m->ents[i].first == *k && it.p == m->ents + m->n) it.p = &m->ents[i]; return it; }
void fent_ctor(struct fent_m *e, const unsigned short *k, struct bf_m **v) { e->first = *k; e->second = *v; }
void fent_ctor_u(struct fent_m *e, const unsigned *k, struct bf_m **v) { e->first = (unsigned short)*k; e->second = *v; }
void fmap_insert(struct fmap_m *m, struct fent_m *e) { __CPROVER_assume(m->n < 4); m->ents[m->n++] = *e; }
struct be_m g_be;
const struct be_m *ctx_find_be(const void *c, unsigned short fnum) { g_be._fnum = fnum; return &g_be; }
struct bf_m *be_create(const int *inst, const char *val, const void *rlm, int ival)
{ __CPROVER_assume(g_nbf <= NTOK); g_bf[g_nbf]._fnum = g_be._fnum; g_bf[g_nbf].value = (long)val[0]; return &g_bf[g_nbf++]; }      /* the field is built from this value text (token index as value id) */
_Bool mb_has_group_count(const struct bf_m *bf) { return 0; }
struct FIX8_MessageBase;
struct bf_m *mb_replace(struct FIX8_MessageBase *self, unsigned short fnum, const struct ft_m *itr, struct bf_m *with) { __CPROVER_assert(0, "model: decode_group adds without the duplicate check"); return 0; }
void __verif_delete(void *p) { }
/* ---- the group object: its definition (member traits), the elements it creates and the elements it is handed ---- */
struct pres_m g_group_def; struct FIX8_MessageBase *g_elem_pool; int g_created; int g_pushed; struct FIX8_MessageBase *g_pushed_elem[4]; _Bool g_group_known;
struct gb_m g_group;
struct gb_m *mb_find_add_group(struct FIX8_MessageBase *self, unsigned short fnum, struct gb_m *grpbase) { return g_group_known ? &g_group : 0; }
struct FIX8_MessageBase *gb_create_group(const struct gb_m *g, _Bool deep);
struct gb_m *gb_push(struct gb_m *g, struct FIX8_MessageBase *m) { __CPROVER_assume(g_pushed < 4); g_pushed_elem[g_pushed++] = m; return g; }
void uptr_ctor(struct uptr_m *u, struct FIX8_MessageBase *p) { u->p = p; }
struct FIX8_MessageBase *uptr_arrow(const struct uptr_m *u) { return u->p; }
struct FIX8_MessageBase *uptr_release(struct uptr_m *u) { struct FIX8_MessageBase *p = u->p; u->p = 0; return p; }
unsigned short pres_find_missing(const struct pres_m *p, unsigned type)
{ for (unsigned i = 0; i < 3; ++i) if (i < p->n && (p->arr[i]._field_traits & (1u << type)) && !(p->arr[i]._field_traits & (1u << K_present))) return p->arr[i]._fnum; return 0; }
struct oss_m { int dummy; }; void oss_ctor(struct oss_m *o) { }
'''
POST = r'''
struct FIX8_MessageBase *gb_create_group(const struct gb_m *g, _Bool deep)
{
  __CPROVER_assume(g_created < NTOK + 1);
  struct FIX8_MessageBase *e = &g_elem_pool[g_created++];
  e->_fp._presence = g_group_def; e->_fields.n = 0; e->_pos.n = 0;            /* a fresh element of this group: the definition's traits, nothing present */
  return e;
}
static _Bool member(unsigned short tag) { for (unsigned i = 0; i < 3; ++i) if (i < g_group_def.n && g_group_def.arr[i]._fnum == tag) return 1; return 0; }
static unsigned short member_pos(unsigned short tag) { for (unsigned i = 0; i < 3; ++i) if (i < g_group_def.n && g_group_def.arr[i]._fnum == tag) return g_group_def.arr[i]._pos; return 0; }
void h_decode_group(void)
{
  struct FIX8_MessageBase m, pool[NTOK + 1]; struct sv_m from; g_elem_pool = pool; g_created = 0; g_pushed = 0; g_group_known = nondet_bool(); g_nbf = 0; g_cur = -1; __exc = 0;
  /* the text */
  g_ntok = nondet_uint(); __CPROVER_assume(g_ntok <= NTOK);
  g_off[0] = nondet_uint(); __CPROVER_assume(g_off[0] <= 64);
  for (unsigned i = 0; i < NTOK; ++i) { unsigned len = nondet_uint(); __CPROVER_assume(len >= 4 && len <= 64); g_off[i + 1] = g_off[i] + len; g_tag[i] = nondet_ushort(); __CPROVER_assume(g_tag[i] >= 1); }
  from.data = g_raw; from.size = g_off[g_ntok];
  /* the group definition: positions 1..n, the member at position 1 is the delimiter */
  g_group_def.n = nondet_uint(); __CPROVER_assume(g_group_def.n >= 1 && g_group_def.n <= 3);
  for (unsigned i = 0; i < 3; ++i) {
    struct ft_m *t = &g_group_def.arr[i]; t->_fnum = nondet_ushort(); t->_ftype = 0; t->_pos = nondet_ushort(); t->_field_traits = nondet_ushort();
    __CPROVER_assume(t->_fnum >= 1 && t->_pos >= 1 && t->_pos <= g_group_def.n && (t->_field_traits & (1u << K_position)) && !(t->_field_traits & ((1u << K_present) | (1u << K_group))));
  }
  __CPROVER_assume(g_group_def.n < 2 || (g_group_def.arr[0]._fnum < g_group_def.arr[1]._fnum && g_group_def.arr[0]._pos != g_group_def.arr[1]._pos));
  __CPROVER_assume(g_group_def.n < 3 || (g_group_def.arr[1]._fnum < g_group_def.arr[2]._fnum && g_group_def.arr[0]._pos != g_group_def.arr[2]._pos && g_group_def.arr[1]._pos != g_group_def.arr[2]._pos));
  unsigned r = mb_decode_group(&m, 0, nondet_ushort(), &from, g_off[0], 0);
  if (!g_group_known) __CPROVER_assert(__exc, "C04.group.an_undefined_group_is_refused");
  if (!__exc) {
    unsigned j = NTOK + 1; for (unsigned i = 0; i <= NTOK; ++i) if (i <= g_ntok && r == g_off[i] && j == NTOK + 1) j = i;
    __CPROVER_assert(j <= g_ntok, "C04.group.stops_on_a_token_boundary");
    for (unsigned i = 0; i < NTOK; ++i) if (i < j) __CPROVER_assert(member(g_tag[i]), "C04.group.every_consumed_token_is_a_member_of_the_group");
    __CPROVER_assert(j == g_ntok || !member(g_tag[j]), "C04.group.ends_only_at_a_token_that_is_not_a_member");
    __CPROVER_assert(g_nbf == (int)j, "C04.group.one_field_per_consumed_token");
    int total = 0;
    for (int e = 0; e < 4; ++e) if (e < g_pushed) {
      struct FIX8_MessageBase *el = g_pushed_elem[e];
      __CPROVER_assert(el == &pool[e], "C04.group.elements_are_handed_over_in_the_order_they_were_created");
      if (el->_pos.n > 0) {
        const struct bf_m *first = 0; for (unsigned k = 0; k < 4; ++k) if (k < el->_pos.n && el->_pos.ents[k].first == 1) first = el->_pos.ents[k].second;
        __CPROVER_assert(first != 0 && member_pos(first->_fnum) == 1, "C04.group.every_element_begins_with_the_group_s_first_field");
      }
      for (unsigned k = 0; k < 4; ++k) if (k < el->_fields.n) {
        const struct bf_m *f = el->_fields.ents[k].second; long tok = f->value;
        __CPROVER_assert(tok >= 0 && tok < (long)j && g_tag[tok] == f->_fnum && el->_fields.ents[k].first == f->_fnum, "C04.group.field_keeps_its_own_tag_and_value");
      }
      total += (int)el->_fields.n;
    }
    __CPROVER_assert(total == (int)j, "C04.group.every_consumed_token_is_in_exactly_one_element");
  }
  VACUITY_PROBE();
}
'''
MB, FT, PS = _kc.MB, _kc.FT, _kc.PS
UNIT = dict(
    name='k_dgrp', tu='tu/rt_message.cpp', no_follow=True,
    pre_structs=PRE_STRUCTS,
    probe={'K_present': 'FIX8::FieldTrait::present', 'K_position': 'FIX8::FieldTrait::position', 'K_group': 'FIX8::FieldTrait::group', 'K_mandatory': 'FIX8::FieldTrait::mandatory'},
    emit=dict(
        exceptions=True,
        may_throw={'mb_decode_group': True},
        pod=[r'std::basic_string<char>', r'std::_Rb_tree_(const_)?iterator<.*>'],
        type_alias=[(r'(FIX8::)?Presence::const_iterator', 'const FIX8::FieldTrait *'), (r'(FIX8::)?Presence::iterator', 'FIX8::FieldTrait *')],
        default_args={'ebit_set': {1: '1'}, 'atoi_tag': {1: '0'}, 'pres_find_missing': {0: 'K_mandatory'}},
        type_map=[(PS, 'struct pres_m'), (r'FIX8::Presence', 'struct pres_m'), (r'FIX8::FieldTrait', 'struct ft_m'), (r'FIX8::FieldTrait::FieldType', 'int'),
                  (r'FIX8::FieldTrait::TraitTypes', 'unsigned int'), (r'FIX8::ebitset<FIX8::FieldTrait::TraitTypes, unsigned short>', 'unsigned short'),
                  (r'FIX8::Fields|' + _kc.FM, 'struct fmap_m'), (r'FIX8::Positions|' + _kc.PM, 'struct fmap_m'),
                  (r'std::_Rb_tree_(const_)?iterator<std::pair<const unsigned short, FIX8::BaseField \*>>', 'struct fiter_m'),
                  (r'std::pair<const unsigned short, FIX8::BaseField \*>', 'struct fent_m'),
                  (r'FIX8::BaseField', 'struct bf_m'), (r'FIX8::GroupBase', 'struct gb_m'), (r'FIX8::F8MetaCntx', 'struct ctx_m2'), (r'FIX8::RealmBase', 'void'),
                  (r'FIX8::BaseEntry', 'struct be_m'), (r'FIX8::Inst', 'int'), (r'(std::basic_string<char>|std::string|FIX8::f8String)', 'struct sv_m'),
                  (r'std::unique_ptr<FIX8::MessageBase.*>', 'struct uptr_m'), (r'std::basic_ostringstream<char>|std::ostringstream', 'struct oss_m')],
        lazy_structs=[r'FIX8::MessageBase', r'FIX8::FieldTraits'],
        calls_rx=[(PS + r'::find', 'pres_find'), (PS + r'::end', 'pres_end'), (PS + r'::begin', 'pres_begin'),
                  (r'FIX8::ebitset<FIX8::FieldTrait::TraitTypes, unsigned short>::has', 'ebit_has'), (r'FIX8::ebitset<FIX8::FieldTrait::TraitTypes, unsigned short>::set', 'ebit_set'),
                  (r'FIX8::ebitset<FIX8::FieldTrait::TraitTypes, unsigned short>::operator&', 'ebit_and'),
                  (r'std::(multi)?map<unsigned short, FIX8::BaseField \*>::insert', dict(c='fmap_insert', sig='void (std::pair<const unsigned short, FIX8::BaseField *> &&)')),
                  (r'std::unique_ptr<FIX8::MessageBase.*>::unique_ptr', 'uptr_ctor'), (r'std::unique_ptr<FIX8::MessageBase.*>::operator->', 'uptr_arrow'),
                  (r'std::unique_ptr<FIX8::MessageBase.*>::release', 'uptr_release')],
        calls={
            FT + '::get_presence': dict(c='ft_get_presence', sig='const FIX8::Presence &() const'),
            FT + '::has': lambda em, n, args: 'ft_has1' if len(args) == 1 else dict(c='ft_has2', sig='bool (const unsigned short, FIX8::Presence::const_iterator &) const'),
            FT + '::get': dict(c='ft_get2', sig='bool (const unsigned short, FIX8::Presence::const_iterator &, FIX8::FieldTrait::TraitTypes) const'),
            FT + '::getPos': dict(c='ft_getPos', sig='unsigned short (const unsigned short, FIX8::Presence::const_iterator &) const'),
            FT + '::set': dict(c='ft_set3', sig='void (const unsigned short, FIX8::Presence::const_iterator &, FIX8::FieldTrait::TraitTypes)'),
            FT + '::is_group': dict(c='ft_is_group', sig='bool (const unsigned short, FIX8::Presence::const_iterator &) const'),
            FT + '::find_missing': 'pres_find_missing',
            'std::pair<const unsigned short, FIX8::BaseField *>::pair|void (const unsigned short &, FIX8::BaseField *&)': 'fent_ctor',
            'std::pair<const unsigned short, FIX8::BaseField *>::pair': 'fent_ctor_u',
            MB + '::replace': dict(c='mb_replace', sig='FIX8::BaseField *(const unsigned short, FIX8::Presence::const_iterator, FIX8::BaseField *)'),
            MB + '::add_field': 'mb_add_field5', MB + '::find_add_group': 'mb_find_add_group', MB + '::decode_group': dict(c='mb_decode_group', sig='unsigned int (FIX8::GroupBase *, const unsigned short, const FIX8::f8String &, unsigned int, unsigned int)'),
            'FIX8::GroupBase::create_group': 'gb_create_group', 'FIX8::GroupBase::operator<<': 'gb_push', 'operator<<': 'gb_push',
            'std::basic_string<char>::size': 'sv_size', 'std::basic_string<char>::data': 'sv_data',
            'extract_element': 'tok_extract', 'fast_atoi': 'atoi_tag', 'FIX8::F8MetaCntx::find_be': 'ctx_find_be', 'FIX8::Inst::_do': 'be_create',
            'has_group_count': 'mb_has_group_count', MB + '::has_group_count': 'mb_has_group_count',
            'std::basic_ostringstream<char>::basic_ostringstream': 'oss_ctor',
        }),
    prelude=PRELUDE,
    force_fields={MB: [('_fp', FT), ('_fields', 'FIX8::Fields'), ('_pos', 'FIX8::Positions'), ('_ctx', 'FIX8::F8MetaCntx')], FT: [('_presence', 'FIX8::Presence')]},
    functions=[
        dict(q=FT + '::get_presence', sig=None, cname='ft_get_presence'),
        dict(q=FT + '::has', sig='bool (const unsigned short) const', cname='ft_has1'),
        dict(q=FT + '::has', sig='bool (const unsigned short, Presence::const_iterator &) const', cname='ft_has2'),
        dict(q=FT + '::get', sig='bool (const unsigned short, Presence::const_iterator &, FieldTrait::TraitTypes) const', cname='ft_get2'),
        dict(q=FT + '::getPos', sig='unsigned short (const unsigned short, Presence::const_iterator &) const', cname='ft_getPos'),
        dict(q=FT + '::set', sig='void (const unsigned short, Presence::const_iterator &, FieldTrait::TraitTypes)', cname='ft_set3'),
        dict(q=FT + '::is_group', sig='bool (const unsigned short, Presence::const_iterator &) const', cname='ft_is_group'),
        dict(q=MB + '::add_field', sig='void (const unsigned short, Presence::const_iterator, const unsigned int, FIX8::BaseField *, bool)', cname='mb_add_field5'),
        dict(q=MB + '::decode_group', sig=None, cname='mb_decode_group'),
    ],
    postlude=POST,
    proofs=[
        dict(name='decode_group_3_tokens', harness='h_decode_group', tier='thorough', cc_flags=['-DNTOK=3'], properties=['C04'], solvers=['cadical', 'kissat'], timeout=dict(quick=1800, thorough=3600), floor=6, level='bounded', unwind=7, object_bits=10),
        dict(name='decode_group', harness='h_decode_group', properties=['C04'], solvers=['cadical', 'kissat'], timeout=dict(quick=900, thorough=1800), floor=6, level='bounded', unwind=6, object_bits=10),
    ],
    trusted_base=['ASSUMED: the tokeniser hands out the ghost tokens; Presence::find / end, trait bits, F8MetaCntx::find_be, the field instantiator, GroupBase::create_group (a fresh element with the '
                  'group definition\'s traits) and operator<< (logs the element), std::unique_ptr (model bodies in specs/k_dgrp.py)'],
    assumptions=['bounded: 2 tokens, group definitions of at most 3 members, no nested groups (has_group_count is false)'],
)
