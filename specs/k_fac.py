"""K-fac (C04): Message::factory (runtime/message.cpp) and Message::decode (include/fix8/message.hpp), bodies from the clang AST, composed with the
per-part contract of MessageBase::decode (K-dec) as a model: each part consumes tokens from the offset it is given up to the first token whose tag is
not legal for it (strict mode) and returns that offset.
Obligations: the three parts are decoded in order header, body, trailer, each from where the previous one stopped, the trailer up to the checksum field;
the checksum is compared with the computed one; and -- the property's wording -- a message is ACCEPTED only if the trailer part consumed everything up to
the checksum field.  The last one is REFUTED: factory drops the consumed length, so the rest of the text after the first tag that is illegal where it
stands is silently discarded (known finding, replayed natively).
"""
PRE_STRUCTS = r'''
struct sv_m { const char *data; unsigned long size; };
struct part_m { int which; };                                  /* a MessageBase: header (1), body (2), trailer (3) */
struct msg_m { struct part_m body; struct part_m *_header, *_trailer; };   /* Message: its MessageBase part is the first member */
struct minst_m { int _do; };
struct bme_m { struct minst_m _create; };
struct ctx_m { int _bme; };
struct fld_m { unsigned v; };
'''
PRELUDE = r'''
#include <stdlib.h>
#define VACUITY_PROBE() __CPROVER_assert(0, "vacuity-probe")
unsigned nondet_uint(void); _Bool nondet_bool(void); unsigned long nondet_ulong(void); char nondet_char(void);
char g_raw[4096];
/* ghost: where each part's legal prefix ends (from the offset it is given), what was asked of the parts */
unsigned g_hlen; unsigned g_stop[4]; int g_calls; int g_order[4]; unsigned g_from[4], g_ignore[4]; _Bool g_perm[4];
unsigned g_mlen, g_chk_text, g_chk_calc; _Bool g_known_type, g_trailer_text_ok;
struct part_m g_hdr = { 1 }, g_trl = { 3 }; struct msg_m g_msg;
struct fld_m g_f_len, g_f_type, g_f_chk;
unsigned hdr_extract(const struct sv_m *from, char *len, char *mtype) { len[0] = 'L'; mtype[0] = 'T'; return g_hlen; }
unsigned atoi_u(const char *p, char term) { return p[0] == 'L' ? g_mlen : g_chk_text; }
const struct bme_m g_bme; const struct bme_m *bme_find_ptr(const int *tab, const char *mtype) { return g_known_type ? &g_bme : 0; }
struct msg_m *bme_create(const int *inst, _Bool deep) { g_msg.body.which = 2; g_msg._header = &g_hdr; g_msg._trailer = &g_trl; return &g_msg; }
/* K-dec's per-part contract: consume from s_offset up to the first token that is not legal for this part (never backwards, never past the window) */
unsigned part_decode(struct part_m *p, const struct sv_m *from, unsigned s_offset, unsigned ignore, _Bool permissive)
{
  __CPROVER_assume(g_calls < 4);
  g_order[g_calls] = p->which; g_from[g_calls] = s_offset; g_ignore[g_calls] = ignore; g_perm[g_calls] = permissive; g_calls++;
  unsigned r = g_stop[p->which];
  __CPROVER_assume(r >= s_offset && r <= (unsigned)from->size - ignore);
  return r;
}
struct fld_m *part_get_body_length(struct part_m *p) { return &g_f_len; }
struct fld_m *part_get_msg_type(struct part_m *p) { return &g_f_type; }
struct fld_m *part_get_check_sum(struct part_m *p) { return &g_f_chk; }
void fld_set_u(struct fld_m *f, const unsigned *v) { f->v = *v; }
void fld_set_s(struct fld_m *f, const struct sv_m *v) { f->v = 1; }
void fld_set_c(struct fld_m *f, const char *v) { f->v = 1; }
const char *sv_data(const struct sv_m *s) { return s->data; }
unsigned long sv_size(const struct sv_m *s) { return s->size; }
void sv_from_bytes(struct sv_m *s, const char *p, unsigned long n, void *alloc) { s->data = p; s->size = n; }
void sv_from_cstr(struct sv_m *s, const char *p, void *alloc) { s->data = p; s->size = 1; }
const char *sv_c_str(const struct sv_m *s) { return "C"; }
unsigned chk_calc(const struct sv_m *from, unsigned offset, int len) { return g_chk_calc; }
'''
POST = r'''
void h_factory(void)
{
  struct sv_m from; from.data = g_raw; from.size = nondet_ulong(); __CPROVER_assume(from.size >= 30 && from.size <= 4000);
  g_raw[from.size - 7] = g_trailer_text_ok ? '1' : nondet_char(); g_raw[from.size - 6] = g_trailer_text_ok ? '0' : nondet_char();
  g_hlen = nondet_uint(); __CPROVER_assume(g_hlen <= from.size - 7);
  for (int i = 0; i < 4; ++i) g_stop[i] = nondet_uint();
  g_known_type = nondet_bool(); g_mlen = nondet_uint(); g_chk_text = nondet_uint(); g_chk_calc = nondet_uint(); g_calls = 0; __exc = 0;
  struct ctx_m ctx; _Bool no_chksum = nondet_bool(), permissive = 0;
  struct msg_m *m = msg_factory(&ctx, &from, no_chksum, permissive);
  _Bool accepted = !__exc && m != 0;
  if (accepted) {
    __CPROVER_assert(g_hlen != 0 && g_known_type, "C04.factory.unframed_text_or_unknown_message_type_is_not_accepted");
    __CPROVER_assert(g_calls == 3 && g_order[0] == 1 && g_order[1] == 2 && g_order[2] == 3, "C04.factory.parts_decoded_in_the_order_header_body_trailer");
    __CPROVER_assert(g_from[0] == g_hlen && g_from[1] == g_stop[1] && g_from[2] == g_stop[2], "C04.factory.each_part_starts_where_the_previous_one_stopped");
    __CPROVER_assert(g_ignore[2] == 7 && !g_perm[0] && !g_perm[1] && !g_perm[2], "C04.factory.trailer_decoded_up_to_the_checksum_field_in_strict_mode");
    __CPROVER_assert(no_chksum || g_chk_text == g_chk_calc, "C04.factory.checksum_mismatch_is_not_accepted");
    __CPROVER_assert(g_raw[from.size - 7] == '1' && g_raw[from.size - 6] == '0', "C04.factory.text_must_end_with_the_checksum_field");
    __CPROVER_assert(g_f_len.v == g_mlen, "C04.factory.bodylength_field_holds_the_value_of_the_text");
    __CPROVER_assert(g_stop[3] == (unsigned)from.size - 7, "C04.factory.accepted_only_if_every_token_before_the_checksum_was_consumed");
  }
  VACUITY_PROBE();
}
'''
MSG = 'FIX8::Message'
UNIT = dict(
    name='k_fac', tu='tu/rt_message.cpp', no_follow=True,
    pre_structs=PRE_STRUCTS,
    emit=dict(
        exceptions=True,
        may_throw={'part_decode': True, 'msg_decode': True},
        base_cast={('struct msg_m', 'struct part_m'): '((struct part_m *)(%s))'},
        pod=[r'std::basic_string<char>'],
        constants={'MAX_MSGTYPE_FIELD_LEN': '32'},
        default_args={'atoi_u': {1: '0'}, 'sv_from_bytes': {2: '0'}, 'sv_from_cstr': {1: '0'}},
        type_map=[(r'(const )?(std::basic_string<char>|std::string|FIX8::f8String)', 'struct sv_m'), (r'FIX8::Message', 'struct msg_m'), (r'FIX8::MessageBase', 'struct part_m'),
                  (r'FIX8::F8MetaCntx', 'struct ctx_m'), (r'FIX8::BaseMsgEntry', 'struct bme_m'), (r'FIX8::Minst', 'struct minst_m'), (r'FIX8::MsgTable|FIX8::GeneratedTable<const char \*, FIX8::BaseMsgEntry>', 'int'),
                  (r'FIX8::(body_length|msg_type|check_sum)|FIX8::Field<.*, (9|35|10)>', 'struct fld_m'), (r'std::allocator<char>', 'void *'),
                  (r'std::function<FIX8::Message \*\(bool\)>', 'int')],
        lazy_structs=[],
        calls_rx=[(r'std::function<FIX8::Message \*\(bool\)>::operator\(\)', 'bme_create'),
                  (r'FIX8::GeneratedTable<const char \*, FIX8::BaseMsgEntry>::find_ptr', 'bme_find_ptr'),
                  (r'(FIX8::Field<.*, 9>|FIX8::body_length)::set', dict(c='fld_set_u', sig='void (const unsigned int &)')),
                  (r'(FIX8::Field<.*, 35>|FIX8::msg_type)::set', dict(c='fld_set_s', sig='void (const FIX8::f8String &)')),
                  (r'(FIX8::Field<.*, 10>|FIX8::check_sum)::set', dict(c='fld_set_s', sig='void (const FIX8::f8String &)'))],
        calls={
            'extract_header': 'hdr_extract', 'fast_atoi': 'atoi_u',
            'FIX8::MessageBase::decode': dict(c='part_decode', sig='unsigned int (const FIX8::f8String &, unsigned int, unsigned int, bool)'),
            'FIX8::Message::decode': dict(c='msg_decode', sig='unsigned int (const FIX8::f8String &, unsigned int, unsigned int, bool)'),
            'FIX8::MessageBase::get_body_length': 'part_get_body_length', 'FIX8::MessageBase::get_msg_type': 'part_get_msg_type', 'FIX8::MessageBase::get_check_sum': 'part_get_check_sum',
            'std::basic_string<char>::data': 'sv_data', 'std::basic_string<char>::size': 'sv_size', 'std::basic_string<char>::c_str': 'sv_c_str',
            'std::basic_string<char>::basic_string|void (const char *, const std::allocator<char> &)': 'sv_from_cstr',
            'std::basic_string<char>::basic_string': 'sv_from_bytes',
            'calc_chksum': 'chk_calc',
        }),
    prelude=PRELUDE,
    functions=[
        dict(q='FIX8::Message::decode', sig=None, cname='msg_decode'),
        dict(q='FIX8::Message::factory', sig='FIX8::Message *(const FIX8::F8MetaCntx &, const FIX8::f8String &, bool, bool)', cname='msg_factory', static=True),
    ],
    postlude=POST,
    proofs=[
        dict(name='factory', harness='h_factory', properties=['C04'], solvers=['cadical', 'z3'], timeout=dict(quick=600, thorough=1800), floor=8, level='proved-modular', object_bits=10),
    ],
    trusted_base=['ASSUMED: MessageBase::decode obeys the per-part contract K-dec checks (bounded) -- consumes from the given offset up to the first token not legal for the part; extract_header, '
                  'the message-type table, the message instantiator, field setters, calc_chksum (K-chk) and std::string construction are models (specs/k_fac.py)'],
    assumptions=['strict mode; one call of Message::factory on a text of 30..4000 bytes'],
)
