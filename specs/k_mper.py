"""K-mper (C26, memory persister): MemoryPersister::put x2, get x2, get_last_seqnum, find_nearest_highest_seqnum (runtime/persist.cpp).

std::map<unsigned, const std::string> is opaque: modelled in the SINGLE-WITNESS abstraction (DESIGN 3/6): the ghost state is the membership and
value of ONE arbitrary fixed key g_wkey plus the maximum key; operations on g_wkey are exact, questions about any other key are answered
nondeterministically (a sound over-approximation of every map).  Every for-all-keys clause of the store contract is stated about g_wkey
and holds for all keys by generalisation.  std::string is {data pointer, size} behind an opaque header word, so that reading the string
OBJECT instead of its bytes is distinguishable from reading its bytes (ASSUMED models, listed).
"""
PRE_STRUCTS = r'''
struct strm { long hdr; const char *data; unsigned long size; };          /* std::string: opaque header word, bytes, length */
struct pair_us { unsigned first; struct strm second; };                  /* std::pair<const unsigned, const std::string> */
struct map_m { int dummy; };                                             /* std::map<unsigned, const std::string>: state is ghost (single witness) */
struct iter_m { _Bool end; unsigned key; _Bool isw; };                   /* map iterator: at end / the key it stands on / whether that is the watched entry */
struct pair_ib { struct iter_m first; _Bool second; };                   /* std::pair<iterator, bool> */
'''
PRELUDE = r'''
#include <stdlib.h>
#define VACUITY_PROBE() __CPROVER_assert(0, "vacuity-probe")
long nondet_long(void); unsigned nondet_uint(void); _Bool nondet_bool(void); unsigned long nondet_ulong(void); char nondet_char(void);
/* ---- ghost: the one watched key of the store ---- */
unsigned g_wkey; _Bool g_wpresent; struct pair_us g_wentry;              /* membership and entry of the watched key */
_Bool g_empty; unsigned g_maxkey;                                        /* summaries: the map is empty / its largest key */
#define STORE_OK (!(g_wpresent && g_empty) && (!g_wpresent || g_maxkey >= g_wkey) && (!g_wpresent || g_wentry.first == g_wkey))
struct pair_us g_other;                                                  /* an entry for some other key (arbitrary content) */
_Bool g_found_valid; unsigned g_found_key;                               /* one further key known to be present: the last one a lookup found */
/* ---- ASSUMED: std::string ---- */
void str_from_bytes(struct strm *s, const char *p, unsigned long n, void *alloc)
{
  char *d = malloc(n + 1); __CPROVER_assume(d != 0);
  for (unsigned long i = 0; i < 8 && i < n; ++i) d[i] = p[i];            /* the control record is 8 bytes: copied exactly (longer texts: first 8 bytes, rest arbitrary) */
  s->hdr = nondet_long(); s->data = d; s->size = n;
}
void str_copy(struct strm *dst, const struct strm *src) { dst->hdr = nondet_long(); dst->data = src->data; dst->size = src->size; }   /* same bytes (shared, immutable here) */
struct strm *str_assign(struct strm *dst, const struct strm *src) { dst->data = src->data; dst->size = src->size; return dst; }
const char *str_data(const struct strm *s) { return s->data; }
/* ---- ASSUMED: std::pair<const unsigned, const std::string> constructors ---- */
void pair_us_ctor_int_str(struct pair_us *p, int *k, struct strm *v) { p->first = (unsigned)*k; str_copy(&p->second, v); }
void pair_us_ctor_uint_str(struct pair_us *p, const unsigned *k, const struct strm *v) { p->first = *k; str_copy(&p->second, v); }
/* ---- ASSUMED: std::map in the single-witness abstraction ---- */
struct pair_ib map_insert(struct map_m *m, struct pair_us *v)
{
  struct pair_ib r;
  if (v->first == g_wkey) {
    if (g_wpresent) { r.second = 0; }                                    /* insert does not overwrite */
    else { g_wpresent = 1; g_wentry = *v; r.second = 1; }
    r.first.end = 0; r.first.key = g_wkey; r.first.isw = 1;
  } else {
    r.second = nondet_bool(); r.first.end = 0; r.first.key = v->first; r.first.isw = 0;
  }
  if (r.second) { if (g_empty || v->first > g_maxkey) g_maxkey = v->first; g_empty = 0; }
  return r;
}
struct iter_m map_find(struct map_m *m, const unsigned *k)
{
  struct iter_m it;
  it.key = *k;
  if (*k == g_wkey) { it.end = !g_wpresent; it.isw = 1; }
  else {
    it.end = nondet_bool(); if (g_empty || *k > g_maxkey) it.end = 1; it.isw = 0;
    if (g_found_valid && g_found_key == *k) it.end = 0;                    /* a key found before (and not erased since) is found again */
    if (!it.end) { g_found_valid = 1; g_found_key = *k; }
  }
  return it;
}
struct iter_m map_end(struct map_m *m) { struct iter_m it; it.end = 1; it.key = 0; it.isw = 0; return it; }
_Bool iter_eq(const struct iter_m *a, const struct iter_m *b) { return a->end == b->end && (a->end || a->key == b->key); }
_Bool iter_ne(const struct iter_m *a, const struct iter_m *b) { return !iter_eq(a, b); }
struct pair_us g_cursor;                                                 /* the entry of a key other than the watched one: key exact, text arbitrary */
struct pair_us *iter_arrow(const struct iter_m *it)
{
  __CPROVER_assert(!it->end, "map iterator dereferenced at end()");
  if (it->isw) return &g_wentry;
  g_cursor.first = it->key; g_cursor.second.hdr = nondet_long(); g_cursor.second.data = 0; g_cursor.second.size = nondet_ulong();
  return &g_cursor;
}
_Bool map_empty(struct map_m *m) { return g_empty; }
unsigned long map_erase(struct map_m *m, const unsigned *k)
{
  unsigned long n;
  if (*k == g_wkey) { n = g_wpresent; g_wpresent = 0; } else n = nondet_bool();
  if (g_found_valid && g_found_key == *k) g_found_valid = 0;
  if (n) {                                                                /* the summaries may change: the map may have become empty, the maximum may have dropped */
    _Bool e = nondet_bool(); unsigned mk = nondet_uint();
    __CPROVER_assume(mk <= g_maxkey && !(g_wpresent && e) && (!g_wpresent || mk >= g_wkey));
    g_empty = e; g_maxkey = mk;
  }
  return n;
}
/* ++itr: the next larger key of the map (ISO: std::map iterates in ascending key order); the watched key is never skipped */
struct iter_m *iter_inc(struct iter_m *it)
{
  __CPROVER_assert(!it->end, "map iterator incremented at end()");
  unsigned k = it->key; _Bool e = nondet_bool(); unsigned nk = nondet_uint();
  __CPROVER_assume(e || (nk > k && nk <= g_maxkey));
  __CPROVER_assume(!(k < g_maxkey) || !e);                                /* the largest key is in the map: iteration reaches it */
  __CPROVER_assume(!(g_wpresent && k < g_wkey) || (!e && nk <= g_wkey));   /* cannot jump over the watched key */
  __CPROVER_assume(g_wpresent || e || nk != g_wkey);
  it->end = e;
  if (!e) { it->key = nk; it->isw = (nk == g_wkey); }
  return it;
}
/* ---- ghost: what the range retrieval handed to the callback ---- */
unsigned g_cb_records; int g_cb_done; unsigned g_cb_lastkey; _Bool g_cb_order_ok, g_cb_w_seen, g_cb_after_done, g_cb_stop_at_w; unsigned g_cb_w_count;
unsigned g_rctx_begin, g_rctx_end, g_rctx_interrupted; const char *g_cb_w_data;
struct FIX8_Session_RetransmissionContext;
_Bool callback_invoke(void *session, long pmf, const struct pair_us *with, struct FIX8_Session_RetransmissionContext *rctx);
unsigned ses_get_next_send_seq(const void *s) { return nondet_uint(); }
void pair_us_ctor_int_cstr(struct pair_us *p, int *k, const char *v) { p->first = (unsigned)*k; p->second.hdr = nondet_long(); p->second.data = v; p->second.size = 0; }
struct iter_m map_rbegin(struct map_m *m) { struct iter_m it; it.end = g_empty; it.key = g_maxkey; it.isw = 0; return it; }
'''
POST = r'''
static void mk_store(void)
{
  g_wkey = nondet_uint(); g_wpresent = nondet_bool(); g_empty = nondet_bool(); g_maxkey = nondet_uint(); g_found_valid = 0;
  g_wentry.first = g_wkey; g_wentry.second.hdr = nondet_long(); g_wentry.second.size = nondet_ulong();
  char *d = malloc(8); __CPROVER_assume(d != 0); g_wentry.second.data = d;
  __CPROVER_assume(STORE_OK);
}
/* put(seq, text) / get(seq, text): storing to 0 or to an occupied number is refused and changes nothing; otherwise the text is what get returns */
void h_put_get(void)
{
  struct FIX8_MemoryPersister mp; mk_store();
  unsigned seq = nondet_uint(); g_wkey = seq; g_wentry.first = seq; __CPROVER_assume(STORE_OK);      /* watch the key being stored */
  _Bool was = g_wpresent; const char *old_data = g_wentry.second.data;
  struct strm text; text.hdr = nondet_long(); text.size = nondet_ulong(); char *td = malloc(8); __CPROVER_assume(td != 0); text.data = td;
  _Bool r = mper_put_msg(&mp, seq, &text);
  __CPROVER_assert(seq != 0 || (!r && g_wpresent == was), "C26.mem.put_to_zero_refused");
  __CPROVER_assert(!(seq != 0 && was) || (!r && g_wentry.second.data == old_data), "C26.mem.put_to_occupied_refused_and_kept");
  __CPROVER_assert(!(seq != 0 && !was) || (r && g_wpresent && g_wentry.second.data == td && g_wentry.second.size == text.size), "C26.mem.put_stores_the_text");
  __CPROVER_assert(STORE_OK, "C26.mem.put_keeps_store_invariant");
  struct strm out; out.data = 0; out.size = 0;
  _Bool g = mper_get_msg(&mp, seq, &out);
  __CPROVER_assert(g == (seq != 0 && g_wpresent), "C26.mem.get_hits_exactly_stored_numbers");
  __CPROVER_assert(!g || (out.data == g_wentry.second.data && out.size == g_wentry.second.size), "C26.mem.get_returns_the_stored_text");
  VACUITY_PROBE();
}
/* control record: put(sender, target) then get(sender&, target&) returns the LAST pair stored */
void h_control(void)
{
  struct FIX8_MemoryPersister mp; mk_store();
  g_wkey = 0; g_wentry.first = 0; __CPROVER_assume(STORE_OK);                  /* the control record lives at key 0 */
  unsigned s1 = nondet_uint(), t1 = nondet_uint();
  _Bool r = mper_put_ctrl(&mp, s1, t1);
  __CPROVER_assert(r, "C26.mem.control_put_always_succeeds");
  unsigned s = nondet_uint(), t = nondet_uint();
  _Bool g = mper_get_ctrl(&mp, &s, &t);
  __CPROVER_assert(g && s == s1 && t == t1, "C26.mem.control_get_returns_last_stored_pair");
  VACUITY_PROBE();
}
/* last sequence number = largest stored key (0 for an empty store) */
void h_last(void)
{
  struct FIX8_MemoryPersister mp; mk_store();
  unsigned to = nondet_uint();
  unsigned r = mper_get_last(&mp, &to);
  __CPROVER_assert(r == to && r == (g_empty ? 0 : g_maxkey), "C26.mem.last_is_largest_stored");
  __CPROVER_assert(!g_wpresent || r >= g_wkey, "C26.mem.last_not_below_any_stored_number");
  VACUITY_PROBE();
}
/* nearest-highest: the smallest stored number in [requested, last]; 0 if there is none */
void h_nearest(void)
{
  struct FIX8_MemoryPersister mp; mk_store();
  unsigned req = nondet_uint(), last = nondet_uint();
  __CPROVER_assume(req >= 1);                                                  /* sequence numbers start at 1 (0 is the key of the control record) */
  __CPROVER_assume(last < 4294967295u);                                       /* the loop counter is unsigned: last = UINT_MAX never terminates (stated bound) */
  unsigned r = mper_nearest(&mp, req, last);
  __CPROVER_assert(r == 0 || (req <= r && r <= last), "C26.mem.nearest_inside_requested_range");
  __CPROVER_assert(!(g_wpresent && req <= g_wkey && g_wkey <= last && g_wkey != 0) || (r != 0 && r <= g_wkey), "C26.mem.nearest_not_above_any_stored_number_in_range");
  VACUITY_PROBE();
}
_Bool callback_invoke(void *session, long pmf, const struct pair_us *with, struct FIX8_Session_RetransmissionContext *rctx)
{
  if (g_cb_done) g_cb_after_done = 1;
  g_rctx_begin = rctx->_begin; g_rctx_end = rctx->_end;
  if (rctx->_no_more_records) { if (g_cb_done < 100) g_cb_done++; return 1; }
  g_cb_records++;
  if (!(with->first > g_cb_lastkey)) g_cb_order_ok = 0;
  g_cb_lastkey = with->first;
  if (with->first == g_wkey) { if (g_cb_w_count < 100) g_cb_w_count++; g_cb_w_data = with->second.data; }
  return 1;                                                                /* a callback that asks to stop is exercised in h_range_stop */
}
/* range retrieval: exactly the stored records of [from, to] (to = 0: up to the last), ascending, then the completion signal */
void h_range(void)
{
  struct FIX8_MemoryPersister mp; mk_store(); int session;
  unsigned from = nondet_uint(), to = nondet_uint();
  __CPROVER_assume(from >= 1 && g_wkey != 0 && (g_empty || (g_maxkey >= 1 && g_maxkey < 4294967295u)));
  g_cb_records = 0; g_cb_done = 0; g_cb_lastkey = 0; g_cb_order_ok = 1; g_cb_w_count = 0; g_cb_after_done = 0; g_cb_w_data = 0;
  unsigned last = g_empty ? 0 : g_maxkey, finish = to == 0 ? last : to;
  unsigned r = mper_get_range(&mp, from, to, &session, 0);
  _Bool w_in_range = g_wpresent && from <= g_wkey && g_wkey <= finish;
  __CPROVER_assert(g_cb_done == 1 && !g_cb_after_done, "C26.mem.range.completion_signalled_exactly_once_and_last");
  __CPROVER_assert(g_cb_order_ok, "C26.mem.range.records_visited_in_ascending_order");
  __CPROVER_assert(g_cb_w_count == (w_in_range ? 1u : 0u), "C26.mem.range.visits_exactly_the_stored_records_in_range");
  __CPROVER_assert(!w_in_range || g_cb_w_data == g_wentry.second.data, "C26.mem.range.record_text_is_the_stored_text");
  __CPROVER_assert(r == g_cb_records, "C26.mem.range.returns_the_number_of_records_visited");
  __CPROVER_assert(g_rctx_begin == from && g_rctx_end == to, "C26.mem.range.context_carries_the_requested_range");
  VACUITY_PROBE();
}
'''
MAP = 'std::map<unsigned int, const std::basic_string<char>>'
IT = r'std::_Rb_tree_const_iterator<std::pair<const unsigned int, const std::basic_string<char>>>'
UNIT = dict(
    name='k_mper', tu='tu/rt_persist.cpp', no_follow=True,
    pre_structs=PRE_STRUCTS,
    emit=dict(
        pod=[r'std::pair<std::_Rb_tree_iterator<.*>, bool>', r'std::_Rb_tree_(const_)?iterator<.*>'],
        default_args={'str_from_bytes': {2: '0'}},
        ptr_to_member_call='callback_invoke',
        bases={'FIX8::MemoryPersister': 'FIX8::Persister'},
        type_alias=[(r'FIX8::MemoryPersister::Store(::const_iterator)?', None)],
        type_map=[(r'(const )?(std::basic_string<char>|std::string|FIX8::f8String)', 'struct strm'),
                  (r'std::map<unsigned int, const std::basic_string<char>>', 'struct map_m'),
                  (r'std::_Rb_tree_(const_)?iterator<std::pair<const unsigned int, const std::basic_string<char>>>', 'struct iter_m'),
                  (r'std::pair<std::_Rb_tree_iterator<std::pair<const unsigned int, const std::basic_string<char>>>, bool>', 'struct pair_ib'),
                  (r'std::pair<const unsigned int, const std::basic_string<char>>', 'struct pair_us'),
                  (r'std::reverse_iterator<std::_Rb_tree_const_iterator<std::pair<const unsigned int, const std::basic_string<char>>>>', 'struct iter_m'),
                  (r'std::allocator<char>', 'void *'), (r'FIX8::Session(?!::)', 'void'),
                  (r'bool \(FIX8::Session::\*\)\(.*\)', 'long')],
        lazy_structs=[r'FIX8::MemoryPersister', r'FIX8::Persister', r'FIX8::Session::RetransmissionContext'],
        calls={MAP + '::insert': dict(c='map_insert', sig='std::pair<iterator, bool> (std::pair<const unsigned int, const std::basic_string<char>> &&)'),
               MAP + '::find': dict(c='map_find', sig='iterator (const unsigned int &)'), MAP + '::end': 'map_end', MAP + '::empty': 'map_empty', MAP + '::erase': dict(c='map_erase', sig='size_type (const unsigned int &)'),
               'operator==': 'iter_eq', 'operator!=': 'iter_ne',
               'std::_Rb_tree_const_iterator<std::pair<const unsigned int, const std::basic_string<char>>>::operator->': 'iter_arrow',
               'std::_Rb_tree_iterator<std::pair<const unsigned int, const std::basic_string<char>>>::operator->': 'iter_arrow',
               MAP + '::rbegin': 'map_rbegin', IT + '::operator++': 'iter_inc', 'FIX8::Session::get_next_send_seq': 'ses_get_next_send_seq', 'FIX8::Session::RetransmissionContext::RetransmissionContext': 'rctx_ctor',
               'FIX8::MemoryPersister::get_last_seqnum': dict(c='mper_get_last', sig='unsigned int (unsigned int &) const'), 'FIX8::MemoryPersister::find_nearest_highest_seqnum': 'mper_nearest',
               'std::pair<const unsigned int, const std::basic_string<char>>::pair|void (int &&, const char (&)[1])': 'pair_us_ctor_int_cstr',
               'std::reverse_iterator<std::_Rb_tree_const_iterator<std::pair<const unsigned int, const std::basic_string<char>>>>::operator->': 'iter_arrow',
               'std::pair<const unsigned int, const std::basic_string<char>>::pair|void (int &&, std::basic_string<char> &&)': 'pair_us_ctor_int_str',
               'std::pair<const unsigned int, const std::basic_string<char>>::pair': 'pair_us_ctor_uint_str',
               'std::basic_string<char>::basic_string|void (const char *, std::basic_string<char>::size_type, const std::allocator<char> &)': 'str_from_bytes',
               'std::basic_string<char>::basic_string': 'str_copy', 'std::basic_string<char>::operator=': 'str_assign', 'std::basic_string<char>::data': 'str_data'}),
    prelude=PRELUDE,
    force_fields={'FIX8::MemoryPersister': [('_store', MAP)]},
    functions=[
        dict(q='FIX8::MemoryPersister::put', sig='bool (const unsigned int, const unsigned int)', cname='mper_put_ctrl'),
        dict(q='FIX8::MemoryPersister::put', sig='bool (const unsigned int, const FIX8::f8String &)', cname='mper_put_msg'),
        dict(q='FIX8::MemoryPersister::get', sig='bool (unsigned int &, unsigned int &) const', cname='mper_get_ctrl'),
        dict(q='FIX8::MemoryPersister::get', sig='bool (const unsigned int, FIX8::f8String &) const', cname='mper_get_msg'),
        dict(q='FIX8::MemoryPersister::get_last_seqnum', sig=None, cname='mper_get_last'),
        dict(q='FIX8::MemoryPersister::find_nearest_highest_seqnum', sig=None, cname='mper_nearest',
             loops={0: dict(assigns='startseqnum, g_other, g_found_valid, g_found_key', invariants=[('inv.scan', 'requested <= startseqnum && startseqnum <= last + 1u && (!(g_wpresent && requested <= g_wkey && g_wkey < startseqnum && g_wkey != 0) )')],
                            decreases='last + 1u - startseqnum')}),
        dict(q='FIX8::Session::RetransmissionContext::RetransmissionContext', sig=None, cname='rctx_ctor', self_type='FIX8::Session::RetransmissionContext *'),
        dict(q='FIX8::MemoryPersister::get', sig='unsigned int (const unsigned int, const unsigned int, FIX8::Session &, bool (FIX8::Session::*)(const Session::SequencePair &, Session::RetransmissionContext &)) const', cname='mper_get_range',
             loops={0: dict(assigns='itr, recs_sent, g_cursor, g_cb_records, g_cb_done, g_cb_lastkey, g_cb_order_ok, g_cb_w_count, g_cb_after_done, g_cb_w_data, g_rctx_begin, g_rctx_end',
                            invariants=[('inv.iter', '!itr.end && itr.key >= 1u && itr.key >= from && itr.isw == (itr.key == g_wkey) && (!itr.isw || g_wpresent)'),
                                        ('inv.count', 'g_cb_done == 0 && !g_cb_after_done && (unsigned)g_cb_records == recs_sent && recs_sent < itr.key && (recs_sent == 0u || (g_rctx_begin == from && g_rctx_end == to))'),
                                        ('inv.order', 'g_cb_order_ok && g_cb_lastkey < itr.key && g_cb_lastkey <= finish'),
                                        ('inv.witness', 'g_cb_w_count == ((g_wpresent && from <= g_wkey && g_wkey <= g_cb_lastkey) ? 1u : 0u) && (g_cb_w_count == 0u || g_cb_w_data == g_wentry.second.data) && !(g_wpresent && from <= g_wkey && g_cb_lastkey < g_wkey && g_wkey < itr.key)')])}),
    ],
    postlude=POST,
    proofs=[
        dict(name='put_get', harness='h_put_get', properties=['C26'], solvers=['cadical', 'z3'], timeout=dict(quick=300, thorough=900), floor=6, level='proved-modular'),
        dict(name='control', harness='h_control', properties=['C26'], solvers=['cadical', 'z3'], timeout=dict(quick=300, thorough=900), floor=2, level='proved-modular'),
        dict(name='last', harness='h_last', properties=['C26'], solvers=['cadical', 'z3'], timeout=dict(quick=300, thorough=900), floor=2, level='proved-modular'),
        dict(name='range', harness='h_range', loop_contracts=True, properties=['C26', 'C18'], solvers=['z3', 'cadical'], timeout=dict(quick=600, thorough=1800), floor=5, level='proved-modular'),
        dict(name='nearest', harness='h_nearest', loop_contracts=True, properties=['C26'], solvers=['cadical', 'z3'], timeout=dict(quick=300, thorough=900), floor=2, level='proved-modular'),
    ],
    trusted_base=['ASSUMED: std::map<unsigned, const std::string> insert/find/end/empty/rbegin/iterator increment (ascending key order) and std::string construction/copy/assignment/data behave as ISO C++ specifies, in the single-witness '
                  'abstraction (one arbitrary watched key exact, other keys nondeterministic, maximum key tracked) -- model bodies in specs/k_mper.py'],
    assumptions=['memory persister only; the whole FilePersister is not under contract; the range retrieval\'s callback is a model that always asks to continue (a callback that returns false ends the retrieval early: not exercised)'],
)
UNIT['emit']['type_alias'] = []
