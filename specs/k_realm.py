"""K-realm: RealmBase::get_rlm_idx<int|char>, RealmBase::is_valid<int|char> (field.hpp) -- C10.

The realm table is an immutable array of symbolic length 1..2^24 behind `_range`; "the table is strictly
sorted" is the (generated-data) precondition of the class.  std::lower_bound / std::binary_search are
external: they are model bodies stating their ISO C++ contracts ([lower.bound], [binary.search]) with
a ghost partition index -- ASSUMED, listed in trusted_base.  Membership ("what is in the set") is
expressed with a single ghost witness index W chosen by the harness: every statement of the form
"exists j. tab[j] == what" is proved as "for the arbitrary index W: tab[W] == what => ...", and the
sortedness precondition is instantiated at (W, partition point), which is all the proof needs.
"""

PRELUDE_T = r'''
/* ---- ASSUMED contracts of the C++ library algorithms on a strictly sorted %(T)s range ---- */
long g_w_%(S)s;                    /* ghost: the harness's membership witness index (-1 = none) */
long g_lb_k_%(S)s;                 /* ghost: partition index returned by the last lower_bound call */
%(T)s *lower_bound_%(S)s(%(T)s *first, %(T)s *last, %(T)s *val)
{
  long n = last - first;
  __CPROVER_assert(n >= 0, "lower_bound.pre: valid range");
  long k = nondet_long();
  __CPROVER_assume(0 <= k && k <= n);
  __CPROVER_assume(k == 0 || first[k - 1] < *val);        /* everything before the partition point is < val */
  __CPROVER_assume(k == n || !(first[k] < *val));         /* the partition point itself is not */
  /* class precondition "strictly sorted", instantiated at the witness: W < k => tab[W] <= tab[k-1]; k < W => tab[k] < tab[W] */
  long w = g_w_%(S)s;
  __CPROVER_assume(!(0 <= w && w < k) || !(first[k - 1] < first[w]));
  __CPROVER_assume(!(k < w && w < n) || first[k] < first[w]);
  g_lb_k_%(S)s = k;
  return first + k;
}
_Bool binary_search_%(S)s(%(T)s *first, %(T)s *last, %(T)s *val)
{
  long n = last - first;
  __CPROVER_assert(n >= 0, "binary_search.pre: valid range");
  /* [binary.search]: true iff some element is equivalent to val.  true: the equal element is published; false: the witness is not equal */
  _Bool r = nondet_bool();
  long k = nondet_long();
  long w = g_w_%(S)s;
  if (r) { __CPROVER_assume(0 <= k && k < n && first[k] == *val); g_lb_k_%(S)s = k; }
  else   { __CPROVER_assume(!(0 <= w && w < n) || first[w] != *val); g_lb_k_%(S)s = -1; }
  return r;
}
'''

PRELUDE = r'''
#include <stdlib.h>
#define VACUITY_PROBE() __CPROVER_assert(0, "vacuity-probe")
#define NMAX (1L << 24)
long nondet_long(void); _Bool nondet_bool(void);
''' + PRELUDE_T % dict(T='int', S='int') + PRELUDE_T % dict(T='char', S='char')

HARNESS_T = r'''
/* dt_set: index is exact, exists iff member, and is a valid index into _descriptions[_sz] */
void h_idx_set_%(S)s(void)
{
  long n = nondet_long(); __CPROVER_assume(1 <= n && n <= NMAX);
  %(T)s *tab = malloc((unsigned long)n * sizeof(%(T)s)); __CPROVER_assume(tab != 0);
  struct FIX8_RealmBase rb; rb._dtype = E_FIX8_RealmBase_RealmType_dt_set; rb._range = tab; rb._sz = (int)n;
  %(T)s what; long w = nondet_long(); __CPROVER_assume(0 <= w && w < n); g_w_%(S)s = w;
  int idx = get_rlm_idx_%(S)s(&rb, &what);
  __CPROVER_assert(idx >= -1 && idx < rb._sz, "C10.set.%(S)s.idx_in_bounds");
  __CPROVER_assert(idx < 0 || tab[idx] == what, "C10.set.%(S)s.idx_exact");
  __CPROVER_assert(tab[w] != what || idx == w, "C10.set.%(S)s.idx_member");
  VACUITY_PROBE();
}
/* dt_range: an index (and so a description) is reported only for values inside [lo, hi] */
void h_idx_range_%(S)s(void)
{
  %(T)s tab[2]; __CPROVER_assume(tab[0] <= tab[1]);
  struct FIX8_RealmBase rb; rb._dtype = E_FIX8_RealmBase_RealmType_dt_range; rb._range = tab; rb._sz = 2;
  %(T)s what; g_w_%(S)s = -1;
  int idx = get_rlm_idx_%(S)s(&rb, &what);
  __CPROVER_assert(idx >= -1 && idx < rb._sz, "C10.range.%(S)s.idx_in_bounds");
  __CPROVER_assert(idx == -1 || idx == 0, "C10.range.%(S)s.idx_is_first_or_none");
  __CPROVER_assert(idx < 0 || (tab[0] <= what && what <= tab[1]), "C10.range.%(S)s.idx_member");
  VACUITY_PROBE();
}
/* is_valid agrees with set membership / range inclusion */
void h_valid_%(S)s(void)
{
  long n = nondet_long(); __CPROVER_assume(2 <= n && n <= NMAX);
  %(T)s *tab = malloc((unsigned long)n * sizeof(%(T)s)); __CPROVER_assume(tab != 0);
  _Bool set = nondet_bool();
  struct FIX8_RealmBase rb; rb._dtype = set ? E_FIX8_RealmBase_RealmType_dt_set : E_FIX8_RealmBase_RealmType_dt_range; rb._range = tab;
  if (!set) { __CPROVER_assume(n == 2 && tab[0] <= tab[1]); }
  rb._sz = (int)n;
  %(T)s what; long w = nondet_long(); __CPROVER_assume(0 <= w && w < n); g_w_%(S)s = w;
  _Bool ok = is_valid_%(S)s(&rb, &what);
  if (set) {
    __CPROVER_assert(!ok || (0 <= g_lb_k_%(S)s && g_lb_k_%(S)s < n && tab[g_lb_k_%(S)s] == what), "C10.valid.%(S)s.set_true_is_member");
    __CPROVER_assert(ok || tab[w] != what, "C10.valid.%(S)s.set_member_is_true");
  } else {
    __CPROVER_assert(ok == (tab[0] <= what && what <= tab[1]), "C10.valid.%(S)s.range_inclusion");
  }
  VACUITY_PROBE();
}
'''
FIELD_T = r'''
/* Field<%(T)s, tag>::get_rlm_idx() / is_valid(): the field's own value is looked up in the field's realm (or -1 / true without a realm) */
void h_field_%(S)s(void)
{
  long n = nondet_long(); __CPROVER_assume(1 <= n && n <= NMAX);
  %(T)s *tab = malloc((unsigned long)n * sizeof(%(T)s)); __CPROVER_assume(tab != 0);
  struct FIX8_RealmBase rb; rb._dtype = E_FIX8_RealmBase_RealmType_dt_set; rb._range = tab; rb._sz = (int)n;
  struct %(FS)s f; _Bool has = nondet_bool(); f.__base._rlm = has ? &rb : 0;
  long w = nondet_long(); __CPROVER_assume(0 <= w && w < n); g_w_%(S)s = w;
  int idx = field_%(S)s_get_rlm_idx(&f);
  __CPROVER_assert(has || idx == -1, "C10.field.%(S)s.no_realm_no_index");
  __CPROVER_assert(!has || (idx >= -1 && idx < rb._sz), "C10.field.%(S)s.idx_in_bounds");
  __CPROVER_assert(!has || idx < 0 || tab[idx] == f._value, "C10.field.%(S)s.idx_describes_own_value");
  __CPROVER_assert(!has || tab[w] != f._value || idx == w, "C10.field.%(S)s.member_gets_its_index");
  _Bool ok = field_%(S)s_is_valid(&f);
  __CPROVER_assert(has || ok, "C10.field.%(S)s.no_realm_is_valid");
  __CPROVER_assert(!has || !ok || (0 <= g_lb_k_%(S)s && g_lb_k_%(S)s < n && tab[g_lb_k_%(S)s] == f._value), "C10.field.%(S)s.valid_is_member");
  __CPROVER_assert(!has || ok || tab[w] != f._value, "C10.field.%(S)s.member_is_valid");
  VACUITY_PROBE();
}
'''
FIELD_BOOL = r'''
/* Field<Boolean, tag>::get_rlm_idx(): the wire character of the value ('Y' / 'N') is looked up in the field's realm */
void h_field_bool(void)
{
  long n = nondet_long(); __CPROVER_assume(1 <= n && n <= NMAX);
  char *tab = malloc((unsigned long)n); __CPROVER_assume(tab != 0);
  struct FIX8_RealmBase rb; rb._dtype = E_FIX8_RealmBase_RealmType_dt_set; rb._range = tab; rb._sz = (int)n;
  struct FIX8_Field_FIX8_Boolean_43 f; _Bool has = nondet_bool(); f.__base._rlm = has ? &rb : 0;
  _Bool v = nondet_bool(); f._value = v;
  long w = nondet_long(); __CPROVER_assume(0 <= w && w < n); g_w_char = w;
  char wire = v ? 'Y' : 'N';
  int idx = field_bool_get_rlm_idx(&f);
  __CPROVER_assert(has || idx == -1, "C10.field.bool.no_realm_no_index");
  __CPROVER_assert(!has || (idx >= -1 && idx < rb._sz), "C10.field.bool.idx_in_bounds");
  __CPROVER_assert(!has || idx < 0 || tab[idx] == wire, "C10.field.bool.idx_describes_own_value");
  __CPROVER_assert(!has || tab[w] != wire || idx == w, "C10.field.bool.member_gets_its_index");
  VACUITY_PROBE();
}
'''
POST = (HARNESS_T % dict(T='int', S='int') + HARNESS_T % dict(T='char', S='char')
        + FIELD_T % dict(T='int', S='int', FS='FIX8_Field_int_34') + FIELD_T % dict(T='char', S='char', FS='FIX8_Field_char_54') + FIELD_BOOL)

SIG_LB = 'const %(T)s *(const %(T)s *, const %(T)s *, const %(T)s &)'
SIG_BS = 'bool (const %(T)s *, const %(T)s *, const %(T)s &)'


def _proofs():
    out = []
    for S in ('int', 'char'):
        out += [
            dict(name='idx_set_' + S, harness='h_idx_set_' + S, properties=['C10'], solvers=['cadical', 'z3'], timeout=dict(quick=300, thorough=900), floor=3),
            dict(name='idx_range_' + S, harness='h_idx_range_' + S, properties=['C10'], solvers=['cadical', 'z3'], timeout=dict(quick=300, thorough=900), floor=3),
            dict(name='valid_' + S, harness='h_valid_' + S, properties=['C10'], solvers=['cadical', 'z3'], timeout=dict(quick=300, thorough=900), floor=3),
        ]
    out += [dict(name='field_int', harness='h_field_int', properties=['C10'], solvers=['cadical', 'z3'], timeout=dict(quick=300, thorough=900), floor=7),
            dict(name='field_char', harness='h_field_char', properties=['C10'], solvers=['cadical', 'z3'], timeout=dict(quick=300, thorough=900), floor=7),
            dict(name='field_bool', harness='h_field_bool', properties=['C10'], solvers=['cadical', 'z3'], timeout=dict(quick=300, thorough=900), floor=4)]
    return out


UNIT = dict(
    name='k_realm',
    tu='tu/core.cpp',
    no_follow=True,
    probe={'E_FIX8_RealmBase_RealmType_dt_range': 'FIX8::RealmBase::dt_range'},
    emit=dict(calls={'FIX8::RealmBase::get_rlm_idx': lambda em, n, args: dict(c='get_rlm_idx_char' if 'char' in em.tstr(args[0]['type']) else 'get_rlm_idx_int',
                                                                             sig='int (const %s &) const' % ('char' if 'char' in em.tstr(args[0]['type']) else 'int')),
                     'FIX8::RealmBase::is_valid': lambda em, n, args: dict(c='is_valid_char' if 'char' in em.tstr(args[0]['type']) else 'is_valid_int',
                                                                          sig='bool (const %s &) const' % ('char' if 'char' in em.tstr(args[0]['type']) else 'int')),
                     'lower_bound|' + SIG_LB % dict(T='int'): 'lower_bound_int', 'lower_bound|' + SIG_LB % dict(T='char'): 'lower_bound_char',
                     'binary_search|' + SIG_BS % dict(T='int'): 'binary_search_int', 'binary_search|' + SIG_BS % dict(T='char'): 'binary_search_char'},
              lazy_structs=[r'FIX8::RealmBase', r'FIX8::Field<.*>', r'FIX8::BaseField'],
              bases={'FIX8::Field<int, 34>': 'FIX8::BaseField', 'FIX8::Field<char, 54>': 'FIX8::BaseField', 'FIX8::Field<FIX8::Boolean, 43>': 'FIX8::BaseField', 'FIX8::Field<FIX8::EnumType<FIX8::FieldTrait::ft_Boolean>, 43>': 'FIX8::BaseField'},
              type_map=[(r'FIX8::RealmBase::RealmType', 'unsigned int'), (r'FIX8::FieldTrait::FieldType', 'unsigned int')]),
    prelude=PRELUDE,
    functions=[
        dict(q='FIX8::RealmBase::get_rlm_idx', sig='int (const int &) const', cname='get_rlm_idx_int'),
        dict(q='FIX8::RealmBase::get_rlm_idx', sig='int (const char &) const', cname='get_rlm_idx_char'),
        dict(q='FIX8::RealmBase::is_valid', sig='bool (const int &) const', cname='is_valid_int'),
        dict(q='FIX8::RealmBase::is_valid', sig='bool (const char &) const', cname='is_valid_char'),
        # the per-field wrappers MessageBase::print and the validators go through (one instantiation per value type)
        dict(q='FIX8::Field::get_rlm_idx', filter='FIX8::Field', mangled='_ZNK4FIX85FieldIiLt34EE11get_rlm_idxEv', cname='field_int_get_rlm_idx'),
        dict(q='FIX8::Field::is_valid', filter='FIX8::Field', mangled='_ZNK4FIX85FieldIiLt34EE8is_validEv', cname='field_int_is_valid'),
        dict(q='FIX8::Field::get_rlm_idx', filter='FIX8::Field', mangled='_ZNK4FIX85FieldIcLt54EE11get_rlm_idxEv', cname='field_char_get_rlm_idx'),
        dict(q='FIX8::Field::is_valid', filter='FIX8::Field', mangled='_ZNK4FIX85FieldIcLt54EE8is_validEv', cname='field_char_is_valid'),
        dict(q='FIX8::Field::get_rlm_idx', filter='FIX8::Field', mangled='_ZNK4FIX85FieldINS_8EnumTypeILj8EEELt43EE11get_rlm_idxEv', cname='field_bool_get_rlm_idx'),
    ],
    postlude=POST,
    proofs=_proofs(),
    trusted_base=['ASSUMED: std::lower_bound / std::binary_search satisfy their ISO C++ contracts on a sorted range (model bodies with a ghost partition index in specs/k_realm.py)',
                  'generated realm tables are strictly sorted and _descriptions has _sz entries (facts about f8c output, not proved here)'],
    assumptions=['only the int and char instantiations are verified (f8String and fp_type share the template text but not the proof)',
                 'table length 1..2^24'],
)
