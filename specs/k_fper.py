"""K-fper (C26 file half, C27): FilePersister::put x2, get x2, get_last_seqnum (runtime/filepersist.cpp), bodies from the clang AST, over a ghost model of
the two files (index file: fixed-size records in slots; data file: a length, written only by appending) and of the in-memory index
(std::map<uint32_t, Prec>, single-witness abstraction as in K-mper).

Every system-call model (lseek / write / read) applies its effect to the ghost files and then -- because a crash can happen after any completed call --
asserts the CRASH INVARIANT of the disk state:  every index record on disk refers to bytes that are on disk  (so that a reopen, which replays the index,
never maps a number to bytes that were not stored for it, and a later append cannot slide under a dangling record).
  C27  put(seq, text): the index record lands at the end of the index file (no record overwritten), the text is appended to the data file at exactly the
       offset and with the size the record names; REFUTED: after the index write and before the data write the record refers to bytes that are not there.
       put(sender, target): lands on slot 0; REFUTED: slot 0 may hold a message record (a message stored before any control record) which is destroyed.
  C26  per-operation store contract over the in-memory index: refused for 0 / occupied / unopened with nothing written; get reads exactly the region the
       record names; control get returns the last pair put; last is the largest key.
"""
PRE_STRUCTS = r'''
struct strm { const char *data; unsigned long size; };
struct map_m { int dummy; };
struct iter_m { _Bool end; unsigned key; _Bool isw; };
struct pair_ib { struct iter_m first; _Bool second; };
'''
PRELUDE = r'''
#include <stdlib.h>
struct pair_up { unsigned first; struct FIX8_Prec second; };             /* std::pair<const uint32_t, Prec> */
#define VACUITY_PROBE() __CPROVER_assert(0, "vacuity-probe")
long nondet_long(void); unsigned nondet_uint(void); _Bool nondet_bool(void); unsigned long nondet_ulong(void); int nondet_int(void);
#define IOD 3
#define FOD 4
#define RECSZ ((long)sizeof(struct FIX8_IPrec))
/* ---- ghost: the in-memory index, single witness ---- */
_Bool g_found_valid; unsigned g_found_key; _Bool g_cursor_set;
unsigned g_wkey; _Bool g_wpresent; struct pair_up g_wentry; _Bool g_empty; unsigned g_maxkey; struct pair_up g_cursor;
#define STORE_OK (!(g_wpresent && g_empty) && (!g_wpresent || g_maxkey >= g_wkey) && (!g_wpresent || g_wentry.first == g_wkey))
/* ---- ghost: the two files ---- */
long g_idx_len, g_dat_len;                 /* lengths in bytes (index: a whole number of records) */
long g_idx_pos, g_dat_pos;                 /* file positions */
_Bool g_slot0_is_message;                  /* the first index record on disk is a message record (a message was stored before any control record) */
_Bool g_syscalls_fail;                     /* whether system calls may fail in this scenario */
_Bool g_c27;                               /* this harness copy belongs to the crash-safety property */
const char *g_assigned_from; unsigned long g_assigned_n;
/* what the operation under test wrote / read */
int g_idx_writes, g_dat_writes; unsigned g_dat_reads; long g_idx_write_at; struct FIX8_IPrec g_idx_written; long g_dat_write_at, g_dat_write_n; const char *g_dat_write_buf; long g_dat_read_at, g_dat_read_n;
_Bool g_new_record_dangling;               /* an index record written by this operation names bytes beyond the end of the data file */
static void crash_point(const char *after)
{
  /* the disk state a crash right now would leave behind */
  __CPROVER_assert(!g_c27 || !g_new_record_dangling, "C27.crash.every_index_record_on_disk_refers_to_bytes_that_are_on_disk");
}
long sys_lseek(int fd, long off, int whence)
{
  if (g_syscalls_fail && nondet_bool()) return -1;
  long *pos = fd == IOD ? &g_idx_pos : &g_dat_pos; long len = fd == IOD ? g_idx_len : g_dat_len;
  __CPROVER_assert(fd == IOD || fd == FOD, "model: lseek on one of the two files");
  if (whence == 0) *pos = off; else if (whence == 2) *pos = len + off; else *pos = *pos + off;
  return *pos;
}
long sys_write(int fd, const void *buf, unsigned long n)
{
  if (g_syscalls_fail && nondet_bool()) return -1;
  if (fd == IOD) {
    __CPROVER_assert(n == (unsigned long)RECSZ && g_idx_pos % RECSZ == 0, "model: the index file is written one whole record at a time");
    g_idx_writes++; g_idx_write_at = g_idx_pos; g_idx_written = *(const struct FIX8_IPrec *)buf;
    if (g_idx_pos + RECSZ > g_idx_len) g_idx_len = g_idx_pos + RECSZ;
    g_idx_pos += RECSZ;
    if (g_idx_written._seq != 0 && g_idx_written._prec._offset + (long)g_idx_written._prec._size > g_dat_len) g_new_record_dangling = 1;
  } else {
    __CPROVER_assert(fd == FOD, "model: write on one of the two files");
    g_dat_writes++; g_dat_write_at = g_dat_pos; g_dat_write_n = (long)n; g_dat_write_buf = (const char *)buf;
    if (g_dat_pos + (long)n > g_dat_len) g_dat_len = g_dat_pos + (long)n;
    g_dat_pos += (long)n;
    if (g_idx_writes && g_idx_written._seq != 0 && g_idx_written._prec._offset + (long)g_idx_written._prec._size <= g_dat_len) g_new_record_dangling = 0;
  }
  crash_point("write");
  return (long)n;
}
/* ---- reopen: the index file as a sequence of g_nslots records; the watched slot g_wslot holds (g_wseq, g_wprec) and is the FIRST record with that number ---- */
long g_nslots, g_slot; long g_wslot; unsigned g_wseq; struct FIX8_Prec g_wprec; _Bool g_index_read_fails;
int g_open_calls;
int sys_open(const char *path, int flags, ...) { __CPROVER_assert((flags & 02000) == 0, "C27.reopen.files_are_opened_for_positioned_writes_not_in_append_mode"); int c = g_open_calls++; return nondet_bool() ? -1 : (c % 2 == 0 ? FOD : IOD); }   /* initialise opens the data file first, then the index file */
void iprec_ctor0(struct FIX8_IPrec *r) { r->_seq = 0; r->_prec._offset = 0; r->_prec._size = 0; }
long sys_read(int fd, void *buf, unsigned long n)
{
  if (fd == IOD) {
    /* index replay */
    __CPROVER_assert(n == (unsigned long)RECSZ, "model: the index file is read one whole record at a time");
    if (g_index_read_fails && nondet_bool()) return -1;
    if (g_slot >= g_nslots) return 0;
    struct FIX8_IPrec *r = (struct FIX8_IPrec *)buf;
    if (g_slot == g_wslot) { r->_seq = g_wseq; r->_prec = g_wprec; }
    else { r->_seq = nondet_uint(); r->_prec._offset = nondet_long(); r->_prec._size = nondet_int(); __CPROVER_assume(g_slot > g_wslot || r->_seq != g_wseq); }
    g_slot++;
    return RECSZ;
  }
  if (g_syscalls_fail && nondet_bool()) return -1;
  __CPROVER_assert(fd == FOD, "model: these operations read the data file only");
  __CPROVER_assert(n <= __CPROVER_OBJECT_SIZE(buf) - __CPROVER_POINTER_OFFSET(buf), "C26.file.read_buffer_is_large_enough_for_the_record");
  g_dat_reads++; g_dat_read_at = g_dat_pos; g_dat_read_n = (long)n;
  if (n > 2000000000ul || g_dat_pos + (long)n > g_dat_len) return g_dat_len > g_dat_pos ? g_dat_len - g_dat_pos : 0;      /* short read at the end of the file */
  g_dat_pos += (long)n; return (long)n;
}
/* ---- ASSUMED: std::map<uint32_t, Prec> in the single-witness abstraction (K-mper), std::string ---- */
void pair_up_ctor(struct pair_up *p, const unsigned *k, const struct FIX8_Prec *v) { p->first = *k; p->second = *v; }
void pair_up_ctor_int(struct pair_up *p, int *k, const struct FIX8_Prec *v) { p->first = (unsigned)*k; p->second = *v; }
struct pair_ib map_insert(struct map_m *m, struct pair_up *v)
{
  struct pair_ib r; r.first.end = 0; r.first.key = v->first;
  if (v->first == g_wkey) { if (g_wpresent) r.second = 0; else { g_wpresent = 1; g_wentry = *v; r.second = 1; } r.first.isw = 1; }
  else { r.second = nondet_bool(); r.first.isw = 0; }
  if (r.second) { if (g_empty || v->first > g_maxkey) g_maxkey = v->first; g_empty = 0; }
  return r;
}
struct iter_m map_find(struct map_m *m, const unsigned *k)
{
  struct iter_m it; it.key = *k; g_cursor_set = 0;
  if (*k == g_wkey) { it.end = !g_wpresent; it.isw = 1; }
  else { it.end = nondet_bool(); if (g_empty || *k > g_maxkey) it.end = 1; it.isw = 0; if (g_found_valid && g_found_key == *k) it.end = 0; if (!it.end) { g_found_valid = 1; g_found_key = *k; } }
  return it;
}
struct iter_m map_end(struct map_m *m) { struct iter_m it; it.end = 1; it.key = 0; it.isw = 0; return it; }
_Bool iter_eq(const struct iter_m *a, const struct iter_m *b) { return a->end == b->end && (a->end || a->key == b->key); }
_Bool iter_ne(const struct iter_m *a, const struct iter_m *b) { return !iter_eq(a, b); }
struct pair_up *iter_arrow(const struct iter_m *it)
{
  __CPROVER_assert(!it->end, "map iterator dereferenced at end()");
  if (it->isw) return &g_wentry;
  if (g_cursor_set && g_cursor.first == it->key) return &g_cursor;       /* the same element again: the same record */
  g_cursor_set = 1;
  g_cursor.first = it->key; g_cursor.second._offset = nondet_long(); g_cursor.second._size = nondet_int();
  /* every record in the index names bytes that are on disk (the crash invariant of the files; the control record's two numbers are not a region) */
  __CPROVER_assume(it->key == 0 || (g_cursor.second._offset >= 0 && g_cursor.second._offset <= g_dat_len && g_cursor.second._size >= 0 && g_cursor.second._size <= 1000000 && (long)g_cursor.second._size <= g_dat_len - g_cursor.second._offset));
  return &g_cursor;
}
struct iter_m *iter_inc(struct iter_m *it)
{
  __CPROVER_assert(!it->end, "map iterator incremented at end()");
  unsigned k = it->key; _Bool e = nondet_bool(); unsigned nk = nondet_uint();
  __CPROVER_assume(e || (nk > k && nk <= g_maxkey));
  __CPROVER_assume(!(k < g_maxkey) || !e);
  __CPROVER_assume(!(g_wpresent && k < g_wkey) || (!e && nk <= g_wkey));
  __CPROVER_assume(g_wpresent || e || nk != g_wkey);
  it->end = e; g_cursor_set = 0;
  if (!e) { it->key = nk; it->isw = (nk == g_wkey); }
  return it;
}
/* ghost: what the range retrieval handed to the callback */
unsigned g_cb_records; int g_cb_done; unsigned g_cb_lastkey; _Bool g_cb_order_ok, g_cb_after_done, g_cb_w_region_ok; unsigned g_cb_w_count; unsigned g_rctx_begin, g_rctx_end;
struct pair_us { unsigned first; struct strm second; };
struct FIX8_Session_RetransmissionContext;
_Bool callback_invoke(void *session, long pmf, const struct pair_us *with, struct FIX8_Session_RetransmissionContext *rctx);
unsigned ses_get_next_send_seq(const void *s) { return nondet_uint(); }
void pair_us_ctor_int_cstr(struct pair_us *p, int *k, const char *v) { p->first = (unsigned)*k; p->second.data = v; p->second.size = 0; }
void pair_us_ctor_uint_str(struct pair_us *p, const unsigned *k, const struct strm *v) { p->first = *k; p->second = *v; }
_Bool map_empty(const struct map_m *m) { return g_empty; }
unsigned long map_size(const struct map_m *m) { return g_empty ? 0 : 1 + (nondet_ulong() % 1000000); }
struct iter_m map_rbegin(const struct map_m *m) { struct iter_m it; it.end = g_empty; it.key = g_maxkey; it.isw = 0; return it; }
char g_strbuf[1000001];
void str_fill_ctor(struct strm *s, unsigned long n, char c, void *alloc) { __CPROVER_assert(n <= 1000000, "model: strings of at most 1 MB"); s->data = g_strbuf; s->size = n; }   /* std::string(n, c): storage for n bytes (one shared 1 MB object in this model) */
char *str_at(struct strm *s, unsigned long i) { __CPROVER_assert(i <= s->size, "model: operator[] inside the string"); return (char *)s->data + i; }
void str_swap(struct strm *a, struct strm *b) { struct strm t = *a; *a = *b; *b = t; g_assigned_from = a->data; g_assigned_n = a->size; }
unsigned long str_size(const struct strm *s) { return s->size; }
const char *str_data(const struct strm *s) { return s->data; }
struct strm *str_assign(struct strm *s, const char *p, unsigned long n) { g_assigned_from = p; g_assigned_n = n; s->data = p; s->size = n; return s; }
'''
POST = r'''
static void mk(struct FIX8_FilePersister *fp)
{
  g_wkey = nondet_uint(); g_wpresent = nondet_bool(); g_empty = nondet_bool(); g_maxkey = nondet_uint();
  g_wentry.first = g_wkey; g_wentry.second._offset = nondet_long(); g_wentry.second._size = nondet_int();
  __CPROVER_assume(STORE_OK);
  fp->_iod = IOD; fp->_fod = FOD; fp->__base._opened = nondet_bool();
  g_idx_len = nondet_long(); g_dat_len = nondet_long(); __CPROVER_assume(g_idx_len >= 0 && g_idx_len <= 1000000 * RECSZ && g_idx_len % RECSZ == 0 && g_dat_len >= 0 && g_dat_len <= 1000000000L);
  g_idx_pos = nondet_long(); g_dat_pos = nondet_long(); __CPROVER_assume(g_idx_pos >= 0 && g_idx_pos <= g_idx_len && g_idx_pos % RECSZ == 0 && g_dat_pos >= 0 && g_dat_pos <= g_dat_len);
  g_slot0_is_message = nondet_bool(); __CPROVER_assume(!(g_slot0_is_message && g_idx_len == 0));
  /* the existing records are consistent: the watched one names bytes that are on disk */
  __CPROVER_assume(!g_wpresent || g_wkey == 0 || (g_wentry.second._offset >= 0 && g_wentry.second._offset <= g_dat_len && g_wentry.second._size >= 0 && (long)g_wentry.second._size <= g_dat_len - g_wentry.second._offset));
  g_idx_writes = 0; g_dat_writes = 0; g_dat_reads = 0; g_new_record_dangling = 0; g_syscalls_fail = nondet_bool(); g_found_valid = 0; g_cursor_set = 0;
}
/* put(seq, text) */
void h_put_msg(void)
{
  struct FIX8_FilePersister fp; mk(&fp); g_c27 = (PROP_ID == 27);
  unsigned seq = nondet_uint(); g_wkey = seq; g_wentry.first = seq; __CPROVER_assume(STORE_OK);
  _Bool was = g_wpresent; long idx_len0 = g_idx_len, dat_len0 = g_dat_len;
  struct strm text; text.size = nondet_ulong(); __CPROVER_assume(text.size <= 100000); char td[8]; text.data = td;
  _Bool r = fper_put_msg(&fp, seq, &text);
  _Bool refused = !fp.__base._opened || seq == 0 || was;
  __CPROVER_assert(!refused || (!r && g_idx_writes == 0 && g_dat_writes == 0), "C26.file.put_refused_for_zero_occupied_or_unopened_and_nothing_written");
  __CPROVER_assert(!r || (g_idx_writes == 1 && g_dat_writes == 1), "C26.file.put_writes_one_index_record_and_the_text");
  __CPROVER_assert(g_idx_writes == 0 || (g_idx_write_at == idx_len0 && g_idx_written._seq == seq), "C27.put.index_record_is_appended_no_record_overwritten");
  __CPROVER_assert(g_dat_writes == 0 || (g_dat_write_at == dat_len0 && g_dat_write_n == (long)text.size && g_dat_write_buf == td), "C27.put.text_is_appended_to_the_data_file");
  __CPROVER_assert(g_idx_writes == 0 || (g_dat_writes == 1 && g_idx_written._prec._offset == dat_len0 && (long)g_idx_written._prec._size == (long)text.size), "C27.put.index_record_names_the_region_already_written");
  __CPROVER_assert(!r || (g_wpresent && g_wentry.second._offset == dat_len0 && (unsigned long)g_wentry.second._size == text.size), "C26.file.put_indexes_the_region_it_wrote");
  __CPROVER_assert(STORE_OK, "C26.file.put_keeps_index_invariant");
  VACUITY_PROBE();
}
/* put(sender, target): the control record */
void h_put_ctrl(void)
{
  struct FIX8_FilePersister fp; mk(&fp); g_c27 = (PROP_ID == 27);
  g_wkey = 0; g_wentry.first = 0; __CPROVER_assume(STORE_OK);
  unsigned s1 = nondet_uint(), t1 = nondet_uint(); __CPROVER_assume(!g_syscalls_fail);
  _Bool r = fper_put_ctrl(&fp, s1, t1);
  __CPROVER_assert(r == fp.__base._opened, "C26.file.control_put_succeeds_when_open");
  __CPROVER_assert(!r || (g_idx_writes == 1 && g_dat_writes == 0 && g_idx_write_at == 0 && g_idx_written._seq == 0 && g_idx_written._prec._offset == (long)s1 && g_idx_written._prec._size == (int)t1), "C26.file.control_put_writes_the_pair_to_slot_zero");
  __CPROVER_assert(!r || !g_slot0_is_message, "C27.control_put_never_overwrites_a_message_record");
  unsigned s = nondet_uint(), t = nondet_uint();
  _Bool g = fper_get_ctrl(&fp, &s, &t);
  __CPROVER_assert(!r || (g && s == s1 && t == t1), "C26.file.control_get_returns_last_stored_pair");
  VACUITY_PROBE();
}
/* get(seq, text) */
void h_get_msg(void)
{
  struct FIX8_FilePersister fp; mk(&fp);
  unsigned seq = nondet_uint(); g_wkey = seq; g_wentry.first = seq; __CPROVER_assume(STORE_OK); __CPROVER_assume(!g_syscalls_fail);
  __CPROVER_assume(!g_wpresent || (g_wentry.second._offset >= 0 && g_wentry.second._offset <= g_dat_len && g_wentry.second._size >= 0 && (long)g_wentry.second._size <= g_dat_len - g_wentry.second._offset && g_wentry.second._size <= 1000000));   /* records of any length up to 1 MB, not only up to FIX8_MAX_MSG_LENGTH */
  struct strm out; out.data = 0; out.size = 0;
  _Bool g = fper_get_msg(&fp, seq, &out);
  __CPROVER_assert(g == (fp.__base._opened && seq != 0 && g_wpresent), "C26.file.get_hits_exactly_stored_numbers");
  __CPROVER_assert(!g || (g_dat_reads == 1 && g_dat_read_at == g_wentry.second._offset && g_dat_read_n == (long)g_wentry.second._size && g_assigned_n == (unsigned long)g_wentry.second._size), "C26.file.get_reads_exactly_the_region_the_record_names");
  __CPROVER_assert(g_idx_writes == 0 && g_dat_writes == 0, "C26.file.get_writes_nothing");
  VACUITY_PROBE();
}
_Bool callback_invoke(void *session, long pmf, const struct pair_us *with, struct FIX8_Session_RetransmissionContext *rctx)
{
  if (g_cb_done) g_cb_after_done = 1;
  g_rctx_begin = rctx->_begin; g_rctx_end = rctx->_end;
  if (rctx->_no_more_records) { if (g_cb_done < 100) g_cb_done++; return 1; }
  g_cb_records++;
  if (!(with->first > g_cb_lastkey)) g_cb_order_ok = 0;
  g_cb_lastkey = with->first;
  if (with->first == g_wkey) { if (g_cb_w_count < 100) g_cb_w_count++; g_cb_w_region_ok = g_dat_read_at == g_wentry.second._offset && g_dat_read_n == (long)g_wentry.second._size && with->second.size == (unsigned long)g_wentry.second._size; }
  return 1;
}
/* range retrieval: exactly the stored records of [from, to] (to = 0: up to the last), ascending, each read from the region its record names, then completion */
void h_range(void)
{
  struct FIX8_FilePersister fp; mk(&fp); int session; __CPROVER_assume(!g_syscalls_fail);
  unsigned from = nondet_uint(), to = nondet_uint();
  __CPROVER_assume(from >= 1 && g_wkey != 0 && (g_empty || (g_maxkey >= 1 && g_maxkey < 4294967295u)));
  __CPROVER_assume(!g_wpresent || g_wentry.second._size <= 1000000);
  g_cb_records = 0; g_cb_done = 0; g_cb_lastkey = 0; g_cb_order_ok = 1; g_cb_w_count = 0; g_cb_after_done = 0; g_cb_w_region_ok = 0;
  unsigned last = g_empty ? 0 : g_maxkey, finish = to == 0 ? last : to;
  unsigned r = fper_get_range(&fp, from, to, &session, 0);
  _Bool w_in_range = g_wpresent && from <= g_wkey && g_wkey <= finish;
  __CPROVER_assert(g_cb_done == 1 && !g_cb_after_done, "C26.file.range.completion_signalled_exactly_once_and_last");
  __CPROVER_assert(g_cb_order_ok, "C26.file.range.records_visited_in_ascending_order");
  __CPROVER_assert(g_cb_w_count == (w_in_range ? 1u : 0u), "C26.file.range.visits_exactly_the_stored_records_in_range");
  __CPROVER_assert(!w_in_range || g_cb_w_region_ok, "C26.file.range.record_text_is_read_from_the_region_its_record_names");
  __CPROVER_assert(r == g_cb_records, "C26.file.range.returns_the_number_of_records_visited");
  __CPROVER_assert(g_rctx_begin == from && g_rctx_end == to, "C26.file.range.context_carries_the_requested_range");
  VACUITY_PROBE();
}
/* reopen: initialise()'s replay of the index file rebuilds the in-memory index: the first record of a number wins */
void h_reopen(void)
{
  struct FIX8_FilePersister fp; mk(&fp);
  g_empty = 1; g_wpresent = 0; g_maxkey = 0;                                   /* a fresh object: the in-memory index is empty */
  g_open_calls = 0; g_nslots = nondet_long(); __CPROVER_assume(g_nslots >= 0 && g_nslots <= 1000000); g_slot = 0; g_index_read_fails = nondet_bool();
  g_wslot = nondet_long(); __CPROVER_assume(g_wslot >= 0); g_wseq = nondet_uint(); g_wprec._offset = nondet_long(); g_wprec._size = nondet_int();
  g_wkey = g_wseq; g_wentry.first = g_wseq;
  _Bool r = fper_replay_index(&fp, 0, 0, 0);
  _Bool complete = g_slot >= g_nslots;                                         /* the replay reached the end of the index file */
  __CPROVER_assert(!(complete && g_wslot < g_nslots) || (g_wpresent && g_wentry.second._offset == g_wprec._offset && g_wentry.second._size == g_wprec._size), "C27.reopen.every_index_record_on_disk_is_in_the_rebuilt_index_first_record_of_a_number_wins");
  __CPROVER_assert(!(g_wslot >= g_nslots) || !g_wpresent, "C27.reopen.no_number_appears_in_the_index_without_a_record_on_disk");
  __CPROVER_assert(g_idx_writes == 0 && g_dat_writes == 0, "C27.reopen.replay_writes_nothing");
  VACUITY_PROBE();
}
void h_nearest(void)
{
  struct FIX8_FilePersister fp; mk(&fp);
  unsigned req = nondet_uint(), last = nondet_uint();
  __CPROVER_assume(req >= 1 && last < 4294967295u);
  unsigned r = fper_nearest(&fp, req, last);
  __CPROVER_assert(r == 0 || (req <= r && r <= last), "C26.file.nearest_inside_requested_range");
  __CPROVER_assert(!(g_wpresent && req <= g_wkey && g_wkey <= last && g_wkey != 0) || (r != 0 && r <= g_wkey), "C26.file.nearest_not_above_any_stored_number_in_range");
  VACUITY_PROBE();
}
void h_last(void)
{
  struct FIX8_FilePersister fp; mk(&fp);
  unsigned to = nondet_uint();
  unsigned r = fper_get_last(&fp, &to);
  __CPROVER_assert(r == to && r == (g_empty ? 0 : g_maxkey) && (!g_wpresent || r >= g_wkey), "C26.file.last_is_largest_stored");
  VACUITY_PROBE();
}
'''

def _is_replay_block(n):
    """the branch of FilePersister::initialise that opens existing files and replays the index: the compound statement that directly contains the `while (true)` reading loop"""
    if n.get('kind') != 'CompoundStmt':
        return False
    return any(isinstance(c, dict) and c.get('kind') == 'WhileStmt' for c in n.get('inner', []))


def _split(text):
    """one copy of each multi-property harness per property: assertion lines are kept only when their label starts with that property's id; PROP_ID is that id as a number"""
    import re
    out = []
    for chunk in re.split(r'(?m)^(?=/\* |static |void h_)', text):
        m = re.search(r'(?m)^void (h_\w+)\(void\)', chunk)
        props = sorted(set(re.findall(r'__CPROVER_assert\(.*"(C\d\d)\.', chunk)))
        if not m or len(props) < 2:
            out.append(chunk.replace('PROP_ID', props[0][1:] if props else '0'))
            continue
        for p in props:
            lines = []
            for ln in chunk.split('\n'):
                a = re.search(r'__CPROVER_assert\(.*"(C\d\d)\.', ln)
                if a and a.group(1) != p:
                    continue
                lines.append(ln.replace('void %s(void)' % m.group(1), 'void %s_%s(void)' % (m.group(1), p.lower())).replace('PROP_ID', p[1:]))
            out.append('\n'.join(lines))
    return ''.join(out)


MAP = r'std::map<unsigned int, FIX8::Prec>'
UNIT = dict(
    name='k_fper', tu='tu/rt_filepersist.cpp', no_follow=True,
    pre_structs=PRE_STRUCTS,
    full_structs=[r'FIX8::Prec', r'FIX8::IPrec'],
    emit=dict(
        pod=[r'FIX8::Prec', r'std::pair<std::_Rb_tree_iterator<.*>, bool>', r'std::_Rb_tree_(const_)?iterator<.*>', r'std::reverse_iterator<.*>'],
        bases={'FIX8::FilePersister': 'FIX8::Persister'},
        default_args={'str_fill_ctor': {2: '0'}, 'sys_open': {2: '0'}},
        type_alias=[(r'std::basic_string<char>::reference', 'char &')],
        constants={'SEEK_SET': '0', 'SEEK_END': '2', 'FIX8_MAX_MSG_LENGTH': '8192'},
        type_map=[(r'(const )?(std::basic_string<char>|std::string|FIX8::f8String)', 'struct strm'), (MAP, 'struct map_m'), (r'FIX8::FilePersister::Index', 'struct map_m'),
                  (r'std::_Rb_tree_(const_)?iterator<std::pair<const unsigned int, FIX8::Prec>>', 'struct iter_m'),
                  (r'std::reverse_iterator<std::_Rb_tree_const_iterator<std::pair<const unsigned int, FIX8::Prec>>>', 'struct iter_m'),
                  (r'std::pair<std::_Rb_tree_iterator<std::pair<const unsigned int, FIX8::Prec>>, bool>', 'struct pair_ib'),
                  (r'std::pair<const unsigned int, FIX8::Prec>', 'struct pair_up'), (r'off_t|__off_t', 'long'), (r'FIX8::Session(?!::)', 'void'), (r'bool \(FIX8::Session::\*\)\(.*\)', 'long'),
                  (r'std::pair<const unsigned int, const std::basic_string<char>>|FIX8::Session::SequencePair', 'struct pair_us'), (r'std::allocator<char>', 'void *'), (r'ssize_t|__ssize_t', 'long')],
        lazy_structs=[r'FIX8::FilePersister', r'FIX8::Persister', r'FIX8::Prec', r'FIX8::IPrec', r'FIX8::Session::RetransmissionContext'],
        ptr_to_member_call='callback_invoke',
        calls_rx=[(r'std::_Rb_tree_(const_)?iterator<std::pair<const unsigned int, FIX8::Prec>>::operator->', 'iter_arrow'),
                  (r'std::reverse_iterator<.*FIX8::Prec.*>::operator->', 'iter_arrow'),
                  ],
        calls={MAP + '::insert': dict(c='map_insert', sig='std::pair<iterator, bool> (std::pair<const unsigned int, FIX8::Prec> &&)'),
               MAP + '::find': dict(c='map_find', sig='iterator (const unsigned int &)'), MAP + '::end': 'map_end', MAP + '::empty': 'map_empty', MAP + '::rbegin': 'map_rbegin',
               'operator==': 'iter_eq', 'operator!=': 'iter_ne',
               'lseek': 'sys_lseek', 'write': 'sys_write', 'read': 'sys_read', 'open': 'sys_open', 'std::basic_string<char>::c_str': 'str_data',
               'std::map<unsigned int, FIX8::Prec>::size': 'map_size',
               'std::basic_string<char>::size': 'str_size', 'std::basic_string<char>::data': 'str_data', 'std::basic_string<char>::assign': 'str_assign', 'std::basic_string<char>::swap': dict(c='str_swap', sig='void (std::basic_string<char> &)'), 'std::basic_string<char>::operator[]': dict(c='str_at', sig='char &(unsigned long)'),
               'std::basic_string<char>::basic_string': 'str_fill_ctor',
               'std::pair<const unsigned int, FIX8::Prec>::pair|void (int &&, FIX8::Prec &)': 'pair_up_ctor_int', 'std::pair<const unsigned int, FIX8::Prec>::pair': 'pair_up_ctor',
               'std::_Rb_tree_const_iterator<std::pair<const unsigned int, FIX8::Prec>>::operator++': 'iter_inc', 'FIX8::Session::get_next_send_seq': 'ses_get_next_send_seq',
               'FIX8::Session::RetransmissionContext::RetransmissionContext': 'rctx_ctor',
               'FIX8::FilePersister::get_last_seqnum': dict(c='fper_get_last', sig='unsigned int (unsigned int &) const'), 'FIX8::FilePersister::find_nearest_highest_seqnum': 'fper_nearest',
               'std::pair<const unsigned int, const std::basic_string<char>>::pair|void (int &&, const char (&)[1])': 'pair_us_ctor_int_cstr',
               'std::pair<const unsigned int, const std::basic_string<char>>::pair': 'pair_us_ctor_uint_str',
               'FIX8::IPrec::IPrec|void ()': 'iprec_ctor0', 'FIX8::IPrec::IPrec': 'iprec_ctor', 'FIX8::Prec::Prec': 'prec_ctor'}),
    prelude=PRELUDE,
    force_fields={'FIX8::FilePersister': [('_index', MAP), ('_fod', 'int'), ('_iod', 'int')], 'FIX8::Persister': [('_opened', 'bool')]},
    functions=[
        dict(q='FIX8::Prec::Prec', sig='void (const off_t, const int32_t)', cname='prec_ctor', self_type='FIX8::Prec *'),
        dict(q='FIX8::IPrec::IPrec', sig='void (const uint32_t, const off_t, const int32_t)', cname='iprec_ctor', self_type='FIX8::IPrec *'),
        dict(q='FIX8::FilePersister::put', sig='bool (const unsigned int, const unsigned int)', cname='fper_put_ctrl'),
        dict(q='FIX8::FilePersister::put', sig='bool (const unsigned int, const FIX8::f8String &)', cname='fper_put_msg'),
        dict(q='FIX8::FilePersister::get', sig='bool (unsigned int &, unsigned int &) const', cname='fper_get_ctrl'),
        dict(q='FIX8::FilePersister::get', sig='bool (const unsigned int, FIX8::f8String &) const', cname='fper_get_msg'),
        dict(q='FIX8::FilePersister::get_last_seqnum', sig=None, cname='fper_get_last'),
        dict(q='FIX8::FilePersister::initialise', sig='bool (const FIX8::f8String &, const FIX8::f8String &, bool)', cname='fper_replay_index', select_node=_is_replay_block,
             loops={0: dict(assigns='iprec, g_slot, g_wpresent, g_wentry, g_empty, g_maxkey, g_cursor, g_cursor_set',
                            invariants=[('inv.replay', 'g_slot >= 0 && g_slot <= g_nslots && STORE_OK && g_wkey == g_wseq && (g_slot > g_wslot ? (g_wpresent && g_wentry.second._offset == g_wprec._offset && g_wentry.second._size == g_wprec._size) : !g_wpresent)')])}),
        dict(q='FIX8::Session::RetransmissionContext::RetransmissionContext', sig=None, cname='rctx_ctor', self_type='FIX8::Session::RetransmissionContext *'),
        dict(q='FIX8::FilePersister::find_nearest_highest_seqnum', sig=None, cname='fper_nearest',
             loops={0: dict(assigns='startseqnum, g_cursor, g_cursor_set, g_found_valid, g_found_key', invariants=[('inv.scan', 'requested <= startseqnum && startseqnum <= last + 1u && (!(g_wpresent && requested <= g_wkey && g_wkey < startseqnum && g_wkey != 0) )')],
                            decreases='last + 1u - startseqnum')}),
        dict(q='FIX8::FilePersister::get', sig='unsigned int (const unsigned int, const unsigned int, FIX8::Session &, bool (FIX8::Session::*)(const Session::SequencePair &, Session::RetransmissionContext &)) const', cname='fper_get_range',
             loops={0: dict(assigns='itr, recs_sent, g_cursor, g_cursor_set, g_cb_records, g_cb_done, g_cb_lastkey, g_cb_order_ok, g_cb_w_count, g_cb_after_done, g_cb_w_region_ok, g_rctx_begin, g_rctx_end, g_dat_pos, g_dat_reads, g_dat_read_at, g_dat_read_n',
                            invariants=[('inv.iter', '!itr.end && itr.key >= 1u && itr.key >= from && itr.isw == (itr.key == g_wkey) && (!itr.isw || g_wpresent)'),
                                        ('inv.count', 'g_cb_done == 0 && !g_cb_after_done && g_cb_records == recs_sent && recs_sent < itr.key && (recs_sent == 0u || (g_rctx_begin == from && g_rctx_end == to))'),
                                        ('inv.order', 'g_cb_order_ok && g_cb_lastkey < itr.key && g_cb_lastkey <= finish'),
                                        ('inv.witness', 'g_cb_w_count == ((g_wpresent && from <= g_wkey && g_wkey <= g_cb_lastkey) ? 1u : 0u) && (g_cb_w_count == 0u || g_cb_w_region_ok) && !(g_wpresent && from <= g_wkey && g_cb_lastkey < g_wkey && g_wkey < itr.key)'),
                                        ('inv.file', 'g_dat_pos >= 0 && g_dat_pos <= g_dat_len && !g_cursor_set')])}),
    ],
    postlude=_split(POST),
    proofs=[
        dict(name='put_msg_c26', harness='h_put_msg_c26', properties=['C26'], solvers=['cadical', 'z3'], timeout=dict(quick=300, thorough=900), floor=4, level='proved-modular', object_bits=10),
        dict(name='put_msg_c27', harness='h_put_msg_c27', properties=['C27'], solvers=['cadical', 'z3'], timeout=dict(quick=300, thorough=900), floor=4, level='proved-modular', object_bits=10),
        dict(name='put_ctrl_c26', harness='h_put_ctrl_c26', properties=['C26'], solvers=['cadical', 'z3'], timeout=dict(quick=300, thorough=900), floor=3, level='proved-modular', object_bits=10),
        dict(name='put_ctrl_c27', harness='h_put_ctrl_c27', properties=['C27'], solvers=['cadical', 'z3'], timeout=dict(quick=300, thorough=900), floor=1, level='proved-modular', object_bits=10),
        dict(name='get_msg', harness='h_get_msg', properties=['C26'], solvers=['cadical', 'z3'], timeout=dict(quick=300, thorough=900), floor=3, level='proved-modular', object_bits=10),
        dict(name='range', harness='h_range', loop_contracts=True, properties=['C26', 'C18'], solvers=['z3', 'kissat', 'cadical'], timeout=dict(quick=900, thorough=1800), floor=5, level='proved-modular', object_bits=10),
        dict(name='reopen', harness='h_reopen', loop_contracts=True, properties=['C27'], solvers=['z3', 'cadical'], timeout=dict(quick=600, thorough=1800), floor=3, level='proved-modular', object_bits=10),
        dict(name='nearest', harness='h_nearest', loop_contracts=True, properties=['C26'], solvers=['cadical', 'z3'], timeout=dict(quick=300, thorough=900), floor=2, level='proved-modular', object_bits=10),
        dict(name='last', harness='h_last', properties=['C26'], solvers=['cadical', 'z3'], timeout=dict(quick=300, thorough=900), floor=1, level='proved-modular', object_bits=10),
    ],
    trusted_base=['ASSUMED: lseek / write / read act on the ghost files as POSIX specifies (positions, append at SEEK_END, whole-record writes; failures only where the scenario allows them); '
                  'std::map<uint32_t, Prec> in the single-witness abstraction; std::string size / data / assign (model bodies in specs/k_fper.py)'],
    assumptions=['one operation at a time on an open persister; the files hold a whole number of index records and at most 10^9 data bytes; short writes are not modelled (a write either fails or is complete)'],
)
