"""K-menc (C01, structural half of the round trip): MessageBase::encode(char*) (runtime/message.cpp), BaseField::encode(char*) (include/fix8/field.hpp) and the
FieldTraits::get overload it uses, bodies from the clang AST.

A part is a position map of at most 3 fields in ascending position order (ASSUMED: std::multimap iterates in key order), each with a tag and a rendered value of some
length (the virtual print() is a model that writes that many bytes; itoa is K-int's subject and a model here that writes the decimal digits of the tag).
  encode: the unsuppressed fields are rendered in position order, back to back, each as  <decimal tag> '=' <value bytes> SOH ; suppressed fields are skipped; the unknown
          text the part holds follows; the length returned is the number of bytes written.
Together with K-dec (each token becomes one field with its own tag, built from its own value text, at consecutive positions -- bounded) and the leaf codecs (C08 integers,
C09 timestamps: decode(encode(v)) = v) this is the round trip's skeleton: decode(encode(m)) has m's fields in m's order, and re-encoding renders the same tokens.
"""
PRE_STRUCTS = r'''
struct ft_m { unsigned short _fnum; int _ftype; unsigned short _pos; unsigned short _field_traits; };
struct pres_m { struct ft_m arr[3]; unsigned n; };
struct bf_m { unsigned short _fnum; unsigned printlen; };
struct fent_m { unsigned short first; struct bf_m *second; };
struct fmap_m { struct fent_m ents[3]; unsigned n; };
struct sv_m { const char *data; unsigned long size; };
'''
PRELUDE = r'''
#include <stdlib.h>
#define VACUITY_PROBE() __CPROVER_assert(0, "vacuity-probe")
unsigned nondet_uint(void); unsigned short nondet_ushort(void); _Bool nondet_bool(void); unsigned long nondet_ulong(void); char nondet_char(void);
char g_out[512];
/* ---- ASSUMED models ---- */
const struct ft_m *pres_end(const struct pres_m *p) { return p->arr + p->n; }
const struct ft_m *pres_find(const struct pres_m *p, unsigned short key)
{ for (unsigned i = 0; i < 3; ++i) if (i < p->n && p->arr[i]._fnum == key) return &p->arr[i]; return p->arr + p->n; }
unsigned short ebit_has(const unsigned short *bits, unsigned bit) { return *bits & (unsigned short)(1u << bit); }
const struct fent_m *fmap_begin(const struct fmap_m *m) { return m->ents; }
const struct fent_m *fmap_end(const struct fmap_m *m) { return m->ents + m->n; }
static unsigned declen(unsigned v) { return v < 10 ? 1 : v < 100 ? 2 : v < 1000 ? 3 : v < 10000 ? 4 : 5; }
unsigned long itoa_model(unsigned short v, char *to, int base)
{ unsigned n = declen(v); __CPROVER_assert(__CPROVER_w_ok(to, n), "model: room for the tag digits"); for (unsigned i = 0; i < 5; ++i) if (i < n) to[i] = 'd'; return n; }     /* K-int: itoa writes the decimal digits and returns their number */
struct bf_m;
unsigned long bf_print(const struct bf_m *f, char *to)
{ unsigned n = ((const struct bf_m *)f)->printlen; __CPROVER_assert(n == 0 || __CPROVER_w_ok(to, n), "model: room for the value"); for (unsigned i = 0; i < 4; ++i) if (i < n) to[i] = 'v'; return n; }   /* virtual print(): the value text, free of SOH */
_Bool mb_has_group_count(const struct bf_m *f) { return 0; }
unsigned long sv_size(const struct sv_m *s) { return s->size; }
unsigned long sv_copy(const struct sv_m *s, char *to, unsigned long n, unsigned long pos) { for (unsigned i = 0; i < 4; ++i) if (i < n) to[i] = 'u'; return n; }
struct FIX8_MessageBase;
unsigned long mb_encode_group(const struct FIX8_MessageBase *self, unsigned short fnum, char *to) { __CPROVER_assert(0, "model: no repeating groups in these parts"); return 0; }
'''
POST = r'''
void h_encode(void)
{
  struct FIX8_MessageBase m; struct bf_m f[3];
  m._fp._presence.n = 3; m._pos.n = nondet_uint(); __CPROVER_assume(m._pos.n <= 3);
  for (unsigned i = 0; i < 3; ++i) {
    m._fp._presence.arr[i]._fnum = nondet_ushort(); m._fp._presence.arr[i]._field_traits = nondet_ushort(); m._fp._presence.arr[i]._pos = 0; m._fp._presence.arr[i]._ftype = 0;
    __CPROVER_assume(m._fp._presence.arr[i]._fnum >= 1 && !(m._fp._presence.arr[i]._field_traits & (1u << K_group)));
    f[i]._fnum = m._fp._presence.arr[i]._fnum; f[i].printlen = nondet_uint(); __CPROVER_assume(f[i].printlen <= 4);
    m._pos.ents[i].first = nondet_ushort(); m._pos.ents[i].second = &f[i];
  }
  __CPROVER_assume(m._fp._presence.arr[0]._fnum < m._fp._presence.arr[1]._fnum && m._fp._presence.arr[1]._fnum < m._fp._presence.arr[2]._fnum);
  __CPROVER_assume(m._pos.ents[0].first <= m._pos.ents[1].first && m._pos.ents[1].first <= m._pos.ents[2].first);          /* multimap: ascending positions */
  m._unknown.data = 0; m._unknown.size = nondet_ulong(); __CPROVER_assume(m._unknown.size <= 4);
  __exc = 0;
  unsigned long r = mb_encode(&m, g_out);
  unsigned long off = 0;
  for (unsigned i = 0; i < 3; ++i) if (i < m._pos.n) {
    _Bool suppressed = (m._fp._presence.arr[i]._field_traits & (1u << K_suppress)) != 0;
    if (!suppressed) {
      unsigned t = declen(f[i]._fnum);
      __CPROVER_assert(g_out[off] == 'd' && g_out[off + t - 1] == 'd' && g_out[off + t] == '=' && g_out[off + t + 1 + f[i].printlen] == 1, "C01.encode.each_field_is_decimal_tag_equals_value_separator_in_position_order");
      __CPROVER_assert(f[i].printlen == 0 || (g_out[off + t + 1] == 'v' && g_out[off + t + f[i].printlen] == 'v'), "C01.encode.value_bytes_sit_between_the_equals_sign_and_the_separator");
      off += t + 1 + f[i].printlen + 1;
    }
  }
  __CPROVER_assert(m._unknown.size == 0 || (g_out[off] == 'u' && g_out[off + m._unknown.size - 1] == 'u'), "C01.encode.unknown_text_follows_the_fields");
  __CPROVER_assert(r == off + m._unknown.size, "C01.encode.returned_length_is_the_bytes_written_with_suppressed_fields_skipped");
  VACUITY_PROBE();
}
'''
MB = 'FIX8::MessageBase'
FT = 'FIX8::FieldTraits'
PS = r'FIX8::presorted_set<unsigned short, FIX8::FieldTrait, (FIX8::)?FieldTrait::Compare>'
UNIT = dict(
    name='k_menc', tu='tu/rt_message.cpp', no_follow=True,
    pre_structs=PRE_STRUCTS,
    probe={'K_suppress': 'FIX8::FieldTrait::suppress', 'K_group': 'FIX8::FieldTrait::group'},
    emit=dict(
        exceptions=True,
        pod=[r'std::basic_string<char>'],
        constants={'default_assignment_separator': "((char)'=')", 'default_field_separator': '((char)1)'},
        default_args={'sv_copy': {2: '0ul'}},
        type_alias=[(r'(FIX8::)?Presence::const_iterator', 'const FIX8::FieldTrait *')],
        type_map=[(PS, 'struct pres_m'), (r'FIX8::Presence', 'struct pres_m'), (r'FIX8::FieldTrait', 'struct ft_m'), (r'FIX8::FieldTrait::FieldType', 'int'),
                  (r'FIX8::FieldTrait::TraitTypes', 'unsigned int'), (r'FIX8::ebitset<FIX8::FieldTrait::TraitTypes, unsigned short>', 'unsigned short'),
                  (r'FIX8::Positions|std::multimap<unsigned short, FIX8::BaseField \*>', 'struct fmap_m'),
                  (r'std::_Rb_tree_(const_)?iterator<std::pair<const unsigned short, FIX8::BaseField \*>>', 'const struct fent_m *'),
                  (r'std::pair<const unsigned short, FIX8::BaseField \*>', 'struct fent_m'),
                  (r'FIX8::BaseField', 'struct bf_m'), (r'(std::basic_string<char>|std::string|FIX8::f8String)', 'struct sv_m'), (r'FIX8::RealmBase', 'void'), (r'FIX8::GroupBase', 'void')],
        lazy_structs=[r'FIX8::MessageBase', r'FIX8::FieldTraits'],
        calls_rx=[(PS + r'::find', 'pres_find'), (PS + r'::end', 'pres_end'),
                  (r'FIX8::ebitset<FIX8::FieldTrait::TraitTypes, unsigned short>::has', 'ebit_has'),
                  (r'std::multimap<unsigned short, FIX8::BaseField \*>::begin', 'fmap_begin'), (r'std::multimap<unsigned short, FIX8::BaseField \*>::end', 'fmap_end')],
        calls={
            FT + '::get_presence': dict(c='ft_get_presence', sig='const FIX8::Presence &() const'),
            FT + '::get': dict(c='ft_get2', sig='bool (const unsigned short, FIX8::Presence::const_iterator &, FIX8::FieldTrait::TraitTypes) const'),
            'FIX8::BaseField::encode': 'bf_encode', 'itoa': 'itoa_model', 'FIX8::BaseField::print': 'bf_print',
            'has_group_count': 'mb_has_group_count', MB + '::has_group_count': 'mb_has_group_count', MB + '::encode_group': 'mb_encode_group',
            'std::basic_string<char>::size': 'sv_size', 'std::basic_string<char>::copy': 'sv_copy',
        }),
    prelude=PRELUDE,
    force_fields={MB: [('_fp', FT), ('_pos', 'FIX8::Positions'), ('_unknown', 'FIX8::f8String')], FT: [('_presence', 'FIX8::Presence')]},
    functions=[
        dict(q=FT + '::get_presence', sig=None, cname='ft_get_presence'),
        dict(q=FT + '::get', sig='bool (const unsigned short, Presence::const_iterator &, FieldTrait::TraitTypes) const', cname='ft_get2'),
        dict(q='FIX8::BaseField::encode', sig='size_t (char *) const', cname='bf_encode'),
        dict(q=MB + '::encode', sig='size_t (char *) const', cname='mb_encode'),
    ],
    postlude=POST,
    proofs=[
        dict(name='encode', harness='h_encode', properties=['C01', 'C05'], solvers=['cadical', 'z3'], timeout=dict(quick=600, thorough=1800), floor=3, level='bounded', unwind=7, object_bits=10),
    ],
    trusted_base=['ASSUMED: std::multimap iterates in ascending key order; itoa writes the decimal digits of the tag (K-int); the virtual print() writes the value text and returns its length; '
                  'Presence::find / end, trait bits, std::string size / copy (model bodies in specs/k_menc.py)'],
    assumptions=['bounded: parts of at most 3 fields, values of at most 4 bytes, no repeating groups'],
)
