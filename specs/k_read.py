"""K-read (C15): FIXReader::sockRead (connection.hpp) under a dfcc function + loop contract, and the call sites / framing arithmetic of
FIXReader::read (connection.cpp).

The socket is opaque (ASSUMED model of Poco::Net::StreamSocket::receiveBytes(buf, n)): it returns r <= 0 (error / EOF; errno is arbitrary) or
1 <= r <= n and has then written the next r bytes of the inbound stream at buf.  The stream is a ghost: g_cur is the number of bytes
consumed so far, and one arbitrary stream position g_wpos with byte value g_wval is watched (every position by generalisation).
"""
PRELUDE = r'''
#include <stdlib.h>
#define VACUITY_PROBE() __CPROVER_assert(0, "vacuity-probe")
long nondet_long(void); unsigned nondet_uint(void); _Bool nondet_bool(void); unsigned long nondet_ulong(void); int nondet_int(void); char nondet_char(void);
int g_errno;                                       /* errno */
int *errno_location(void) { return &g_errno; }
/* ---- ghost inbound stream ---- */
unsigned long g_cur;                               /* bytes of the stream consumed so far */
unsigned long g_wpos; char g_wval;                 /* watched stream position and the byte the peer sent there */
/* ---- ASSUMED: Poco::Net::StreamSocket::receiveBytes ---- */
int sock_receiveBytes(struct sock_m *s, void *bufv, int n, int flags)
{
  char *buf = bufv;
  __CPROVER_assert(n > 0, "receiveBytes: positive length");
  __CPROVER_assert(__CPROVER_w_ok(buf, (unsigned long)n), "C15.receive_buffer_has_room_for_the_requested_bytes");
  int r = nondet_int();
  if (r <= 0) { g_errno = nondet_int(); return r; }
  __CPROVER_assume(r <= n);                        /* any chunking */
  unsigned long h = nondet_ulong();                /* k-witness havoc of the received bytes: the watched one exact, one other arbitrary */
  if (h < (unsigned long)r) buf[h] = nondet_char();
  if (g_cur <= g_wpos && g_wpos < g_cur + (unsigned long)r) buf[g_wpos - g_cur] = g_wval;
  g_cur += (unsigned long)r;
  return r;
}
/* ---- FIXReader::read: the string it fills, the tokeniser, the session ---- */
struct strbuf_m { char *data; unsigned long size; };
char g_tobuf[16400];
struct strbuf_m *sb_assign(struct strbuf_m *s, const char *p, unsigned long n)
{ __CPROVER_assert(n <= 16399, "model: the frame string holds at most 16399 bytes"); __CPROVER_assert(__CPROVER_r_ok(p, n), "C15.read.assign_reads_inside_the_message_buffer"); s->data = g_tobuf; s->size = n; if (n) g_tobuf[0] = p[0]; return s; }
struct strbuf_m *sb_append(struct strbuf_m *s, const char *p, unsigned long n)
{ __CPROVER_assert(s->size + n <= 16399, "model: the frame string holds at most 16399 bytes"); __CPROVER_assert(__CPROVER_r_ok(p, n), "C15.read.append_reads_inside_the_message_buffer"); s->size += n; return s; }
const char *sb_data(const struct strbuf_m *s) { return s->data; }
unsigned long sb_size(const struct strbuf_m *s) { return s->size; }
unsigned long g_read_cur0; int g_tok_calls; unsigned g_tok_mlen; _Bool g_version_matches;
unsigned tok_extract(const char *from, unsigned sz, char *tag, char *val)
{
  /* tokeniser geometry: T bytes before the first '=', V bytes up to the separator; it writes T+1 and V+1 bytes (K-tok: it takes no capacities) */
  unsigned T = nondet_uint(), V = nondet_uint(); _Bool ok = nondet_bool();
  __CPROVER_assume(T <= sz && V <= sz && (unsigned long)T + V + 2 <= (unsigned long)sz + 2);
  __CPROVER_assert((unsigned long)T + 1 <= __CPROVER_OBJECT_SIZE(tag) - __CPROVER_POINTER_OFFSET(tag), "C15.read.pre.tag_buffer_holds_the_first_token_s_tag");
  __CPROVER_assert(!ok || (unsigned long)V + 1 <= __CPROVER_OBJECT_SIZE(val) - __CPROVER_POINTER_OFFSET(val), "C15.read.pre.value_buffer_holds_the_first_token_s_value");
  tag[0] = g_tok_calls == 0 && sz ? from[0] : nondet_char(); val[0] = nondet_char(); g_tok_calls++;
  if (!ok) return 0;
  __CPROVER_assume((unsigned long)T + V + 2 <= sz);
  return T + V + 2;
}
int str_compare_cstr(const struct strbuf_m *s, const char *v) { return g_version_matches ? 0 : 1; }
int str_compare_prefix(const struct strbuf_m *s, unsigned long pos, unsigned long len, const char *v, unsigned long n) { return g_version_matches ? 0 : (nondet_bool() ? 0 : 1); }   /* compare of a prefix only: a different value with the same prefix compares equal */
unsigned atoi_u(const char *p, char term) { return g_tok_mlen; }
struct ctx_m { struct strbuf_m _beginStr; }; struct ctx_m g_ctx;
const struct ctx_m *ses_get_ctx(const void *s) { return &g_ctx; }
int g_update_received;
void ses_update_received(void *s) { g_update_received++; }
int c_isdigit(int c) { return c >= '0' && c <= '9'; }
'''
SR_CONTRACT = [
    ('requires', 'C15.sockRead.pre.size', 'sz >= 1 && sz <= 8192'),
    ('requires', 'C15.sockRead.pre.buffer', '__CPROVER_is_fresh(where, sz)'),
    ('requires', 'C15.sockRead.pre.stream', 'g_cur <= 1000000000000ul'),
    ('assigns', None, '__CPROVER_object_whole(where), g_cur, g_errno, __exc'),
    ('ensures', 'C15.sockRead.returns_exactly_sz_or_throws', '__exc != 0 || __CPROVER_return_value == (int)sz'),
    ('ensures', 'C15.sockRead.consumes_exactly_sz_stream_bytes', '__exc != 0 || g_cur == __CPROVER_old(g_cur) + sz'),
    ('ensures', 'C15.sockRead.bytes_are_the_next_stream_bytes_in_order', '__exc != 0 || !(__CPROVER_old(g_cur) <= g_wpos && g_wpos < __CPROVER_old(g_cur) + sz) || where[g_wpos - __CPROVER_old(g_cur)] == g_wval'),
    ('ensures', 'C15.sockRead.throws_only_peer_reset', '__exc == 0 || __exc == EXC_FIX8_PeerResetConnection'),
]
SR_LOOP = dict(
    assigns='remaining, rddone, __CPROVER_object_whole(where), g_cur, g_errno',
    invariants=[('inv.progress', '(unsigned long)rddone + remaining == sz && remaining <= sz && g_cur == g_cur0 + rddone'),
                ('inv.content', '!(g_cur0 <= g_wpos && g_wpos < g_cur0 + rddone) || where[g_wpos - g_cur0] == g_wval')])
POST = r'''
/* FIXReader::read against sockRead's contract: frame arithmetic, buffer safety, error outcomes */
void h_read(void)
{
  struct FIX8_FIXReader rd; struct sock_m sk; rd.__base._sock = &sk;
  rd._bg_sz = nondet_ulong(); __CPROVER_assume(rd._bg_sz >= 8 && rd._bg_sz <= 40);           /* 2 + |BeginString| + 1 + 3 */
  g_wpos = nondet_ulong(); g_wval = nondet_char(); g_cur = nondet_ulong(); __CPROVER_assume(g_cur <= 1000000000ul);
  g_tok_calls = 0; g_tok_mlen = nondet_uint(); g_version_matches = nondet_bool(); g_update_received = 0; __exc = 0;
  unsigned long cur0 = g_cur; struct strbuf_m to; to.data = g_tobuf; to.size = 0;
  _Bool r = fixreader_read(&rd, &to);
  __CPROVER_assert(!(r && !__exc) || (g_cur - cur0 == to.size && g_update_received == 1), "C15.read.a_frame_is_exactly_the_stream_bytes_consumed_for_it");
  __CPROVER_assert(!(r && !__exc) || (g_version_matches && g_tok_mlen >= 1 && g_tok_mlen <= 8192 - rd._bg_sz - 7 && to.size >= rd._bg_sz + 1 + g_tok_mlen + 7), "C15.read.accepted_only_with_our_beginstring_and_a_plausible_bodylength");
  __CPROVER_assert(r && !__exc || g_update_received == 0, "C15.read.nothing_is_marked_received_on_failure");
  __CPROVER_assert(!__exc || __exc == EXC_FIX8_IllegalMessage || __exc == EXC_FIX8_InvalidVersion || __exc == EXC_FIX8_InvalidBodyLength || __exc == EXC_FIX8_PeerResetConnection, "C15.read.raises_only_framing_errors");
  VACUITY_PROBE();
}
void h_sockRead(void)
{
  struct FIX8_FIXReader rd; struct sock_m sk; rd.__base._sock = &sk;
  char *where; unsigned long sz;
  g_wpos = nondet_ulong(); g_wval = nondet_char();
  __exc = 0;
  fixreader_sockRead(&rd, where, sz);
  VACUITY_PROBE();
}
'''
UNIT = dict(
    name='k_read', tu='tu/rt_connection.cpp', no_follow=True,
    pre_structs='struct sock_m { int dummy; };\nstruct ses_m { int dummy; };\n',
    emit=dict(
        exceptions=True,
        bases={'FIX8::FIXReader': 'FIX8::AsyncSocket<std::basic_string<char>>'},
        type_map=[(r'Poco::Net::StreamSocket', 'struct sock_m'), (r'FIX8::Session', 'struct ses_m'), (r'FIX8::F8MetaCntx', 'struct ctx_m'), (r'(std::basic_string<char>|std::string|FIX8::f8String)', 'struct strbuf_m')],
        pod=[r'std::basic_string<char>'],
        may_throw={'fixreader_sockRead': True},
        constants={'default_field_separator': '((char)1)', 'MAX_MSGTYPE_FIELD_LEN': '32', '_chksum_sz': '7', '_max_msg_len': '8192', 'FIX8_MAX_FLD_LENGTH': '2048'},
        lazy_structs=[r'FIX8::FIXReader', r'FIX8::AsyncSocket<.*>'],
        default_args={'sock_receiveBytes': {2: '0'}, 'atoi_u': {1: '0'}},
        calls={'Poco::Net::StreamSocket::receiveBytes': dict(c='sock_receiveBytes', sig='int (void *, int, int)'), '__errno_location': 'errno_location',
               'FIX8::FIXReader::sockRead': 'fixreader_sockRead', 'isdigit': 'c_isdigit', 'extract_element': 'tok_extract', 'fast_atoi': 'atoi_u',
               'FIX8::Session::get_ctx': dict(c='ses_get_ctx', sig='const FIX8::F8MetaCntx &() const'), 'FIX8::Session::update_received': 'ses_update_received',
               'std::basic_string<char>::compare': lambda em, n, args: 'str_compare_cstr' if len(args) == 1 else 'str_compare_prefix', 'std::basic_string<char>::assign': 'sb_assign', 'std::basic_string<char>::append': 'sb_append',
               'std::basic_string<char>::data': 'sb_data', 'std::basic_string<char>::size': 'sb_size'}),
    prelude=PRELUDE,
    functions=[
        dict(q='FIX8::FIXReader::sockRead', sig=None, cname='fixreader_sockRead', contract=SR_CONTRACT, loops={0: SR_LOOP},
             ghost={'entry': '  unsigned long g_cur0 = g_cur; /* ghost: stream position at entry */'}),
        dict(q='FIX8::FIXReader::read', sig=None, cname='fixreader_read',
             loops={0: dict(assigns='bt, offs, __CPROVER_object_whole(msg_buf), g_cur, g_errno, __exc',
                            invariants=[('inv.frame', 'offs >= self->_bg_sz && offs < 8192ul && offs < self->_bg_sz + 10ul && g_cur == g_read_cur0 + offs && __exc == 0')])},
             ghost={'entry': '  g_read_cur0 = g_cur; /* ghost: stream position when the frame starts */'}),
    ],
    postlude=POST,
    proofs=[
        dict(name='read', harness='h_read', replace=['fixreader_sockRead'], loop_contracts=True, properties=['C15'], solvers=['cadical', 'z3'], timeout=dict(quick=600, thorough=1800), floor=6, object_bits=10,
             level='proved-modular'),
        dict(name='sockRead', harness='h_sockRead', enforce=['fixreader_sockRead'], loop_contracts=True, properties=['C15'], solvers=['cadical', 'z3'],
             timeout=dict(quick=600, thorough=1800), floor=6, object_bits=10, auto_chunks=6, level='proved-modular'),
    ],
    trusted_base=['ASSUMED: Poco::Net::StreamSocket::receiveBytes(buf, n) returns <= 0 or writes the next 1..n stream bytes at buf and returns their number (model body in specs/k_read.py, k-witness content)'],
    assumptions=['termination of sockRead is not claimed: the code retries for ever on EAGAIN (no decreases clause); requests up to 8192 bytes'],
)
