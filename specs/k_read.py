"""K-read (C15): FIXReader::sockRead (connection.hpp) under a dfcc function + loop contract, and the call sites / framing arithmetic of
FIXReader::read (connection.cpp).

The socket is opaque (ASSUMED model of Poco::Net::StreamSocket::receiveBytes(buf, n)): it returns r <= 0 (error / EOF; errno is arbitrary) or
1 <= r <= n and has then written the next r bytes of the inbound stream at buf.  The stream is a ghost: g_cur is the number of bytes
consumed so far, and one arbitrary stream position g_wpos with byte value g_wval is watched (every position by generalisation).
"""
PRELUDE = r'''
#include <stdlib.h>
#define VACUITY_PROBE() __CPROVER_assert(0, "vacuity-probe")
long nondet_long(void); unsigned nondet_uint(void); _Bool nondet_bool(void); unsigned long nondet_ulong(void); int nondet_int(void); char nondet_char(void);
int g_errno;                                       /* errno */
int *errno_location(void) { return &g_errno; }
/* ---- ghost inbound stream ---- */
unsigned long g_cur;                               /* bytes of the stream consumed so far */
unsigned long g_wpos; char g_wval;                 /* watched stream position and the byte the peer sent there */
/* ---- ASSUMED: Poco::Net::StreamSocket::receiveBytes ---- */
int sock_receiveBytes(struct sock_m *s, void *bufv, int n, int flags)
{
  char *buf = bufv;
  __CPROVER_assert(n > 0, "receiveBytes: positive length");
  __CPROVER_assert(__CPROVER_w_ok(buf, (unsigned long)n), "C15.receive_buffer_has_room_for_the_requested_bytes");
  int r = nondet_int();
  if (r <= 0) { g_errno = nondet_int(); return r; }
  __CPROVER_assume(r <= n);                        /* any chunking */
  unsigned long h = nondet_ulong();                /* k-witness havoc of the received bytes: the watched one exact, one other arbitrary */
  if (h < (unsigned long)r) buf[h] = nondet_char();
  if (g_cur <= g_wpos && g_wpos < g_cur + (unsigned long)r) buf[g_wpos - g_cur] = g_wval;
  g_cur += (unsigned long)r;
  return r;
}
'''
SR_CONTRACT = [
    ('requires', 'C15.sockRead.pre.size', 'sz >= 1 && sz <= 8192'),
    ('requires', 'C15.sockRead.pre.buffer', '__CPROVER_is_fresh(where, sz)'),
    ('requires', 'C15.sockRead.pre.stream', 'g_cur <= 1000000000000ul'),
    ('assigns', None, '__CPROVER_object_whole(where), g_cur, g_errno, __exc'),
    ('ensures', 'C15.sockRead.returns_exactly_sz_or_throws', '__exc != 0 || __CPROVER_return_value == (int)sz'),
    ('ensures', 'C15.sockRead.consumes_exactly_sz_stream_bytes', '__exc != 0 || g_cur == __CPROVER_old(g_cur) + sz'),
    ('ensures', 'C15.sockRead.bytes_are_the_next_stream_bytes_in_order', '__exc != 0 || !(__CPROVER_old(g_cur) <= g_wpos && g_wpos < __CPROVER_old(g_cur) + sz) || where[g_wpos - __CPROVER_old(g_cur)] == g_wval'),
    ('ensures', 'C15.sockRead.throws_only_peer_reset', '__exc == 0 || __exc == EXC_FIX8_PeerResetConnection'),
]
SR_LOOP = dict(
    assigns='remaining, rddone, __CPROVER_object_whole(where), g_cur, g_errno',
    invariants=[('inv.progress', '(unsigned long)rddone + remaining == sz && remaining <= sz && g_cur == g_cur0 + rddone'),
                ('inv.content', '!(g_cur0 <= g_wpos && g_wpos < g_cur0 + rddone) || where[g_wpos - g_cur0] == g_wval')])
POST = r'''
void h_sockRead(void)
{
  struct FIX8_FIXReader rd; struct sock_m sk; rd.__base._sock = &sk;
  char *where; unsigned long sz;
  g_wpos = nondet_ulong(); g_wval = nondet_char();
  __exc = 0;
  fixreader_sockRead(&rd, where, sz);
  VACUITY_PROBE();
}
'''
UNIT = dict(
    name='k_read', tu='tu/rt_connection.cpp', no_follow=True,
    pre_structs='struct sock_m { int dummy; };\n',
    emit=dict(
        exceptions=True,
        bases={'FIX8::FIXReader': 'FIX8::AsyncSocket<std::basic_string<char>>'},
        type_map=[(r'Poco::Net::StreamSocket', 'struct sock_m')],
        lazy_structs=[r'FIX8::FIXReader', r'FIX8::AsyncSocket<.*>'],
        default_args={'sock_receiveBytes': {2: '0'}},
        calls={'Poco::Net::StreamSocket::receiveBytes': dict(c='sock_receiveBytes', sig='int (void *, int, int)'), '__errno_location': 'errno_location'}),
    prelude=PRELUDE,
    functions=[
        dict(q='FIX8::FIXReader::sockRead', sig=None, cname='fixreader_sockRead', contract=SR_CONTRACT, loops={0: SR_LOOP},
             ghost={'entry': '  unsigned long g_cur0 = g_cur; /* ghost: stream position at entry */'}),
    ],
    postlude=POST,
    proofs=[
        dict(name='sockRead', harness='h_sockRead', enforce=['fixreader_sockRead'], loop_contracts=True, properties=['C15'], solvers=['cadical', 'z3'],
             timeout=dict(quick=600, thorough=1800), floor=6, object_bits=10, auto_chunks=6, level='proved-modular'),
    ],
    trusted_base=['ASSUMED: Poco::Net::StreamSocket::receiveBytes(buf, n) returns <= 0 or writes the next 1..n stream bytes at buf and returns their number (model body in specs/k_read.py, k-witness content)'],
    assumptions=['termination of sockRead is not claimed: the code retries for ever on EAGAIN (no decreases clause); requests up to 8192 bytes'],
)
