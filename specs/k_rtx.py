"""K-rtx (C18): Session::retrans_callback and Session::handle_resend_request (runtime/session.cpp), bodies extracted from the clang AST.

The persister's range retrieval calls retrans_callback once per stored record of the requested range in ascending order and then once
with _no_more_records (that protocol is the persister's contract: MemoryPersister::get(from,to,..), not under contract here -- ASSUMED).
Ghost: cov = the first number of the requested range not yet answered = (rctx._last ? rctx._last + 1 : rctx._begin).
Contract of one callback for a record with number s >= cov:
   if s > cov: a SequenceReset-GapFill with MsgSeqNum cov and NewSeqNo s is sent first;  then the stored message s is sent (replay);
   afterwards rctx._last == s (so cov' = s + 1).
Contract of the final callback: a GapFill with MsgSeqNum cov is sent whose NewSeqNo is above cov and at least the number the session
would have used next; the session's next outbound number becomes that NewSeqNo; the state returns to continuous.
Sending is a model with a ghost log (kind, NewSeqNo / replayed number, custom MsgSeqNum); PossDupFlag / OrigSendingTime on replays
are set by send_process (not under contract here).
"""
PRE_STRUCTS = r'''
struct msg_m { int kind; unsigned newseq; unsigned replay_of; };
struct seqpair_m { unsigned first; long second; };                 /* std::pair<const unsigned, const f8String> */
struct fuint_m { unsigned _value; _Bool present; };
struct persist_m { int dummy; };
struct ctx_m { int dummy; };
'''
PRELUDE = r'''
#define VACUITY_PROBE() __CPROVER_assert(0, "vacuity-probe")
long nondet_long(void); unsigned nondet_uint(void); _Bool nondet_bool(void);
enum { K_GAPFILL = 1, K_REPLAY = 2, K_REJECT = 3 };
/* ---- ghost send log ---- */
int g_sent_n; int g_sent_kind[3]; unsigned g_sent_newseq[3], g_sent_replay[3], g_sent_custom[3];
struct msg_m g_m[3]; int g_m_n;
unsigned g_begin, g_end; _Bool g_has_begin, g_has_end;
_Bool g_range_get_called; unsigned g_range_from, g_range_to;
static struct msg_m *mk(int kind, unsigned newseq, unsigned replay) { __CPROVER_assume(g_m_n < 3); g_m[g_m_n].kind = kind; g_m[g_m_n].newseq = newseq; g_m[g_m_n].replay_of = replay; return &g_m[g_m_n++]; }
/* ---- ASSUMED models ---- */
struct msg_m *ses_generate_sequence_reset(void *self, unsigned newseqnum, _Bool gapfill) { __CPROVER_assert(gapfill, "model: resend answers use GapFill mode"); return mk(K_GAPFILL, newseqnum, 0); }
struct msg_m *msg_factory(struct ctx_m *ctx, const long *text, _Bool no_chksum, _Bool permissive) { return mk(K_REPLAY, 0, (unsigned)*text); }   /* stored text -> message (its id is its number here) */
_Bool ses_send(void *self, struct msg_m *m, _Bool destroy, unsigned custom_seqnum, _Bool no_increment)
{ __CPROVER_assume(g_sent_n < 3); g_sent_kind[g_sent_n] = m->kind; g_sent_newseq[g_sent_n] = m->newseq; g_sent_replay[g_sent_n] = m->replay_of; g_sent_custom[g_sent_n] = custom_seqnum; g_sent_n++; return 1; }
void ses_state_change(void *self, unsigned before, unsigned after) { }
unsigned atomic_exchange_u(unsigned *a, unsigned v, int mo) { unsigned o = *a; *a = v; return o; }
_Bool ses_enforce(void *self, unsigned seqnum, const void *msg) { return nondet_bool(); }
_Bool ses_handle_outbound_reject(void *self, unsigned seqnum, const void *msg, const char *why) { mk(K_REJECT, 0, 0); __CPROVER_assume(g_sent_n < 3); g_sent_kind[g_sent_n++] = K_REJECT; return 1; }
void fuint_ctor0(struct fuint_m *f) { f->_value = 0; f->present = 0; }
_Bool inmsg_get_begin(const void *msg, struct fuint_m *to) { if (g_has_begin) to->_value = g_begin; return g_has_begin; }
_Bool inmsg_get_end(const void *msg, struct fuint_m *to) { if (g_has_end) to->_value = g_end; return g_has_end; }
const int *fuint_call(const struct fuint_m *f) { return (const int *)&f->_value; }
unsigned persist_get_range(struct persist_m *p, unsigned from, unsigned to, void *session, void *callback) { g_range_get_called = 1; g_range_from = from; g_range_to = to; return nondet_uint(); }
'''
POST = r'''
static void mk_session(struct FIX8_Session *s)
{
  s->_state = E_FIX8_States_SessionStates_st_resend_request_received;
  s->_next_send_seq = nondet_uint(); __CPROVER_assume(s->_next_send_seq >= 1 && s->_next_send_seq < 4000000000u);
  g_sent_n = 0; g_m_n = 0;
}
static void mk_rctx(struct FIX8_Session_RetransmissionContext *r, const struct FIX8_Session *s)
{
  r->_begin = nondet_uint(); r->_end = nondet_uint(); r->_interrupted_seqnum = s->_next_send_seq; r->_last = nondet_uint(); r->_no_more_records = 0;
  __CPROVER_assume(r->_begin >= 1 && r->_begin < 4000000000u && r->_last < 4000000000u && (r->_last == 0 || r->_last >= r->_begin));
  __CPROVER_assume(r->_end == 0 || r->_end >= r->_begin);
}
/* one stored record is handed to the callback */
void h_record(void)
{
  struct FIX8_Session s; mk_session(&s); struct FIX8_Session_RetransmissionContext r; mk_rctx(&r, &s);
  unsigned cov = r._last ? r._last + 1 : r._begin;
  struct seqpair_m with; with.first = nondet_uint(); with.second = (long)with.first;      /* the stored text of number s (identity: its id is s) */
  __CPROVER_assume(with.first >= cov && with.first < 4000000000u);                         /* range protocol of the persister: ascending keys inside the range */
  unsigned nss0 = s._next_send_seq;
  __exc = 0;
  _Bool ok = session_retrans_callback(&s, &with, &r);
  _Bool gap = with.first > cov;
  __CPROVER_assert(g_sent_n == (gap ? 2 : 1), "C18.record.sends_gapfill_only_for_a_gap_then_the_replay");
  __CPROVER_assert(!gap || (g_sent_kind[0] == K_GAPFILL && g_sent_custom[0] == cov), "C18.record.gapfill_msgseqnum_is_first_number_of_the_gap");
  __CPROVER_assert(!gap || g_sent_newseq[0] == with.first, "C18.record.gapfill_newseqno_is_the_number_after_the_gap");
  int k = gap ? 1 : 0;
  __CPROVER_assert(g_sent_kind[k] == K_REPLAY && g_sent_replay[k] == with.first && g_sent_custom[k] == 0, "C18.record.stored_message_is_replayed_after_the_gapfill");
  __CPROVER_assert(r._last == with.first, "C18.record.coverage_advances_past_the_record");
  __CPROVER_assert(s._next_send_seq == nss0 && s._state == E_FIX8_States_SessionStates_st_resend_request_received, "C18.record.session_numbering_untouched_during_replay");
  VACUITY_PROBE();
}
/* the persister signals completion */
void h_finish(void)
{
  struct FIX8_Session s; mk_session(&s); struct FIX8_Session_RetransmissionContext r; mk_rctx(&r, &s);
  r._no_more_records = 1;
  unsigned cov = r._last ? r._last + 1 : r._begin, interrupted = r._interrupted_seqnum;
  struct seqpair_m with; with.first = 0; with.second = 0;
  __exc = 0;
  session_retrans_callback(&s, &with, &r);
  __CPROVER_assert(g_sent_n == 1 && g_sent_kind[0] == K_GAPFILL && g_sent_custom[0] == cov, "C18.finish.gapfill_msgseqnum_is_first_uncovered_number");
  __CPROVER_assert(g_sent_newseq[0] > cov && g_sent_newseq[0] >= interrupted, "C18.finish.newseqno_is_after_the_gap_and_not_below_the_next_new_number");
  __CPROVER_assert(s._next_send_seq == g_sent_newseq[0], "C18.finish.new_messages_continue_from_the_last_newseqno");
  __CPROVER_assert(s._state == E_FIX8_States_SessionStates_st_continuous, "C18.finish.returns_to_normal_operation");
  VACUITY_PROBE();
}
/* the ResendRequest handler: range validation, the no-persister answer, and the hand-over to the persister */
void h_request(void)
{
  struct FIX8_Session s; mk_session(&s); s._state = nondet_uint(); __CPROVER_assume(s._state < K_st_num_states);
  struct persist_m per; s._persist = nondet_bool() ? &per : 0;
  g_has_begin = nondet_bool(); g_has_end = nondet_bool(); g_begin = nondet_uint(); g_end = nondet_uint(); g_range_get_called = 0;
  __CPROVER_assume(g_begin < 2000000000u && g_end < 2000000000u && g_has_begin && g_has_end && s._next_send_seq < 2000000000u);   /* the handler computes in int: numbers below 2^31 */
  unsigned state0 = s._state, nss0 = s._next_send_seq; int dummy;
  __exc = 0;
  session_handle_resend_request(&s, nondet_uint(), &dummy);
  _Bool busy = state0 == E_FIX8_States_SessionStates_st_resend_request_received;
  _Bool bad_range = (g_begin > g_end && g_end != 0) || g_begin == 0;
  __CPROVER_assert(!busy || (g_sent_n == 0 && !g_range_get_called), "C18.request.ignored_while_a_replay_is_in_progress");
  __CPROVER_assert(!(!busy && bad_range) || (g_sent_n == 1 && g_sent_kind[0] == K_REJECT && !g_range_get_called), "C18.request.invalid_range_is_rejected");
  __CPROVER_assert(!(!busy && !bad_range && s._persist) || (g_range_get_called && g_range_from == g_begin && g_range_to == g_end && g_sent_n == 0
                   && s._state == E_FIX8_States_SessionStates_st_resend_request_received), "C18.request.range_is_handed_to_the_persister_unchanged");
  __CPROVER_assert(!(!busy && !bad_range && !s._persist) || (g_sent_n == 1 && g_sent_kind[0] == K_GAPFILL && g_sent_custom[0] == g_begin
                   && g_sent_newseq[0] > g_begin && g_sent_newseq[0] >= nss0 && s._next_send_seq == g_sent_newseq[0]), "C18.request.without_a_store_the_whole_range_is_gap_filled");
  VACUITY_PROBE();
}
'''
SES = 'FIX8::Session'
UNIT = dict(
    name='k_rtx', tu='tu/rt_session.cpp', no_follow=True,
    pre_structs=PRE_STRUCTS,
    probe={'K_st_num_states': 'FIX8::States::st_num_states', 'E_FIX8_States_SessionStates_st_continuous': 'FIX8::States::st_continuous',
           'E_FIX8_States_SessionStates_st_resend_request_received': 'FIX8::States::st_resend_request_received'},
    emit=dict(
        exceptions=True,
        pod=[r'std::basic_string<char>'],
        default_args={'ses_send': {1: '1', 2: '0u', 3: '0'}, 'atomic_exchange_u': {1: '5'}, 'msg_factory': {2: '0', 3: '0'}, 'ses_generate_sequence_reset': {1: '0'}},
        type_map=[(r'(std::basic_string<char>|std::string|FIX8::f8String)', 'long'), (r'FIX8::States::SessionStates', 'unsigned int'),
                  (r'FIX8::f8_atomic<FIX8::States::SessionStates>|std::atomic<FIX8::States::SessionStates>', 'unsigned int'),
                  (r'FIX8::f8_atomic<unsigned int>|std::atomic<unsigned int>|std::__atomic_base<unsigned int>', 'unsigned int'),
                  (r'FIX8::Message|FIX8::MessageBase', 'struct msg_m'), (r'FIX8::F8MetaCntx', 'struct ctx_m'),
                  (r'FIX8::Session::SequencePair|std::pair<const unsigned int, const std::basic_string<char>>', 'struct seqpair_m'),
                  (r'FIX8::(begin_seq_num|end_seq_num)|FIX8::Field<(unsigned int|int|FIX8::EnumType<\d+>), (7|16)>', 'struct fuint_m'),
                  (r'FIX8::Persister', 'struct persist_m'),
                  (r'bool \(FIX8::Session::\*\)\(const FIX8::Session::SequencePair &, FIX8::Session::RetransmissionContext &\)', 'void *')],
        lazy_structs=[r'FIX8::Session', r'FIX8::Session::RetransmissionContext'],
        calls_rx=[(r'FIX8::Field<.*, (7|16)>::Field', 'fuint_ctor0'), (r'FIX8::Field<.*, (7|16)>::operator\(\)', dict(c='fuint_call', sig='const int &() const')),
                  (r'FIX8::(begin_seq_num|end_seq_num)::Field', 'fuint_ctor0'), (r'FIX8::(begin_seq_num|end_seq_num)::operator\(\)', dict(c='fuint_call', sig='const int &() const'))],
        calls={
            SES + '::generate_sequence_reset': dict(c='ses_generate_sequence_reset', sig='FIX8::Message *(const unsigned int, const bool)'),
            SES + '::send': dict(c='ses_send', sig='bool (FIX8::Message *, bool, unsigned int, bool)'),
            SES + '::state_change': 'ses_state_change', SES + '::do_state_change': 'session_do_state_change', SES + '::enforce': 'ses_enforce',
            SES + '::handle_outbound_reject': 'ses_handle_outbound_reject',
            'factory': 'msg_factory', 'retrans_callback': 'session_retrans_callback',
            'FIX8::Message::get': lambda em, n, args: dict(c='inmsg_get_begin' if ('begin' in em.tstr(args[0]['type']) or ', 7>' in em.tstr(args[0]['type'])) else 'inmsg_get_end', sig='bool (FIX8::begin_seq_num &) const'),
            'FIX8::MessageBase::get': lambda em, n, args: dict(c='inmsg_get_begin' if ('begin' in em.tstr(args[0]['type']) or ', 7>' in em.tstr(args[0]['type'])) else 'inmsg_get_end', sig='bool (FIX8::begin_seq_num &) const'),
            'FIX8::Persister::get': dict(c='persist_get_range', sig='unsigned int (const unsigned int, const unsigned int, FIX8::Session &, bool (FIX8::Session::*)(const FIX8::Session::SequencePair &, FIX8::Session::RetransmissionContext &)) const'),
            'std::atomic<FIX8::States::SessionStates>::exchange': 'atomic_exchange_u', 'FIX8::f8_atomic<FIX8::States::SessionStates>::exchange': 'atomic_exchange_u',
        }),
    prelude=PRELUDE,
    force_fields={'FIX8::Session': [('_state', 'FIX8::States::SessionStates'), ('_next_send_seq', 'unsigned int'), ('_persist', 'FIX8::Persister *')],
                  'FIX8::Session::RetransmissionContext': [('_begin', 'unsigned int'), ('_end', 'unsigned int'), ('_interrupted_seqnum', 'unsigned int'), ('_last', 'unsigned int'), ('_no_more_records', 'bool')]},
    functions=[
        dict(q='FIX8::Session::do_state_change', sig=None, cname='session_do_state_change'),
        dict(q='FIX8::Session::retrans_callback', sig=None, cname='session_retrans_callback'),
        dict(q='FIX8::Session::handle_resend_request', sig=None, cname='session_handle_resend_request'),
    ],
    postlude=POST,
    proofs=[
        dict(name='record', harness='h_record', properties=['C18'], solvers=['cadical', 'z3'], timeout=dict(quick=300, thorough=900), floor=6, level='proved-modular'),
        dict(name='finish', harness='h_finish', properties=['C18'], solvers=['cadical', 'z3'], timeout=dict(quick=300, thorough=900), floor=4, level='proved-modular'),
        dict(name='request', harness='h_request', properties=['C18'], solvers=['cadical', 'z3'], timeout=dict(quick=300, thorough=900), floor=4, level='proved-modular'),
    ],
    trusted_base=['ASSUMED: Persister::get(from, to, session, callback) calls the callback once per stored record of the range in ascending order and then once with _no_more_records; '
                  'generate_sequence_reset(n, true) builds a GapFill with NewSeqNo n; send(m, destroy, custom) transmits m with MsgSeqNum custom when custom != 0; Message::factory rebuilds the stored '
                  'message; the inbound BeginSeqNo / EndSeqNo accessors (model bodies in specs/k_rtx.py)'],
    assumptions=['PossDupFlag / OrigSendingTime on replayed messages are set in Session::send_process, not under contract here; sequence numbers below 4*10^9 (no unsigned wrap)'],
)
