"""K-rot (C29): generation shifting in FileLogger::rotate (runtime/logger.cpp) and in the purge block of
FilePersister::initialise (runtime/filepersist.cpp).

Only the rotation block of each function is extracted (statement selection, listed as dropped in the evidence): the rest is
path splitting, stream/fd opening and logging.  Opaque library types are modelled (ASSUMED, model bodies):
  * std::string        identity model: a file name is its generation number (0 = the live file, k = "<name>.k"); c_str() passes it on
  * std::ostringstream {gen}: `<< pathname` must be the base name, `<< '.'`/`<< ".gz"`/`<< ".idx"` keep it, `<< unsigned k` makes it generation k
  * std::vector<string> {size}: push_back(s) must push generation `size` at index `size` (obligation C29.names.*), so element k IS
    generation k and operator[](i) requires i < size (obligation C29.index_in_bounds) and yields generation i
  * rename(src,dst)    ghost log: count, last destination; obligations: dst == src+1 (name.k gets what name.(k-1) held), strictly descending
Both loops carry dfcc loop contracts, so the proof holds for every rotation count (no unwinding).
"""

PRELUDE = r'''
#include <stdlib.h>
#define VACUITY_PROBE() __CPROVER_assert(0, "vacuity-probe")
long nondet_long(void); unsigned nondet_uint(void); _Bool nondet_bool(void); int nondet_int(void);

/* ---- ASSUMED models of the library types (see module docstring) ---- */
struct oss { long gen; };
struct vecs { long size; };
void oss_ctor(struct oss *o) { o->gen = 0; }
struct oss *oss_put_str(struct oss *o, long *s) { __CPROVER_assert(*s == 0, "C29.names.prefix_is_base_name"); return o; }
struct oss *oss_put_char(struct oss *o, char c) { return o; }
struct oss *oss_put_uint(struct oss *o, unsigned v) { o->gen = (long)v; return o; }
struct oss *oss_put_cstr(struct oss *o, const char *s) { return o; }
long oss_str(struct oss *o) { return o->gen; }
void vecs_ctor(struct vecs *v) { v->size = 0; }
void vecs_reserve(struct vecs *v, unsigned long n) { }
unsigned long vecs_size(struct vecs *v) { return (unsigned long)v->size; }
void vecs_push_back(struct vecs *v, long *s)
{
  __CPROVER_assert(*s == v->size, "C29.names.kth_entry_is_generation_k");
  __CPROVER_assert(v->size <= 1024, "C29.names.list_capped_at_max_rotation");      /* at most base + max_rotation generations */
  v->size++;
}
long g_slot[4];
long *vecs_index(struct vecs *v, unsigned long i)
{
  __CPROVER_assert(i < (unsigned long)v->size, "C29.index_in_bounds");
  g_slot[i & 3] = (long)i;
  return &g_slot[i & 3];
}
const char *str_c_str(long *s) { return (const char *)(*s); }
/* ghost rename log */
long g_ren_cnt, g_last_dst, g_ren2_cnt, g_last2_dst;
int rename_model(const char *a, const char *b)
{
  long src = (long)a, dst = (long)b;
  __CPROVER_assert(dst == src + 1, "C29.shift.name_k_gets_name_k_minus_1");
  __CPROVER_assert(g_ren_cnt == 0 || dst == g_last_dst - 1, "C29.shift.descending_without_gaps");
  g_last_dst = dst; g_ren_cnt++;
  return nondet_int();          /* errors are ignored by the callers */
}
'''

POST = r'''
/* FileLogger::rotate: the rotation block, for every configured count, flag set and force value */
void h_rotate(void)
{
  struct FIX8_FileLogger fl; fl._pathname = 0; fl._rotnum = nondet_uint(); fl.__base._flags.a_ = nondet_uint();
  _Bool force = nondet_bool();
  g_ren_cnt = 0; g_last_dst = 0;
  unsigned n = fl._rotnum < 1024u ? fl._rotnum : 1024u;
  _Bool append = (fl.__base._flags.a_ >> E_FIX8_Logger_Flags_append) & 1u;
  unsigned flags0 = fl.__base._flags.a_, rot0 = fl._rotnum;
  filelogger_rotate(&fl, force);
  __CPROVER_assert(fl.__base._flags.a_ == flags0 && fl._rotnum == rot0 && fl._pathname == 0, "C29.rotate.configuration_unchanged");   /* a forced rotation must not change what later calls do */
  _Bool should = fl._rotnum > 0 && (!append || force);
  __CPROVER_assert(should || g_ren_cnt == 0, "C29.append_mode_not_rotated_unless_forced");
  __CPROVER_assert(!should || g_ren_cnt == (long)n, "C29.shift.keeps_min_of_count_and_max");
  __CPROVER_assert(!should || g_last_dst == 1, "C29.shift.down_to_first_generation");
  VACUITY_PROBE();
}
'''

def _mentions(x, name):
    return isinstance(x, dict) and (x.get('name') == name or (x.get('referencedDecl') or {}).get('name') == name or name in str((x.get('type') or {}).get('qualType', ''))
                                    or any(_mentions(c, name) for c in x.get('inner', [])))


def _declares(name):
    return lambda n: n.get('kind') == 'DeclStmt' and any(isinstance(c, dict) and c.get('kind') == 'VarDecl' and c.get('name') == name for c in n.get('inner', []))


def _rot_if(n):
    # the `if (_rotnum > 0 && ...)` block
    return n.get('kind') == 'IfStmt' and _mentions([c for c in n.get('inner', []) if isinstance(c, dict)][0], '_rotnum')


OS = 'std::basic_ostream<char>'
STR = 'std::basic_string<char>'
VEC = 'std::vector<std::basic_string<char>>'

def _native_rot(wd, tier, seed):
    """thorough tier: the real compiled rotate()/initialise(purge) on a scratch directory -- the file-system side (which generations exist, what
    the files hold afterwards) that the contract units abstract away.  A bounded native enumeration, labelled as such, never counted as proof."""
    import os, time
    from specs import registry
    t0 = time.time()
    res = dict(id='C29.generations_on_disk.native', kind='native-enumeration(10 rotation counts incl. 1023..1100 x 6 pre-existing generation sets x 3 modes, real sources, ASan + _GLIBCXX_ASSERTIONS)',
               ok=False, cases=10 * 6 * 4)
    try:
        r = registry.replayers['k_rot']('native:all', {}, '', wd)
        res['ok'] = not r['reproduced']
        res['detail'] = r['steps'][0]['output'][-600:]
    except Exception as e:
        res.update(broken=True, detail=str(e)[-600:])
    res['time'] = round(time.time() - t0, 1)
    return res


UNIT = dict(
    name='k_rot', tu='tu/rt_logger.cpp', no_follow=True,
    native=[dict(name='generations_on_disk_native', properties=['C29'], tier='thorough', run=_native_rot)],
    probe={'E_FIX8_Logger_Flags_append': 'FIX8::Logger::append'},
    emit=dict(
        pod=[r'std::basic_string<char>'],
        bases={'FIX8::FileLogger': 'FIX8::Logger'},
        constants={'max_rotation': 'probe:FIX8::Logger::max_rotation'},
        type_map=[(r'(std::basic_string<char>|std::string|FIX8::f8String|basic_string<char, std::char_traits<char>, std::allocator<char>>|std::basic_ostringstream<char>::__string_type|'
                   r'std::vector<std::basic_string<char>>::value_type|__gnu_cxx::__alloc_traits<std::allocator<std::basic_string<char>>, std::basic_string<char>>::value_type|'
                   r'std::vector<std::basic_string<char>>::value_type)', 'long'),
                  (r'(std::basic_ostringstream<char>|std::ostringstream|std::basic_ostream<char>|basic_ostream<char, std::char_traits<char>>|std::basic_ostream<char>::__ostream_type)', 'struct oss'),
                  (r'(std::vector<std::basic_string<char>>|vector<std::string>)', 'struct vecs'),
                  (r'FIX8::Logger::Flags', 'unsigned int'), (r'FIX8::ebitset<FIX8::Logger::Flags>::integral_type', 'unsigned int'),
                  (r'std::vector::size_type', 'unsigned long')],
        type_alias=[(r'std::vector<std::basic_string<char>>::reference', 'std::basic_string<char> &')],
        lazy_structs=[r'FIX8::FileLogger', r'FIX8::Logger', r'FIX8::ebitset<.*>'],
        calls={
            VEC + '::push_back': dict(c='vecs_push_back', sig='void (const std::basic_string<char> &)'),
            VEC + '::operator[]': 'vecs_index',
            VEC + '::vector': 'vecs_ctor', VEC + '::size': 'vecs_size',
            'std::basic_ostringstream<char>::basic_ostringstream': 'oss_ctor',
            'std::basic_ostringstream<char>::str': 'oss_str',
            STR + '::c_str': 'str_c_str',
            'operator<<|basic_ostream<char, std::char_traits<char>> &(basic_ostream<char, std::char_traits<char>> &, const basic_string<char, std::char_traits<char>, std::allocator<char>> &)': 'oss_put_str',
            'operator<<|basic_ostream<char, std::char_traits<char>> &(basic_ostream<char, std::char_traits<char>> &, char)': 'oss_put_char',
            'operator<<|basic_ostream<char, std::char_traits<char>> &(basic_ostream<char, std::char_traits<char>> &, const char *)': 'oss_put_cstr',
            'struct oss::operator<<': 'oss_put_uint', OS + '::operator<<': 'oss_put_uint',
            'rename': 'rename_model',
            'FIX8::ebitset<FIX8::Logger::Flags>::has': 'flags_has', 'FIX8::ebitset<FIX8::Logger::Flags>::operator&': 'flags_and',
            'FIX8::ebitset<FIX8::Logger::Flags>::clear': 'flags_clear', 'FIX8::ebitset<FIX8::Logger::Flags>::set': 'flags_set',
            VEC + '::reserve': 'vecs_reserve',
        }),
    prelude=PRELUDE,
    functions=[
        dict(q='FIX8::ebitset::has', filter='FIX8::ebitset', mangled='_ZNK4FIX87ebitsetINS_6Logger5FlagsEjE3hasES2_', cname='flags_has'),
        dict(q='FIX8::ebitset::operator&', filter='FIX8::ebitset', mangled='_ZNK4FIX87ebitsetINS_6Logger5FlagsEjEanES2_', cname='flags_and'),
        dict(q='FIX8::ebitset::clear', filter='FIX8::ebitset', mangled='_ZN4FIX87ebitsetINS_6Logger5FlagsEjE5clearES2_', cname='flags_clear', optional=True),
        dict(q='FIX8::ebitset::set', filter='FIX8::ebitset', mangled='_ZN4FIX87ebitsetINS_6Logger5FlagsEjE3setES2_b', cname='flags_set', optional=True),
        dict(q='FIX8::FileLogger::rotate', sig=None, cname='filelogger_rotate', drop_stmts=[lambda n: n.get('kind') == 'CXXDeleteExpr',                                               # delete _ofs
                         lambda n: n.get('kind') == 'CallExpr' and _mentions(n, 'split_path'),                         # split_path(...)
                         lambda n: n.get('kind') == 'IfStmt' and _mentions(n, 'create_path'),                          # if (dir missing) create_path(dir)
                         _declares('mode'),                                                                            # const ios_base::openmode mode(...)
                         lambda n: n.get('kind') == 'BinaryOperator' and n.get('opcode') == '=' and _mentions(n, '_ofs'),   # _ofs = new ofstream(...)
                         lambda n: n.get('kind') == 'IfStmt' and _mentions(n, '_ofs')],                                # if (!_ofs || !*_ofs) throw
             keep_logging=True,
             loops={0: dict(assigns='ii, rlst',
                            invariants=[('inv.names', 'ii <= self->_rotnum && ii <= 1024u && rlst.size == (long)ii + 1')],
                            decreases='(self->_rotnum < 1024u ? self->_rotnum : 1024u) - ii'),
                    1: dict(assigns='ii, g_ren_cnt, g_last_dst, __CPROVER_object_whole(g_slot)',
                            invariants=[('inv.shift', '(long)ii <= rlst.size - 1 && g_ren_cnt == rlst.size - 1 - (long)ii && (g_ren_cnt == 0 || g_last_dst == (long)ii + 1)')],
                            decreases='ii')}),
    ],
    postlude=POST,
    proofs=[
        dict(name='rotate', harness='h_rotate', loop_contracts=True, properties=['C29'], solvers=['cadical', 'z3'], timeout=dict(quick=300, thorough=900), floor=8,
             level='proved-modular'),
    ],
    trusted_base=['ASSUMED: std::string / std::ostringstream / std::vector<std::string> / rename behave as their models in specs/k_rot.py state (file name = generation number; '
                  'vector element k is the k-th pushed string; operator[] requires an index below size())'],
    assumptions=['only the rotation block of FileLogger::rotate / FilePersister::initialise is extracted (directory creation, stream and file-descriptor opening, logging dropped)',
                 'what the files contain is outside this unit: rename(2) moves a file (POSIX); failures of rename are ignored by the code and not modelled as a property violation'],
)


# ---------------------------------------------------------------------------------------------------------------
# FilePersister::initialise: the purge rotation block (two parallel name lists: data file and index file)
def _is_rot_if(n):
    """the `if (_rotnum > 0)` statement inside the purge branch"""
    if n.get('kind') != 'IfStmt':
        return False
    def mentions(x, name):
        return x.get('name') == name or any(isinstance(c, dict) and mentions(c, name) for c in x.get('inner', []))
    cond = [c for c in n.get('inner', []) if isinstance(c, dict)][0]
    return cond.get('kind') == 'BinaryOperator' and cond.get('opcode') == '>' and mentions(cond, '_rotnum')


POST2 = r"""
/* FilePersister::initialise(purge = true): data file and index file generations are shifted in lock step */
void h_purge_rotate(void)
{
  struct FIX8_FilePersister fp; fp._dbFname = 0; fp._dbIname = 0; fp._rotnum = nondet_uint();
  g_ren_cnt = 0; g_last_dst = 0;
  unsigned n = fp._rotnum < 1024u ? fp._rotnum : 1024u;
  filepersister_purge_rotate(&fp, 0, 0, 1);
  __CPROVER_assert(fp._rotnum > 0 || g_ren_cnt == 0, "C29.purge.zero_count_renames_nothing");
  __CPROVER_assert(g_ren_cnt == 2 * (long)n, "C29.purge.keeps_min_of_count_and_max_for_both_files");
  __CPROVER_assert(n == 0 || g_last_dst == 1, "C29.purge.down_to_first_generation");
  VACUITY_PROBE();
}
"""

UNIT2 = dict(UNIT)
UNIT2.update(
    name='k_rot_fp', tu='tu/rt_filepersist.cpp',
    probe={},
    emit=dict(UNIT['emit'], bases={}, lazy_structs=[r'FIX8::FilePersister', r'FIX8::Logger'],
              constants={'max_rotation': 'probe:FIX8::Logger::max_rotation'}),
    # the two lists are renamed alternately (data k, index k, data k-1, ...): the ghost log keeps one "last destination" per list,
    # selected by call parity, so adjacency / descending order is checked per list
    prelude=PRELUDE.replace('__CPROVER_assert(g_ren_cnt == 0 || dst == g_last_dst - 1, "C29.shift.descending_without_gaps");\n  g_last_dst = dst; g_ren_cnt++;',
                            'if (g_ren_cnt % 2 == 0) { __CPROVER_assert(g_ren_cnt == 0 || dst == g_last_dst - 1, "C29.shift.descending_without_gaps"); g_last_dst = dst; }\n'
                            '  else { __CPROVER_assert(dst == g_last_dst, "C29.purge.index_file_follows_data_file"); }\n  g_ren_cnt++;'),
    functions=[
        dict(q='FIX8::FilePersister::initialise', sig='bool (const FIX8::f8String &, const FIX8::f8String &, bool)', cname='filepersister_purge_rotate',
             select_node=_is_rot_if, keep_logging=True,
             loops={0: dict(assigns='ii, dblst, idxlst',
                            invariants=[('inv.names', 'ii <= self->_rotnum && ii <= 1024u && dblst.size == (long)ii + 1 && idxlst.size == (long)ii + 1')],
                            decreases='(self->_rotnum < 1024u ? self->_rotnum : 1024u) - ii'),
                    1: dict(assigns='ii, g_ren_cnt, g_last_dst, __CPROVER_object_whole(g_slot)',
                            invariants=[('inv.shift', '(long)ii <= dblst.size - 1 && dblst.size == idxlst.size && g_ren_cnt == 2 * (dblst.size - 1 - (long)ii) && (g_ren_cnt == 0 || g_last_dst == (long)ii + 1)')],
                            decreases='ii')}),
    ],
    postlude=POST2,
    proofs=[
        dict(name='purge_rotate', harness='h_purge_rotate', loop_contracts=True, properties=['C29'], solvers=['cadical', 'z3'], timeout=dict(quick=300, thorough=900), floor=8,
             level='proved-modular'),
    ],
)
