"""K-chk: Message::calc_chksum (message.hpp) -- C07, used by C02/C04.

Spec: lock-step ghost byte sum.  gi counts the bytes the ghost has summed (always the
next unsummed index), gsum is their sum mod 256.  The postcondition ties the return
value to gsum and gi to n, so the result is the sum of exactly bytes [offset, offset+n).
Lane invariants (see DESIGN 6/C07): the 32-bit accumulator `ret` holds four byte lanes;
G0..G3 are ghost lane sums mod 256, T0..T2 ghost counts (mod 256) of carries between lanes.
"""

N_OF = '(len != -1 ? (unsigned long)len : sz - (unsigned long)offset)'

PRELUDE = r'''
#define VACUITY_PROBE() __CPROVER_assert(0, "vacuity-probe")
/* string model "view": a std::string is its byte array and its length (ASSUMED: c_str() / size() return them) */
struct strview { const char *data; unsigned long size; };
const char *sv_c_str(const struct strview *s) { return s->data; }
unsigned long sv_size(const struct strview *s) { return s->size; }
/* ---- ghost state of K-chk ---- */
unsigned long gi_out;        /* published at return: number of bytes the spec summed */
unsigned gsum_out;           /* published at return: their sum mod 256 */
#define UB(p,i) (((unsigned)(p)[i]) & 0xffu)
#define LANE(x,k) (((x) >> (8*(k))) & 0xffu)
#define CNT(ii) ((ii) <= 256 ? (ii)/4 : (((ii)-4) % 256)/4)
/* one spec step: add the next byte */
#define SPEC_ADD_BYTE() (gsum = (gsum + UB(gfrom, gi)) & 0xffu, gi++)
'''

# ghost for one iteration of the word loop: runs before the real body, reads ret *before* the add
LOOP0_BEGIN = r'''
    { /* ghost: lane bookkeeping for the 4 bytes this iteration consumes */
      unsigned b0 = UB(from, ii), b1 = UB(from, ii+1), b2 = UB(from, ii+2), b3 = UB(from, ii+3);
      unsigned s0 = LANE(ret,0) + b0, c0 = s0 >> 8;
      unsigned s1 = LANE(ret,1) + b1 + c0, c1 = s1 >> 8;
      unsigned s2 = LANE(ret,2) + b2 + c1, c2 = s2 >> 8;
      G0 = (G0 + b0) & 0xffu; G1 = (G1 + b1) & 0xffu; G2 = (G2 + b2) & 0xffu; G3 = (G3 + b3) & 0xffu;
      T0 = (T0 + c0) & 0xffu; T1 = (T1 + c1) & 0xffu; T2 = (T2 + c2) & 0xffu;
      SPEC_ADD_BYTE(); SPEC_ADD_BYTE(); SPEC_ADD_BYTE(); SPEC_ADD_BYTE();
    }
'''

LOOP1_BEGIN = r'''
    SPEC_ADD_BYTE();
'''

UNIT = dict(
    name='k_chk',
    tu='tu/core.cpp',
    emit=dict(calls={'fix8pro_collapse_int32': 'fix8pro_collapse_int32',
                     'calc_chksum|unsigned int (const char *, const size_t, const unsigned int, const int)': 'calc_chksum',
                     'std::basic_string<char>::c_str': 'sv_c_str', 'std::basic_string<char>::size': 'sv_size'},
              type_map=[(r'(FIX8::f8String|std::basic_string<char>|std::string)', 'struct strview')]),
    prelude=PRELUDE,
    functions=[
        dict(q='FIX8::fix8pro_collapse_int32', sig=None, cname='fix8pro_collapse_int32'),
        dict(q='FIX8::Message::calc_chksum',
             sig='unsigned int (const char *, const size_t, const unsigned int, const int)',
             cname='calc_chksum',
             contract=[
                 ('requires', 'C07.pre.len', 'len >= -1'),
                 ('requires', 'C07.pre.size', 'sz <= 2147483647ul && offset <= sz && (len == -1 || (unsigned long)offset + (unsigned long)len <= sz)'),
                 # the buffer is exactly the range to be summed: any access outside [offset, offset+n) is a bounds violation
                 ('requires', 'C07.pre.buf', '__CPROVER_is_fresh(from, (unsigned long)offset + %s)' % N_OF),
                 ('assigns', None, 'gi_out, gsum_out'),
                 ('ensures', 'C07.sum_mod_256', '__CPROVER_return_value == gsum_out'),
                 ('ensures', 'C07.exact_range', 'gi_out == %s' % N_OF),
             ],
             ghost={'entry': '''  /* ghost locals: gi = number of bytes summed by the spec so far, gsum = their sum mod 256,
     G0..G3 lane sums mod 256, T0..T2 carries out of lanes 0..2 mod 256, gfrom = start of range */
  unsigned long gi = 0; unsigned gsum = 0; unsigned G0 = 0, G1 = 0, G2 = 0, G3 = 0, T0 = 0, T1 = 0, T2 = 0;
  const char *gfrom = from + offset;''',
                    'ret': '  gi_out = gi; gsum_out = gsum; /* ghost: publish */', 'loop0.begin': LOOP0_BEGIN, 'loop1.begin': LOOP1_BEGIN},
             loops={
                 0: dict(assigns='ii, ret, overflow, overflowtmp, gi, gsum, G0, G1, G2, G3, T0, T1, T2',
                         invariants=[
                             ('inv.idx', 'ii % 4 == 0 && ii <= eeii && eeii <= elen && eeii % 8 == 0 && elen - eeii < 8 && gi == ii && from == gfrom'),
                             ('inv.lane0', 'LANE(ret,0) == G0'),
                             ('inv.lane1', 'LANE(ret,1) == ((G1 + T0) & 0xffu)'),
                             ('inv.lane2', 'LANE(ret,2) == ((G2 + T1) & 0xffu)'),
                             ('inv.lane3', 'LANE(ret,3) == ((G3 + T2) & 0xffu)'),
                             ('inv.ovf_lanes', 'LANE(overflowtmp,0) == 0 && LANE(overflowtmp,1) <= CNT(ii) && LANE(overflowtmp,2) <= CNT(ii) && LANE(overflowtmp,3) <= CNT(ii)'),
                             ('inv.ovf_sum', '((overflow + LANE(overflowtmp,1) + LANE(overflowtmp,2) + LANE(overflowtmp,3)) & 0xffu) == ((T0 + T1 + T2) & 0xffu)'),
                             ('inv.spec', 'gsum == ((G0 + G1 + G2 + G3) & 0xffu)'),
                         ],
                         decreases='eeii - ii'),
                 1: dict(assigns='ii, ret, gi, gsum',
                         invariants=[
                             ('inv.tail', 'ii <= elen && gi == ii && from == gfrom && ((ret - overflow) & 0xffu) == gsum'),
                         ],
                         decreases='elen - ii'),
             }),
        dict(q='FIX8::Message::calc_chksum', sig='unsigned int (const FIX8::f8String &, const unsigned int, const int)', cname='calc_chksum_str'),
    ],
    postlude=r'''
#include <stdlib.h>
/* the std::string overload: hands exactly (bytes, size, offset, len) to the pointer overload, so its result is the byte sum of
   [offset, offset+n) of the string -- proved from the pointer overload's CONTRACT (replaced call), i.e. modularly */
void h_chk_str(void)
{
  struct strview s; unsigned offset; int len;
  __CPROVER_assume(len >= -1 && s.size <= 2147483647ul && offset <= s.size && (len == -1 || (unsigned long)offset + (unsigned long)len <= s.size));
  unsigned long n = len != -1 ? (unsigned long)len : s.size - offset;
  char *bytes = malloc(offset + n); __CPROVER_assume(bytes != 0); s.data = bytes;       /* exactly the bytes that may be read */
  unsigned r = calc_chksum_str(&s, offset, len);
  __CPROVER_assert(r == gsum_out, "C07.str.sum_mod_256");
  __CPROVER_assert(gi_out == n, "C07.str.exact_range");
  VACUITY_PROBE();
}
void h_chk(void)
{
  const char *from; unsigned long sz; unsigned offset; int len;
  calc_chksum((char*)from, sz, offset, len);
  VACUITY_PROBE();
}
''',
    proofs=[
        dict(name='chk_str', harness='h_chk_str', replace=['calc_chksum'], solvers=['cadical', 'z3'], timeout=dict(quick=120, thorough=300),
             properties=['C07', 'C02'], floor=5, level='proved-modular'),
        dict(name='chk', harness='h_chk', enforce=['calc_chksum'], loop_contracts=True,
             solvers=['cadical', 'z3'], timeout=dict(quick=120, thorough=300),
             # the 8-bit adder-tree equality gsum == G0+G1+G2+G3 is AC-normalised by z3 at once; SAT does not finish
             solver_hints=[(r'loop_invariant_step .*gsum == \(G0', ['z3'])],
             properties=['C07', 'C02'], floor=16),
    ],
)
