"""K-int: itoa<int>, itoa<unsigned>, fast_atoi<int|unsigned|unsigned short> (f8utils.hpp) -- C08 integers, C01 step 1.

Spec functions (trusted, tiny): spec_canon = "canonical decimal text" (optional '-', no
leading zero unless the text is "0", digits only), spec_val = its value, strtol-style.
Loops are bounded by the 11-character width of a 32-bit decimal; every loop is unwound to
that width with unwinding assertions, which is complete for the 32-bit domain.
"""

from vlib.unit import harness_from_contract

PRELUDE = r'''
#include <string.h>
/* length of a NUL-terminated text of at most 11 characters in a 12-byte buffer (12 = not terminated) */
unsigned long spec_len(const char *s) { unsigned long i = 0; for (; i < 12 && s[i] != 0; ++i) ; return i; }
#define VACUITY_PROBE() __CPROVER_assert(0, "vacuity-probe")
/* ---- spec functions for decimal text (trusted oracle) ---- */
/* value of an optionally signed decimal string (no overflow for <= 10 digits in long) */
long spec_val(const char *s)
{
  long v = 0; int neg = 0; unsigned i = 0;
  if (s[0] == '-') { neg = 1; i = 1; }
  for (; i < 12 && s[i] != 0; ++i) v = v * 10 + (s[i] - '0');
  return neg ? -v : v;
}
/* canonical decimal text of exactly n characters: -?(0|[1-9][0-9]*), '-' iff neg, "-0" excluded */
_Bool spec_canon(const char *s, unsigned long n, _Bool neg)
{
  unsigned i = 0;
  if (n == 0 || n > 11) return 0;
  if (neg) { if (s[0] != '-') return 0; i = 1; if (n < 2) return 0; }
  if (s[i] == '0' && (n - i != 1 || neg)) return 0;       /* no leading zero, no "-0" */
  for (; i < 12 && i < n; ++i) if (s[i] < '0' || s[i] > '9') return 0;
  return s[n] == 0;
}
'''

POST = r'''
/* direct composition on the real bodies (no contract replacement) */
void h_rt_int(void)
{
  int x; char buf[12];
#ifdef SIGN_NEG
  __CPROVER_assume(x < 0);
#else
  __CPROVER_assume(x >= 0);
#endif
  unsigned long n = itoa_int(x, buf, 10);
  int r = fast_atoi_int(buf, 0);
  __CPROVER_assert(r == x, "C08.int.roundtrip");
  VACUITY_PROBE();
}
void h_rt_uint(void)
{
  unsigned x; char buf[12];
  unsigned long n = itoa_uint(x, buf, 10);
  unsigned r = fast_atoi_uint(buf, 0);
  __CPROVER_assert(r == x, "C08.uint.roundtrip");
  VACUITY_PROBE();
}
/* modular lemma: the two contracts compose to the round trip */
void h_rt_int_modular(void)
{
  int x; char buf[12];
  unsigned long n = itoa_int(x, buf, 10);
  int r = fast_atoi_int(buf, 0);
  __CPROVER_assert(r == x, "C08.int.roundtrip.modular");
  VACUITY_PROBE();
}
'''


def itoa_contract(p, neg_expr, vexpr):
    return [
        ('requires', p + '.pre.buf', '__CPROVER_is_fresh(result, 12)'),
        ('requires', p + '.pre', 'base == 10'),
        ('assigns', None, '__CPROVER_object_whole(result)'),
        ('ensures', p + '.len', '__CPROVER_return_value >= 1 && __CPROVER_return_value <= 11 && result[__CPROVER_return_value] == 0'),
        ('ensures', p + '.canonical', 'spec_canon(result, __CPROVER_return_value, %s)' % neg_expr),
        ('ensures', p + '.value', 'spec_val(result) == %s' % vexpr),
    ]


def atoi_contract(p, lo, hi, signed):
    return [
        ('requires', p + '.pre.buf', '__CPROVER_is_fresh(str, 12)'),
        ('requires', p + '.pre', 'term == 0 && spec_len(str) <= 11'),
        ('requires', p + '.pre.canon', '(spec_canon(str, spec_len(str), 0) || (%s && spec_canon(str, spec_len(str), 1))) && spec_val(str) >= %s && spec_val(str) <= %s' % ('1' if signed else '0', lo, hi)),
        ('assigns', None, ''),
        ('ensures', p + '.value', '(long)__CPROVER_return_value == spec_val(str)'),
    ]


C_ITOA_INT = itoa_contract('C08.int', 'value < 0', '(long)value')
C_ITOA_UINT = itoa_contract('C08.uint', '0', '(long)value')
C_ATOI_INT = atoi_contract('C08.atoi_int', '(-2147483647L-1)', '2147483647L', True)
C_ATOI_UINT = atoi_contract('C08.atoi_uint', '0', '4294967295L', False)
C_ATOI_USHORT = atoi_contract('C08.atoi_ushort', '0', '65535L', False)
ITOA_DECLS = '  %s value; char buf[12]; char *result = buf; int base = 10;\n#ifdef SIGN_NEG\n  __CPROVER_assume(value < 0);\n#endif\n#ifdef SIGN_POS\n  __CPROVER_assume(value >= 0);\n#endif'
ATOI_DECLS = '  char buf[12]; char *str = buf; char term = 0;'
POST += '\n'.join([
    harness_from_contract('h_itoa_int', 'itoa_int', C_ITOA_INT, ITOA_DECLS % 'int', ['value', 'result', 'base'], 'unsigned long'),
    harness_from_contract('h_itoa_uint', 'itoa_uint', C_ITOA_UINT, ITOA_DECLS % 'unsigned', ['value', 'result', 'base'], 'unsigned long'),
    harness_from_contract('h_atoi_int', 'fast_atoi_int', C_ATOI_INT, ATOI_DECLS, ['str', 'term'], 'int'),
    harness_from_contract('h_atoi_uint', 'fast_atoi_uint', C_ATOI_UINT, ATOI_DECLS, ['str', 'term'], 'unsigned'),
    harness_from_contract('h_atoi_ushort', 'fast_atoi_ushort', C_ATOI_USHORT, ATOI_DECLS, ['str', 'term'], 'unsigned short'),
])

UW = ['spec_len.0:13', 'itoa_int.0:12', 'itoa_int.1:7', 'itoa_uint.0:12', 'itoa_uint.1:7', 'strlen.0:13', 'spec_val.0:13', 'spec_canon.0:13',
      'fast_atoi_int.0:13', 'fast_atoi_uint.0:13', 'fast_atoi_ushort.0:13']

UNIT = dict(
    name='k_int',
    tu='tu/core.cpp',
    emit=dict(calls={'strlen': 'strlen'}),
    prelude=PRELUDE,
    functions=[
        dict(q='FIX8::itoa', sig='size_t (int, char *, int)', cname='itoa_int',
             contract=C_ITOA_INT),
        dict(q='FIX8::itoa', sig='size_t (unsigned int, char *, int)', cname='itoa_uint',
             contract=C_ITOA_UINT),
        dict(q='FIX8::fast_atoi', sig='int (const char *, const char)', cname='fast_atoi_int',
             contract=C_ATOI_INT),
        dict(q='FIX8::fast_atoi', sig='unsigned int (const char *, const char)', cname='fast_atoi_uint',
             contract=C_ATOI_UINT),
        dict(q='FIX8::fast_atoi', sig='unsigned short (const char *, const char)', cname='fast_atoi_ushort',
             contract=C_ATOI_USHORT),
    ],
    postlude=POST,
    proofs=[
        dict(name='itoa_int_pos', harness='h_itoa_int', unwind=13, properties=['C08', 'C01'], cc_flags=['-DSIGN_POS'],
             solvers=['kissat', 'cadical'], timeout=dict(quick=900, thorough=1500), floor=4),
        dict(name='itoa_int_neg', harness='h_itoa_int', unwind=13, properties=['C08', 'C01'], cc_flags=['-DSIGN_NEG'],
             solvers=['kissat', 'cadical'], timeout=dict(quick=900, thorough=1500), floor=4),
        dict(name='itoa_uint', harness='h_itoa_uint', unwind=13, properties=['C08', 'C01', 'C02'],
             solvers=['kissat', 'cadical'], timeout=dict(quick=900, thorough=1500), floor=4),
        dict(name='atoi_int', harness='h_atoi_int', unwind=13, properties=['C08', 'C01'],
             solvers=['kissat', 'cadical'], timeout=dict(quick=900, thorough=1500), floor=1),
        dict(name='atoi_uint', harness='h_atoi_uint', unwind=13, properties=['C08', 'C01'],
             solvers=['cadical', 'kissat'], timeout=dict(quick=900, thorough=1500), floor=1),
        dict(name='atoi_ushort', harness='h_atoi_ushort', unwind=13, properties=['C08', 'C04'],
             solvers=['cadical', 'kissat'], timeout=dict(quick=900, thorough=1500), floor=1),
        dict(name='rt_int_modular', harness='h_rt_int_modular', replace=['itoa_int', 'fast_atoi_int'], unwindset=UW,
             properties=['C08', 'C01'], solvers=['cadical', 'kissat'], timeout=dict(quick=900, thorough=1500), floor=1),
        dict(name='rt_int_pos', harness='h_rt_int', unwind=13, properties=['C08', 'C01'], tier='thorough',
             solvers=['kissat', 'cadical'], timeout=dict(quick=900, thorough=1500), floor=1),
        dict(name='rt_int_neg', harness='h_rt_int', unwind=13, properties=['C08', 'C01'], tier='thorough', cc_flags=['-DSIGN_NEG'],
             solvers=['kissat', 'cadical'], timeout=dict(quick=900, thorough=1500), floor=1),
        dict(name='rt_uint', harness='h_rt_uint', unwind=13, properties=['C08', 'C01'], tier='thorough',
             solvers=['kissat', 'cadical'], timeout=dict(quick=900, thorough=1500), floor=1),
    ],
    trusted_base=['spec_val/spec_canon (12-line strtol-style oracle in specs/k_int.py)', 'CBMC built-in strlen model'],
    assumptions=['itoa is only called with base 10 (checked at the call sites that are under contract)'],
)
