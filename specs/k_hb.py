"""K-hb (C22): Session::heartbeat_service (one supervision tick), handle_test_request, handle_heartbeat (runtime/session.cpp) and
Connection::set_hb_interval / get_hb_interval20pc (connection.hpp: the "plus 20 percent"), bodies extracted from the clang AST.

Virtual clock: `Tickval now(true)` and `now.now()` read two ghost instants g_now1 <= g_now2 (ASSUMED: the clock does not go backwards);
Tickval is a nanosecond count, `(a - b).secs()` is the whole number of seconds of the difference.  Sending is a model that logs what is
sent (Heartbeat with/without TestReqID, TestRequest, Logout) -- generate_* build those messages (ASSUMED).
Spec per tick (from the property, with the code's whole-second granularity made explicit):
  idle_s = whole seconds since the last send (first clock read), silent_s = whole seconds since the last receive (second clock read)
  idle_s >= H                                    => a Heartbeat without TestReqID is sent
  silent_s > H20 and no TestRequest outstanding  => a TestRequest is sent and one is now outstanding
  silent_s > H20 and a TestRequest outstanding   => a Logout is sent, the session is stopped and terminated
  nothing else is sent; nothing at all when shut down or not connected;  H20 = H + H/5.
"""
PRE_STRUCTS = r'''
struct msg_m { int kind; long id; };                  /* a generated message: kind (below) and its TestReqID as an id */
struct conn_m { unsigned _hb_interval, _hb_interval20pc; _Bool connected; };
struct oss_m { int dummy; };
struct fstr_m { long _value; };
'''
PRELUDE = r'''
#define VACUITY_PROBE() __CPROVER_assert(0, "vacuity-probe")
long nondet_long(void); unsigned nondet_uint(void); _Bool nondet_bool(void);
#define BILLION 1000000000L
enum { K_HB = 1, K_TESTREQ = 2, K_LOGOUT = 3 };
/* ---- ghost ---- */
long g_now1, g_now2; int g_clock_reads;
_Bool g_shutdown;
int g_sent_n; int g_sent_kind[4]; long g_sent_id[4]; _Bool g_sent_noinc[4];
_Bool g_stopped; long g_inbound_testreqid;
struct msg_m g_m[4]; int g_m_n;
/* ---- ASSUMED models ---- */
_Bool ses_is_shutdown(void *self) { return g_shutdown; }
_Bool conn_is_connected(struct conn_m *c) { return c->connected; }
void tick_ctor_now(long *t, _Bool now) { *t = now ? (g_clock_reads++ == 0 ? g_now1 : g_now2) : 0; }
long *tick_now(long *t) { *t = g_clock_reads++ == 0 ? g_now1 : g_now2; return t; }
long tick_minus(const long *a, const long *b) { return *a - *b; }
long tick_secs(const long *t) { return *t / BILLION; }
void str_ctor0(long *s) { *s = 0; }                                  /* empty string = id 0 */
void str_ctor_cstr(long *s, const char *c, void *alloc) { *s = 7777; }   /* "TEST" */
_Bool str_empty(const long *s) { return *s == 0; }
void oss_ctor(struct oss_m *o) { }
long oss_str(struct oss_m *o) { return 4242; }
const char *str_c_str(const long *s) { return (const char *)(*s); }
static struct msg_m *mk(int kind, long id) { __CPROVER_assume(g_m_n < 4); g_m[g_m_n].kind = kind; g_m[g_m_n].id = id; return &g_m[g_m_n++]; }
struct msg_m *ses_generate_heartbeat(void *self, const long *testReqID) { return mk(K_HB, *testReqID); }
struct msg_m *ses_generate_test_request(void *self, const long *testReqID) { return mk(K_TESTREQ, *testReqID); }
struct msg_m *ses_generate_logout(void *self, const char *text) { return mk(K_LOGOUT, 0); }
_Bool ses_send(void *self, struct msg_m *m, _Bool destroy, unsigned custom_seqnum, _Bool no_increment)
{ __CPROVER_assume(g_sent_n < 4); g_sent_kind[g_sent_n] = m->kind; g_sent_id[g_sent_n] = m->id; g_sent_noinc[g_sent_n] = no_increment; g_sent_n++; return 1; }
void ses_log(void *self, const long *what, unsigned lev, const char *fl, unsigned val) { }
void ses_stop(void *self, _Bool clearTimer) { g_stopped = 1; }
void ses_state_change(void *self, unsigned before, unsigned after) { }
unsigned atomic_exchange_u(unsigned *a, unsigned v, int mo) { unsigned o = *a; *a = v; return o; }
_Bool ses_enforce(void *self, unsigned seqnum, const void *msg) { return nondet_bool(); }      /* the gate (K-seq); its verdict is not used by these handlers */
struct msg_m g_inbound, g_inbound_hdr;                /* the inbound message (its body carries TestReqID) and its header part (which does not) */
struct msg_m *msg_Header(const struct msg_m *m) { return &g_inbound_hdr; }
_Bool inmsg_get_testreqid(const void *msg, struct fstr_m *to) { if (msg != (const void *)&g_inbound) return 0; to->_value = g_inbound_testreqid; return 1; }
void fstr_ctor0(struct fstr_m *f) { f->_value = 0; }
const long *fstr_call(const struct fstr_m *f) { return &f->_value; }
'''
POST = r'''
static void mk_session(struct FIX8_Session *s, struct conn_m *c)
{
  s->_state = nondet_uint(); __CPROVER_assume(s->_state < K_st_num_states);
  s->_connection = nondet_bool() ? c : 0; c->connected = nondet_bool();
  unsigned H = nondet_uint(); __CPROVER_assume(H >= 1 && H <= 86400);           /* heartbeat interval in seconds */
  conn_set_hb_interval(c, H);                                                  /* the real setter computes the 20 percent margin */
  s->_last_sent = nondet_long(); s->_last_received = nondet_long();
  s->_loginParameters._silent_disconnect = nondet_bool();
  g_now1 = nondet_long(); g_now2 = nondet_long();
  __CPROVER_assume(0 <= s->_last_sent && s->_last_sent <= g_now1 && 0 <= s->_last_received && s->_last_received <= g_now1 && g_now1 <= g_now2 && g_now2 < 4000000000000000000L);
  g_clock_reads = 0; g_sent_n = 0; g_m_n = 0; g_stopped = 0; g_shutdown = nondet_bool();
}
void h_tick(void)
{
  struct FIX8_Session s; struct conn_m c; mk_session(&s, &c);
  unsigned H = c._hb_interval, H20 = c._hb_interval20pc, state0 = s._state;
  __CPROVER_assert(H20 == H + H / 5, "C22.margin_is_interval_plus_20_percent");
  long idle_s = (g_now1 - s._last_sent) / BILLION, silent_s = (g_now2 - s._last_received) / BILLION;
  _Bool live = !g_shutdown && s._connection != 0 && c.connected;
  _Bool want_hb = live && idle_s >= (long)H;
  _Bool silent = live && silent_s > (long)H20;
  _Bool want_logout = silent && state0 == E_FIX8_States_SessionStates_st_test_request_sent;
  _Bool want_testreq = silent && state0 != E_FIX8_States_SessionStates_st_test_request_sent && state0 != E_FIX8_States_SessionStates_st_session_terminated;
  __exc = 0;
  _Bool r = session_heartbeat_service(&s);
  __CPROVER_assert(!__exc, "C22.tick_does_not_throw");
  __CPROVER_assert(r == !g_shutdown, "C22.tick_keeps_the_timer_running_until_shutdown");
  __CPROVER_assert(g_sent_n == (want_hb ? 1 : 0) + ((want_logout || want_testreq) ? 1 : 0), "C22.sends_exactly_what_the_protocol_requires");
  __CPROVER_assert(!want_hb || (g_sent_kind[0] == K_HB && g_sent_id[0] == 0), "C22.heartbeat_after_H_seconds_without_sending");
  int k = want_hb ? 1 : 0;
  __CPROVER_assert(!want_testreq || (g_sent_kind[k] == K_TESTREQ && s._state == E_FIX8_States_SessionStates_st_test_request_sent), "C22.test_request_after_silence_beyond_the_margin");
  __CPROVER_assert(!want_logout || (g_sent_kind[k] == K_LOGOUT && g_stopped && s._state == E_FIX8_States_SessionStates_st_session_terminated), "C22.logout_and_termination_when_test_request_unanswered");
  __CPROVER_assert(want_logout || want_testreq || s._state == state0, "C22.state_unchanged_otherwise");
  __CPROVER_assert(want_logout || !g_stopped, "C22.session_stopped_only_after_an_unanswered_test_request");
  VACUITY_PROBE();
}
/* an inbound TestRequest is answered with a Heartbeat carrying the same TestReqID */
void h_test_request(void)
{
  struct FIX8_Session s; struct conn_m c; mk_session(&s, &c);
  g_inbound_testreqid = nondet_long(); __CPROVER_assume(g_inbound_testreqid != 0);          /* a TestRequest carries a non-empty TestReqID */
  __exc = 0;
  session_handle_test_request(&s, nondet_uint(), &g_inbound);
  __CPROVER_assert(g_sent_n == 1 && g_sent_kind[0] == K_HB && g_sent_id[0] == g_inbound_testreqid, "C22.test_request_answered_with_heartbeat_carrying_its_id");
  VACUITY_PROBE();
}
/* an inbound Heartbeat while a TestRequest is outstanding returns the session to normal operation */
void h_heartbeat(void)
{
  struct FIX8_Session s; struct conn_m c; mk_session(&s, &c);
  unsigned state0 = s._state; int dummy_msg;
  __exc = 0;
  session_handle_heartbeat(&s, nondet_uint(), &dummy_msg);
  __CPROVER_assert(s._state == (state0 == E_FIX8_States_SessionStates_st_test_request_sent ? E_FIX8_States_SessionStates_st_continuous : state0), "C22.heartbeat_clears_outstanding_test_request");
  __CPROVER_assert(g_sent_n == 0, "C22.heartbeat_is_not_answered");
  VACUITY_PROBE();
}
'''
SES = 'FIX8::Session'
UNIT = dict(
    name='k_hb', tu='tu/rt_session.cpp', no_follow=True,
    pre_structs=PRE_STRUCTS,
    probe={'K_st_num_states': 'FIX8::States::st_num_states', 'E_FIX8_States_SessionStates_st_continuous': 'FIX8::States::st_continuous',
           'E_FIX8_States_SessionStates_st_test_request_sent': 'FIX8::States::st_test_request_sent', 'E_FIX8_States_SessionStates_st_session_terminated': 'FIX8::States::st_session_terminated'},
    emit=dict(
        exceptions=True,
        pod=[r'std::basic_string<char>', r'FIX8::Tickval'],
        zero_default=[r'std::basic_string<char>'],
        default_args={'ses_send': {1: '1', 2: '0u', 3: '0'}, 'ses_log': {1: '1u', 2: '0', 3: '0u'}, 'ses_stop': {0: '1'}, 'atomic_exchange_u': {1: '5'}, 'str_ctor_cstr': {1: '0'},
                      'fstr_ctor0': {}},
        type_map=[(r'(std::basic_string<char>|std::string|FIX8::f8String)', 'long'), (r'FIX8::States::SessionStates', 'unsigned int'),
                  (r'FIX8::f8_atomic<FIX8::States::SessionStates>|std::atomic<FIX8::States::SessionStates>', 'unsigned int'),
                  (r'FIX8::Message|FIX8::MessageBase', 'struct msg_m'), (r'FIX8::Connection', 'struct conn_m'), (r'FIX8::Tickval', 'long'),
                  (r'std::basic_ostringstream<char>|std::ostringstream|std::basic_ostream<char>', 'struct oss_m'),
                  (r'FIX8::test_request_id|FIX8::Field<std::basic_string<char>, 112>', 'struct fstr_m'), (r'FIX8::Logger::Level', 'unsigned int'),
                  (r'std::allocator<char>', 'void *'), (r'time_t', 'long')],
        lazy_structs=[r'FIX8::Session', r'FIX8::LoginParameters'],
        calls={
            SES + '::is_shutdown': 'ses_is_shutdown', 'FIX8::Connection::is_connected': 'conn_is_connected',
            'FIX8::Connection::get_hb_interval': 'conn_get_hb_interval', 'FIX8::Connection::get_hb_interval20pc': 'conn_get_hb_interval20pc',
            'FIX8::Tickval::Tickval|void (bool)': 'tick_ctor_now', 'FIX8::Tickval::now': 'tick_now', 'operator-': 'tick_minus', 'FIX8::Tickval::secs': 'tick_secs',
            'std::basic_string<char>::basic_string|void () noexcept': 'str_ctor0', 'std::basic_string<char>::basic_string|void ()': 'str_ctor0',
            'std::basic_string<char>::basic_string|void (const char *, const std::allocator<char> &)': 'str_ctor_cstr',
            'std::basic_string<char>::empty': 'str_empty', 'std::basic_string<char>::c_str': 'str_c_str',
            'std::basic_ostringstream<char>::basic_ostringstream': 'oss_ctor', 'std::basic_ostringstream<char>::str': 'oss_str',
            SES + '::generate_heartbeat': dict(c='ses_generate_heartbeat', sig='FIX8::Message *(const FIX8::f8String &)'),
            SES + '::generate_test_request': dict(c='ses_generate_test_request', sig='FIX8::Message *(const FIX8::f8String &)'),
            SES + '::generate_logout': 'ses_generate_logout',
            SES + '::send': dict(c='ses_send', sig='bool (FIX8::Message *, bool, unsigned int, bool)'),
            SES + '::log': dict(c='ses_log', sig='bool (const std::string &, FIX8::Logger::Level, const char *, const unsigned int) const'),
            SES + '::stop': 'ses_stop', SES + '::state_change': 'ses_state_change', SES + '::do_state_change': 'session_do_state_change',
            SES + '::enforce': 'ses_enforce',
            'FIX8::Message::Header': 'msg_Header',
            'FIX8::Message::get': dict(c='inmsg_get_testreqid', sig='bool (FIX8::test_request_id &) const'), 'FIX8::MessageBase::get': dict(c='inmsg_get_testreqid', sig='bool (FIX8::test_request_id &) const'),
            'FIX8::test_request_id::Field': 'fstr_ctor0', 'FIX8::Field<std::basic_string<char>, 112>::Field': 'fstr_ctor0',
            'FIX8::Field<std::basic_string<char>, 112>::operator()': 'fstr_call', 'FIX8::test_request_id::operator()': 'fstr_call',
            'std::atomic<FIX8::States::SessionStates>::exchange': 'atomic_exchange_u', 'FIX8::f8_atomic<FIX8::States::SessionStates>::exchange': 'atomic_exchange_u',
        }),
    prelude=PRELUDE,
    force_fields={'FIX8::Session': [('_state', 'FIX8::States::SessionStates'), ('_connection', 'FIX8::Connection *'), ('_last_sent', 'FIX8::Tickval'), ('_last_received', 'FIX8::Tickval'),
                                    ('_loginParameters', 'FIX8::LoginParameters')],
                  'FIX8::LoginParameters': [('_silent_disconnect', 'bool')]},
    functions=[
        dict(q='FIX8::Connection::set_hb_interval', sig=None, cname='conn_set_hb_interval'),
        dict(q='FIX8::Connection::get_hb_interval', sig=None, cname='conn_get_hb_interval'),
        dict(q='FIX8::Connection::get_hb_interval20pc', sig=None, cname='conn_get_hb_interval20pc'),
        dict(q='FIX8::Session::do_state_change', sig=None, cname='session_do_state_change'),
        dict(q='FIX8::Session::heartbeat_service', sig=None, cname='session_heartbeat_service'),
        dict(q='FIX8::Session::handle_test_request', sig=None, cname='session_handle_test_request'),
        dict(q='FIX8::Session::handle_heartbeat', sig=None, cname='session_handle_heartbeat'),
    ],
    postlude=POST,
    proofs=[
        dict(name='tick', harness='h_tick', properties=['C22'], solvers=['z3', 'cadical', 'cvc5'], timeout=dict(quick=600, thorough=1800), floor=9, level='proved-modular'),
        dict(name='test_request', harness='h_test_request', properties=['C22'], solvers=['cadical', 'z3'], timeout=dict(quick=300, thorough=900), floor=1, level='proved-modular'),
        dict(name='heartbeat', harness='h_heartbeat', properties=['C22'], solvers=['cadical', 'z3'], timeout=dict(quick=300, thorough=900), floor=2, level='proved-modular'),
    ],
    trusted_base=['ASSUMED: Tickval (std::chrono) is a nanosecond count, the two clock reads of a tick do not go backwards, secs() is the whole-second part; generate_heartbeat / generate_test_request / '
                  'generate_logout build the named message (with the given TestReqID); send() transmits what it is given; stop() stops the session; enforce is the gate proved in K-seq '
                  '(model bodies in specs/k_hb.py)'],
    assumptions=['one supervision tick; that ticks happen (the timer thread, C31) and real time are not modelled; whole-second granularity of the comparisons is part of the stated specification',
                 'heartbeat interval 1..86400 s'],
)
