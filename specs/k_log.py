"""K-log (C28, sequential conjuncts): Logger::is_loggable / send / enqueue (logger.hpp), bodies extracted from the clang AST.

The lock-free queue, the thread id and the LogElement constructor are opaque (ASSUMED models): try_push(le) either accepts the element
(returns true, the ghost log records it) or refuses it (returns false, nothing recorded) -- chosen nondeterministically, so both outcomes
are covered.  The interleaving conjuncts of C28 (exactly once / per-producer order under 1-8 concurrent producers) are schedules and are
NOT decided here.
"""
PRELUDE = r'''
#define VACUITY_PROBE() __CPROVER_assert(0, "vacuity-probe")
long nondet_long(void); unsigned nondet_uint(void); _Bool nondet_bool(void);
/* ---- ASSUMED models ---- */
long thread_getid(void) { return nondet_long(); }
void logelem_ctor(struct logelem_m *le, long tid, long *str, unsigned level, const char *fl, unsigned val)
{ le->tid = tid; le->_str = *str; le->level = level; le->fileline = fl; le->val = val; }
/* ghost log of the queue */
long g_push_calls, g_accepted; _Bool g_last_accepted; long g_last_str; unsigned g_last_level, g_last_val;
_Bool queue_try_push(struct queue_m *q, struct logelem_m *le)
{
  _Bool ok = nondet_bool();                  /* the queue accepts or refuses */
  g_push_calls++; g_last_accepted = ok;
  if (ok) { g_accepted++; g_last_str = le->_str; g_last_level = le->level; g_last_val = le->val; }
  return ok;
}
/* ---- the consumer side: the queue as a ghost FIFO of accepted lines, with the stop marker (an empty line) that stop() enqueues AFTER requesting the stop ---- */
long g_q_lines;                      /* accepted lines not yet popped */
_Bool g_stop_requested, g_marker_in_queue; long g_processed, g_released, g_pops;
struct logelem_m g_popped;
_Bool stop_requested(const void *token) { if (!g_stop_requested && nondet_bool()) g_stop_requested = 1; return g_stop_requested; }   /* stop() may be called at any moment */
_Bool stop_not_requested(const void *token) { return !stop_requested(token); }
static void env_step(void)
{
  /* what other threads may do between two steps of the consumer: producers submit more lines until stop() has been called; stop() enqueues the marker after its request */
  if (!g_stop_requested) { long k = nondet_long(); __CPROVER_assume(k >= 0 && k <= 1000 && g_q_lines + k <= 1000000000L); g_q_lines += k; }
  else if (!g_marker_in_queue && nondet_bool()) g_marker_in_queue = 1;
}
_Bool queue_try_pop(struct queue_m *q, struct logelem_m **out)
{
  env_step();
  if (g_pops < 1000000000L) g_pops++;
  if (g_q_lines > 0) { g_q_lines--; g_popped._str = 1 + (nondet_long() & 0xffff); *out = &g_popped; return 1; }      /* FIFO: lines come out before the marker */
  if (g_marker_in_queue) { g_marker_in_queue = 0; g_popped._str = 0; *out = &g_popped; return 1; }
  return 0;
}
void queue_release(struct queue_m *q, struct logelem_m *e) { if (g_released < 1000000000L) g_released++; }
_Bool str_empty_id(const long *s) { return *s == 0; }
void sleep_model(unsigned us) { }
struct FIX8_Logger;
void logger_process_logline(struct FIX8_Logger *self, struct logelem_m *e) { __CPROVER_assert(e->_str != 0, "C28.consumer.the_stop_marker_is_never_written_as_a_line"); if (g_processed < 1000000000L) g_processed++; }
'''
POST = r'''
/* the consumer thread's body: every accepted line is written before it ends */
void h_consumer(void)
{
  struct FIX8_Logger lg;
  g_q_lines = nondet_long(); __CPROVER_assume(g_q_lines >= 0 && g_q_lines <= 1000000); g_stop_requested = nondet_bool(); g_marker_in_queue = 0; g_processed = 0; g_released = 0; g_pops = 0;
  logger_consumer(&lg);
  __CPROVER_assert(g_q_lines == 0, "C28.consumer.ends_only_when_every_accepted_line_has_been_written");
  __CPROVER_assert(g_stop_requested, "C28.consumer.ends_only_after_stop_was_requested");
  VACUITY_PROBE();
}
/* enqueue: exactly one submission, and the return value says whether the queue accepted it */
void h_enqueue(void)
{
  struct FIX8_Logger lg; long what = nondet_long(); unsigned lev = nondet_uint(), val = nondet_uint();
  __CPROVER_assume(lev <= 4);                                   /* Logger::Level: Debug, Info, Warn, Error, Fatal */
  g_push_calls = 0; g_accepted = 0;
  _Bool r = logger_enqueue(&lg, &what, lev, 0, val);
  __CPROVER_assert(g_push_calls == 1, "C28.enqueue.submits_exactly_once");
  __CPROVER_assert(r == g_last_accepted, "C28.enqueue.reports_success_iff_accepted");
  __CPROVER_assert(!g_last_accepted || (g_last_str == what && g_last_level == lev && g_last_val == val), "C28.enqueue.submits_the_given_line");
  VACUITY_PROBE();
}
/* send: a line at a disabled level is dropped (and reported as success), a line at an enabled level is submitted once */
void h_send(void)
{
  struct FIX8_Logger lg; lg._levels.a_ = nondet_uint();
  long what = nondet_long(); unsigned lev = nondet_uint(), val = nondet_uint();
  __CPROVER_assume(lev <= 4);
  _Bool enabled = (lg._levels.a_ >> lev) & 1u;
  g_push_calls = 0; g_accepted = 0;
  _Bool r = logger_send(&lg, &what, lev, 0, val);
  __CPROVER_assert(logger_is_loggable(&lg, lev) == enabled, "C28.is_loggable.exactly_the_enabled_levels");
  __CPROVER_assert(enabled || (g_push_calls == 0 && r), "C28.send.disabled_level_dropped");
  __CPROVER_assert(!enabled || g_push_calls == 1, "C28.send.enabled_level_submitted_once");
  __CPROVER_assert(!enabled || r == g_last_accepted, "C28.send.reports_success_iff_accepted");
  __CPROVER_assert(!enabled || !g_last_accepted || (g_last_str == what && g_last_level == lev && g_last_val == val), "C28.send.submits_the_given_line");
  VACUITY_PROBE();
}
'''
UNIT = dict(
    name='k_log', tu='tu/rt_logger.cpp', no_follow=True,
    emit=dict(
        pod=[r'std::basic_string<char>'],
        type_map=[(r'(std::basic_string<char>|std::string|FIX8::f8String)', 'long'),
                  (r'FIX8::ff_unbounded_queue<FIX8::Logger::LogElement>', 'struct queue_m'),
                  (r'(const )?FIX8::Logger::LogElement', 'struct logelem_m'),
                  (r'FIX8::Logger::Level', 'unsigned int'), (r'FIX8::ebitset<FIX8::Logger::Level>::integral_type', 'unsigned int'),
                  (r'(FIX8::)?thread_id_t', 'long'), (r'FIX8::f8_thread_cancellation_token', 'int')],
        lazy_structs=[r'FIX8::Logger', r'FIX8::ebitset<.*>'],
        calls={'getid': 'thread_getid',
               'FIX8::Logger::LogElement::LogElement': 'logelem_ctor',
               'struct logelem_m::LogElement': 'logelem_ctor',
               'FIX8::ff_unbounded_queue<FIX8::Logger::LogElement>::try_push': dict(c='queue_try_push', sig='bool (const FIX8::Logger::LogElement &)'),
               'FIX8::ff_unbounded_queue<FIX8::Logger::LogElement>::try_pop': dict(c='queue_try_pop', sig='bool (FIX8::Logger::LogElement *&)'),
               'FIX8::ff_unbounded_queue<FIX8::Logger::LogElement>::release': 'queue_release', 'hypersleep': 'sleep_model',
               'FIX8::f8_thread_cancellation_token::operator!': 'stop_not_requested', 'FIX8::f8_thread_cancellation_token::operator bool': 'stop_requested',
               'std::basic_string<char>::empty': 'str_empty_id', 'FIX8::Logger::process_logline': 'logger_process_logline',
               'FIX8::Logger::is_loggable': 'logger_is_loggable',
               'FIX8::Logger::enqueue': dict(c='logger_enqueue', sig='bool (const std::string &, FIX8::Logger::Level, const char *, const unsigned int)'),
               'FIX8::ebitset<FIX8::Logger::Level>::operator&': 'levels_and', 'FIX8::ebitset<FIX8::Logger::Level>::has': 'levels_has', 'FIX8::ebitset<FIX8::Logger::Level>::get': 'levels_get'}),
    pre_structs='struct queue_m { int dummy; };\nstruct logelem_m { long tid; long _str; unsigned level; const char *fileline; unsigned val; };\n',
    prelude=PRELUDE,
    functions=[
        dict(q='FIX8::ebitset::operator&', filter='FIX8::ebitset', mangled='_ZNK4FIX87ebitsetINS_6Logger5LevelEjEanES2_', cname='levels_and', optional=True),
        dict(q='FIX8::ebitset::has', filter='FIX8::ebitset', mangled='_ZNK4FIX87ebitsetINS_6Logger5LevelEjE3hasES2_', cname='levels_has', optional=True),
        dict(q='FIX8::ebitset::get', filter='FIX8::ebitset', mangled='_ZNK4FIX87ebitsetINS_6Logger5LevelEjE3getEv', cname='levels_get', optional=True),
        dict(q='FIX8::Logger::is_loggable', sig=None, cname='logger_is_loggable'),
        dict(q='FIX8::Logger::enqueue', sig=None, cname='logger_enqueue'),
        dict(q='FIX8::Logger::send', sig=None, cname='logger_send'),
        dict(q='FIX8::Logger::operator()', sig=None, cname='logger_consumer',
             loops={0: dict(assigns='received, g_q_lines, g_stop_requested, g_marker_in_queue, g_processed, g_released, g_pops, g_popped',
                            invariants=[('inv.queue', 'g_q_lines >= 0 && g_q_lines <= 1000000000L && (!g_marker_in_queue || g_stop_requested)')])}),
    ],
    postlude=POST,
    proofs=[
        dict(name='consumer', harness='h_consumer', loop_contracts=True, properties=['C28'], solvers=['cadical', 'z3'], timeout=dict(quick=300, thorough=900), floor=2, level='proved-modular'),
        dict(name='enqueue', harness='h_enqueue', properties=['C28'], solvers=['cadical', 'z3'], timeout=dict(quick=120, thorough=300), floor=3, level='proved-modular'),
        dict(name='send', harness='h_send', properties=['C28'], solvers=['cadical', 'z3'], timeout=dict(quick=120, thorough=300), floor=5, level='proved-modular'),
    ],
    trusted_base=['ASSUMED: f8_concurrent_queue::try_push returns true exactly when it accepted the element (FastFlow wrapper ff_wrapper.hpp), the LogElement constructor stores its arguments, '
                  'f8_thread::getid returns the caller\'s thread id (model bodies in specs/k_log.py)'],
    assumptions=['the consumer loop is verified against an environment model (other threads act between its steps); producer-side interleavings (exactly once / in order under concurrent producers) are not decided'],
)
