"""K-log (C28, sequential conjuncts): Logger::is_loggable / send / enqueue (logger.hpp), bodies extracted from the clang AST.

The lock-free queue, the thread id and the LogElement constructor are opaque (ASSUMED models): try_push(le) either accepts the element
(returns true, the ghost log records it) or refuses it (returns false, nothing recorded) -- chosen nondeterministically, so both outcomes
are covered.  The interleaving conjuncts of C28 (exactly once / per-producer order under 1-8 concurrent producers) are schedules and are
NOT decided here.
"""
PRELUDE = r'''
#define VACUITY_PROBE() __CPROVER_assert(0, "vacuity-probe")
long nondet_long(void); unsigned nondet_uint(void); _Bool nondet_bool(void); unsigned long nondet_ulong(void); void *malloc(__CPROVER_size_t);
/* ---- ASSUMED models ---- */
long thread_getid(void) { return nondet_long(); }
void logelem_ctor(struct logelem_m *le, long tid, long *str, unsigned level, const char *fl, unsigned val)
{ le->tid = tid; le->_str = *str; le->level = level; le->fileline = fl; le->_val = val; }
/* ghost log of the queue */
long g_push_calls, g_accepted; _Bool g_last_accepted; long g_last_str; unsigned g_last_level, g_last_val;
_Bool queue_try_push(struct queue_m *q, struct logelem_m *le)
{
  _Bool ok = nondet_bool();                  /* the queue accepts or refuses */
  g_push_calls++; g_last_accepted = ok;
  if (ok) { g_accepted++; g_last_str = le->_str; g_last_level = le->level; g_last_val = le->_val; }
  return ok;
}
/* ---- the consumer side: the queue as a ghost FIFO of accepted lines, with the stop marker (an empty line) that stop() enqueues AFTER requesting the stop ---- */
long g_q_lines;                      /* accepted lines not yet popped */
_Bool g_stop_requested, g_marker_in_queue; long g_processed, g_released, g_pops;
struct logelem_m g_popped;
_Bool stop_requested(const void *token) { if (!g_stop_requested && nondet_bool()) g_stop_requested = 1; return g_stop_requested; }   /* stop() may be called at any moment */
_Bool stop_not_requested(const void *token) { return !stop_requested(token); }
static void env_step(void)
{
  /* what other threads may do between two steps of the consumer: producers submit more lines until stop() has been called; stop() enqueues the marker after its request */
  if (!g_stop_requested) { long k = nondet_long(); __CPROVER_assume(k >= 0 && k <= 1000 && g_q_lines + k <= 1000000000L); g_q_lines += k; }
  else if (!g_marker_in_queue && nondet_bool()) g_marker_in_queue = 1;
}
_Bool queue_try_pop(struct queue_m *q, struct logelem_m **out)
{
  env_step();
  if (g_pops < 1000000000L) g_pops++;
  if (g_q_lines > 0) { g_q_lines--; g_popped._str = 1 + (nondet_long() & 0xffff); *out = &g_popped; return 1; }      /* FIFO: lines come out before the marker */
  if (g_marker_in_queue) { g_marker_in_queue = 0; g_popped._str = 0; *out = &g_popped; return 1; }
  return 0;
}
void queue_release(struct queue_m *q, struct logelem_m *e) { if (g_released < 1000000000L) g_released++; }
_Bool str_empty_id(const long *s) { return *s == 0; }
void sleep_model(unsigned us) { }
/* ---- flush(): the buffered lines as an array of line identities; the stream as a ghost count of insertions ---- */
long g_line; long g_line_written; _Bool g_line_write_locked; long g_endls;
struct os_m *stream_put_endl(struct os_m *os) { if (g_endls < 1000000000L) g_endls++; return os; }
struct os_m g_stream; long *g_items0; long g_n; long g_written; _Bool g_in_order, g_all_writes_locked, g_locked; const void *g_lock_obj; long g_acquires, g_releases;
void guard_acquired(const void *m) { g_locked = 1; g_lock_obj = m; if (g_acquires < 1000) g_acquires++; }
void guard_released(const void *m) { g_locked = 0; if (g_releases < 1000) g_releases++; }
long *list_begin(struct list_m *l) { return l->items; }
long *list_end(struct list_m *l) { return l->items + l->n; }
_Bool g_clear_locked; void list_clear(struct list_m *l) { l->n = 0; g_clear_locked = g_locked; }
struct os_m *logger_get_stream(const void *self) { return &g_stream; }
struct os_m *stream_put_line(struct os_m *os, const long *s)
{ if (s != g_items0 + g_written) g_in_order = 0; if (!g_locked) g_all_writes_locked = 0; if (g_written < 1000000000L) g_written++;
  if (*s == g_line) { if (g_line_written < 1000) g_line_written++; g_line_write_locked = g_locked; } return os; }   /* one line inserted: which one, and under the lock? */
/* process_logline's output step: strings are identities; the line text has identity g_line, the formatted prefix g_prefix; a string value records whether the line text was appended to it */
struct os_m ostr; long g_prefix; long g_line; long g_line_appends; long g_pushed; _Bool g_pushed_has_line, g_push_locked; long g_line_written; _Bool g_line_write_locked; long g_flushes;
long oss_str(struct os_m *os) { return g_prefix; }
unsigned long str_size_model(const long *s) { return nondet_ulong(); }
char g_delim_ch; char *str_index_model(long *s, unsigned long i) { return &g_delim_ch; }
long *str_append_char(long *s) { return s; }
long *str_append_str(long *s, const long *x) { if (*x == g_line) { if (g_line_appends < 1000) g_line_appends++; *s = g_line; } return s; }     /* the result now carries the line text */
void list_push_back(struct list_m *l, const long *x) { if (g_pushed < 1000) g_pushed++; g_pushed_has_line = (*x == g_line) && g_line_appends == 1; g_push_locked = g_locked; }
struct os_m *stream_put_char(struct os_m *os) { return os; }
void stream_flush(struct os_m *os) { if (g_flushes < 1000) g_flushes++; }
struct os_m fostr; unsigned g_num_written; long g_num_calls;           /* process_logline's per-position stream (declared outside the extracted statement) and the number inserted into it */
struct os_m *stream_put_uint(struct os_m *os, unsigned v) { g_num_written = v; if (g_num_calls < 1000) g_num_calls++; return os; }
struct FIX8_Logger;
void logger_process_logline(struct FIX8_Logger *self, struct logelem_m *e) { __CPROVER_assert(e->_str != 0, "C28.consumer.the_stop_marker_is_never_written_as_a_line"); if (g_processed < 1000000000L) g_processed++; }
'''
POST = r'''
/* the consumer thread's body: every accepted line is written before it ends */
void h_consumer(void)
{
  struct FIX8_Logger lg;
  g_q_lines = nondet_long(); __CPROVER_assume(g_q_lines >= 0 && g_q_lines <= 1000000); g_stop_requested = nondet_bool(); g_marker_in_queue = 0; g_processed = 0; g_released = 0; g_pops = 0;
  logger_consumer(&lg);
  __CPROVER_assert(g_q_lines == 0, "C28.consumer.ends_only_when_every_accepted_line_has_been_written");
  __CPROVER_assert(g_stop_requested, "C28.consumer.ends_only_after_stop_was_requested");
  VACUITY_PROBE();
}
/* flush(): every buffered line is inserted into the stream exactly once, in buffer order, under the logger's mutex, and the buffer is empty afterwards */
void h_flush(void)
{
  struct FIX8_Logger lg; long n = nondet_long(); __CPROVER_assume(n >= 0 && n <= 1000000);
  long *items = malloc(sizeof(long) * (n + 1)); __CPROVER_assume(items != 0);
  lg._buffer.items = items; lg._buffer.n = n; lg._lines = nondet_uint();
  g_items0 = items; g_n = n; g_written = 0; g_endls = 0; g_in_order = 1; g_all_writes_locked = 1; g_locked = 0; g_acquires = 0; g_releases = 0; g_clear_locked = 0;
  logger_flush(&lg);
  __CPROVER_assert(g_written == n, "C28.flush.every_buffered_line_is_written_exactly_once");
  __CPROVER_assert(g_in_order, "C28.flush.lines_are_written_in_buffer_order");
  __CPROVER_assert(g_endls == n, "C28.flush.every_line_is_ended_and_pushed_to_the_file");
  __CPROVER_assert(lg._buffer.n == 0 && lg._lines == 0, "C28.flush.the_buffer_is_empty_afterwards_so_no_line_is_written_twice");
  __CPROVER_assert(g_all_writes_locked && g_clear_locked && g_lock_obj == (const void *)&lg._mutex && g_acquires == 1, "C28.flush.writes_and_the_clearing_happen_under_one_hold_of_the_logger_mutex");
  VACUITY_PROBE();
}
/* process_logline, `case sequence:`: each line takes the next number of its own counter -- one counter when the logger does not separate directions, one per direction when it does */
void h_sequence(void)
{
  struct FIX8_Logger lg; struct logelem_m e; lg._flags.a_ = nondet_uint(); lg._sequence = nondet_uint(); lg._osequence = nondet_uint(); e._val = nondet_uint();
  __CPROVER_assume(lg._sequence < 0xffffffffu && lg._osequence < 0xffffffffu);
  unsigned s0 = lg._sequence, o0 = lg._osequence; _Bool by_direction = (lg._flags.a_ >> K_direction) & 1u; g_num_calls = 0;
  logger_number_line(&lg, &e);
  _Bool inbound_counter = !by_direction || e._val != 0;
  __CPROVER_assert(g_num_calls == 1, "C28.sequence.exactly_one_number_is_written_per_line");
  __CPROVER_assert(inbound_counter ? (lg._sequence == s0 + 1 && lg._osequence == o0) : (lg._osequence == o0 + 1 && lg._sequence == s0), "C28.sequence.exactly_one_counter_advances_by_one");
  __CPROVER_assert(g_num_written == (inbound_counter ? s0 + 1 : o0 + 1), "C28.sequence.the_number_written_is_the_successor_of_the_previous_line_of_the_same_counter");
  __CPROVER_assert(by_direction || lg._osequence == o0, "C28.sequence.a_logger_that_does_not_separate_directions_numbers_all_lines_from_one_counter");
  VACUITY_PROBE();
}
/* process_logline, output step: a processed line is handed on exactly once -- appended to the buffer once (buffering logger) or inserted into the stream once under the mutex */
void h_output(void)
{
  struct FIX8_Logger lg; struct logelem_m e; lg._flags.a_ = nondet_uint(); lg._buffer.items = 0; lg._buffer.n = 0;
  static long other_lines[4]; g_line = 7; g_prefix = 3; e._str = g_line; g_items0 = other_lines; g_written = 0;
  g_line_appends = 0; g_pushed = 0; g_pushed_has_line = 0; g_line_written = 0; g_line_write_locked = 0; g_locked = 0; g_acquires = 0; g_releases = 0; g_flushes = 0; g_endls = 0;
  logger_output_line(&lg, &e);
  _Bool buffered = (lg._flags.a_ >> K_buffer) & 1u;
  __CPROVER_assert(!buffered || (g_pushed == 1 && g_pushed_has_line && g_line_written == 0), "C28.output.a_buffering_logger_appends_the_line_to_its_buffer_exactly_once_and_writes_nothing");
  __CPROVER_assert(buffered || (g_line_written == 1 && g_pushed == 0), "C28.output.a_direct_logger_inserts_the_line_into_the_stream_exactly_once");
  { _Bool nolf = (lg._flags.a_ >> K_nolf) & 1u;
    __CPROVER_assert(buffered || (nolf ? (g_flushes == 1 && g_endls == 0) : (g_endls == 1)), "C28.output.a_direct_write_reaches_the_file_before_the_step_ends_by_endl_or_an_explicit_flush"); }
  __CPROVER_assert(buffered || (g_line_write_locked && g_lock_obj == (const void *)&lg._mutex && g_acquires == 1 && !g_locked), "C28.output.a_direct_write_happens_under_the_logger_mutex_which_is_released_afterwards");
  VACUITY_PROBE();
}
/* enqueue: exactly one submission, and the return value says whether the queue accepted it */
void h_enqueue(void)
{
  struct FIX8_Logger lg; long what = nondet_long(); unsigned lev = nondet_uint(), val = nondet_uint();
  __CPROVER_assume(lev <= 4);                                   /* Logger::Level: Debug, Info, Warn, Error, Fatal */
  g_push_calls = 0; g_accepted = 0;
  _Bool r = logger_enqueue(&lg, &what, lev, 0, val);
  __CPROVER_assert(g_push_calls == 1, "C28.enqueue.submits_exactly_once");
  __CPROVER_assert(r == g_last_accepted, "C28.enqueue.reports_success_iff_accepted");
  __CPROVER_assert(!g_last_accepted || (g_last_str == what && g_last_level == lev && g_last_val == val), "C28.enqueue.submits_the_given_line");
  VACUITY_PROBE();
}
/* send: a line at a disabled level is dropped (and reported as success), a line at an enabled level is submitted once */
void h_send(void)
{
  struct FIX8_Logger lg; lg._levels.a_ = nondet_uint();
  long what = nondet_long(); unsigned lev = nondet_uint(), val = nondet_uint();
  __CPROVER_assume(lev <= 4);
  _Bool enabled = (lg._levels.a_ >> lev) & 1u;
  g_push_calls = 0; g_accepted = 0;
  _Bool r = logger_send(&lg, &what, lev, 0, val);
  __CPROVER_assert(logger_is_loggable(&lg, lev) == enabled, "C28.is_loggable.exactly_the_enabled_levels");
  __CPROVER_assert(enabled || (g_push_calls == 0 && r), "C28.send.disabled_level_dropped");
  __CPROVER_assert(!enabled || g_push_calls == 1, "C28.send.enabled_level_submitted_once");
  __CPROVER_assert(!enabled || r == g_last_accepted, "C28.send.reports_success_iff_accepted");
  __CPROVER_assert(!enabled || !g_last_accepted || (g_last_str == what && g_last_level == lev && g_last_val == val), "C28.send.submits_the_given_line");
  VACUITY_PROBE();
}
'''
def _contains(n, pred):
    if pred(n):
        return True
    return any(isinstance(c, dict) and _contains(c, pred) for c in n.get('inner', []) or [])


def _is_sequence_numbering(n):
    """the statement of Logger::process_logline that numbers a line: the innermost statement that contains an increment of _sequence and no case label / switch / loop --
    on the current tree the `if (_flags & direction) ... else ...` of `case sequence:`"""
    if n.get('kind') in ('CompoundStmt', 'SwitchStmt', 'CaseStmt', 'DefaultStmt', 'CXXForRangeStmt', 'ForStmt', 'WhileStmt', 'DoStmt'):
        return False
    inc = lambda x: x.get('kind') == 'UnaryOperator' and x.get('opcode') == '++' and _contains(x, lambda y: y.get('kind') == 'MemberExpr' and y.get('name') == '_sequence')
    if not _contains(n, inc):
        return False
    return not _contains(n, lambda x: x.get('kind') in ('SwitchStmt', 'CaseStmt', 'CXXForRangeStmt'))


def _is_output_step(n):
    """the last statement of Logger::process_logline: `if (_flags & buffer) { ...push_back... } else { ...get_stream() << ... }` -- the IfStmt that contains the push_back on _buffer"""
    if n.get('kind') != 'IfStmt':
        return False
    return _contains(n, lambda x: x.get('kind') == 'MemberExpr' and x.get('name') == 'push_back') and not _contains(n, lambda x: x.get('kind') in ('SwitchStmt', 'CXXForRangeStmt'))


def _str_append(em, n, args, stmt):
    """std::string::operator+=: a delimiter character changes no line identity; appending a string records which one"""
    t = em.tstr(args[1]['type'])
    if t.strip() in ('char', 'const char'):
        em.rules['string_delimiter_char'] += 1
        return '(*str_append_char(%s))' % em.lvalue_addr(args[0])
    return '(*str_append_str(%s, %s))' % (em.lvalue_addr(args[0]), em.lvalue_addr(args[1]))


def _put_free(em, n, args, stmt):
    """std::operator<<(ostream&, X): a string is a line (flush); a manipulator object (setw/setfill) changes formatting only and leaves the stream's content alone"""
    t = em.tstr(args[1]['type'])
    if '_Setw' in t or '_Setfill' in t:
        em.rules['stream_manipulator_dropped'] += 1
        return em.expr(args[0])
    if t.strip() in ('char', 'const char'):
        em.rules['stream_delimiter_char'] += 1
        return '(*stream_put_char(%s))' % em.lvalue_addr(args[0])
    return '(*stream_put_line(%s, %s))' % (em.lvalue_addr(args[0]), em.lvalue_addr(args[1]))


def _put_member(em, n, args, stmt):
    """ostream::operator<<(X): a function manipulator (endl, right) leaves the content alone; an unsigned value is recorded as the number written"""
    t = em.tstr(args[1]['type'])
    if '(*)' in t or '(&)' in t or t.strip().endswith(')'):
        if _contains(args[1], lambda x: x.get('kind') == 'DeclRefExpr' and x.get('referencedDecl', {}).get('name') == 'endl'):
            em.rules['stream_endl'] += 1
            return '(*stream_put_endl(%s))' % em.lvalue_addr(args[0])      # endl ends the line and pushes the stream's content to the file
        em.rules['stream_manipulator_dropped'] += 1
        return em.expr(args[0])
    return '(*stream_put_uint(%s, %s))' % (em.lvalue_addr(args[0]), em.expr(args[1]))


UNIT = dict(
    name='k_log', tu='tu/rt_logger.cpp', no_follow=True,
    probe={'K_direction': 'FIX8::Logger::direction', 'K_buffer': 'FIX8::Logger::buffer', 'K_nolf': 'FIX8::Logger::nolf'},
    emit=dict(
        pod=[r'std::basic_string<char>', r'(std::)?(__cxx11::)?list<.*>'],
        type_map=[(r'(std::basic_string<char>|std::string|FIX8::f8String)', 'long'),
                  (r'FIX8::ff_unbounded_queue<FIX8::Logger::LogElement>', 'struct queue_m'),
                  (r'(const )?FIX8::Logger::LogElement', 'struct logelem_m'),
                  (r'FIX8::Logger::Level', 'unsigned int'), (r'(const )?FIX8::Logger::Flags', 'unsigned int'), (r'FIX8::ebitset<FIX8::Logger::Flags>::integral_type', 'unsigned int'), (r'FIX8::ebitset<FIX8::Logger::Level>::integral_type', 'unsigned int'),
                  (r'(std::)?(__cxx11::)?list<.*>', 'struct list_m'), (r'std::_List_(const_)?iterator<.*>', 'long *'), (r'(std::)?(__cxx11::)?(basic_)?o(string)?stream(<char.*>)?', 'struct os_m'), (r'FIX8::f8_mutex', 'struct mutex_m'),
                  (r'(FIX8::)?thread_id_t', 'long'), (r'FIX8::f8_thread_cancellation_token', 'int')],
        lazy_structs=[r'FIX8::Logger', r'FIX8::ebitset<.*>'],
        globals={'fostr': 'fostr', 'ostr': 'ostr'},      # the local stream of process_logline's loop body, declared outside the statement that is extracted
        guard_ghost='guard_acquired', guard_ghost_release='guard_released',
        calls_rx=[(r'(std::)?(__cxx11::)?list<.*>::push_back', dict(c='list_push_back', sig='void (const std::string &)')), (r'std::basic_ostringstream<char.*>::str', 'oss_str'), (r'std::basic_ostream<char.*>::flush', 'stream_flush'),
                  (r'std::basic_string<char.*>::size', 'str_size_model'), (r'std::basic_string<char.*>::operator\[\]', 'str_index_model'),
                  (r'(std::)?(__cxx11::)?list<.*>::begin', 'list_begin'), (r'(std::)?(__cxx11::)?list<.*>::end', 'list_end'), (r'(std::)?(__cxx11::)?list<.*>::clear', 'list_clear'),
                  ],
        call_handlers={'std::basic_ostream<char>::operator<<': _put_member, 'operator<<': _put_free, 'std::basic_string<char>::operator+=': _str_append},
        calls={'getid': 'thread_getid', 'FIX8::Logger::get_stream': dict(c='logger_get_stream', sig='std::ostream &() const'),
               'FIX8::Logger::LogElement::LogElement': 'logelem_ctor',
               'struct logelem_m::LogElement': 'logelem_ctor',
               'FIX8::ff_unbounded_queue<FIX8::Logger::LogElement>::try_push': dict(c='queue_try_push', sig='bool (const FIX8::Logger::LogElement &)'),
               'FIX8::ff_unbounded_queue<FIX8::Logger::LogElement>::try_pop': dict(c='queue_try_pop', sig='bool (FIX8::Logger::LogElement *&)'),
               'FIX8::ff_unbounded_queue<FIX8::Logger::LogElement>::release': 'queue_release', 'hypersleep': 'sleep_model',
               'FIX8::f8_thread_cancellation_token::operator!': 'stop_not_requested', 'FIX8::f8_thread_cancellation_token::operator bool': 'stop_requested',
               'std::basic_string<char>::empty': 'str_empty_id', 'FIX8::Logger::process_logline': 'logger_process_logline',
               'FIX8::Logger::is_loggable': 'logger_is_loggable',
               'FIX8::Logger::enqueue': dict(c='logger_enqueue', sig='bool (const std::string &, FIX8::Logger::Level, const char *, const unsigned int)'),
               'FIX8::ebitset<FIX8::Logger::Flags>::operator&': 'flags_and', 'FIX8::ebitset<FIX8::Logger::Level>::operator&': 'levels_and', 'FIX8::ebitset<FIX8::Logger::Level>::has': 'levels_has', 'FIX8::ebitset<FIX8::Logger::Level>::get': 'levels_get'}),
    pre_structs='struct queue_m { int dummy; };\nstruct list_m { long *items; long n; };\nstruct os_m { int dummy; };\nstruct mutex_m { int dummy; };\nstruct logelem_m { long tid; long _str; unsigned level; const char *fileline; unsigned _val; };\n',
    prelude=PRELUDE,
    force_fields={'FIX8::Logger': [('_flags', 'FIX8::ebitset<FIX8::Logger::Flags>'), ('_sequence', 'unsigned int'), ('_osequence', 'unsigned int'),
                                   ('_buffer', 'std::list<std::string>'), ('_delim', 'std::string'), ('_lines', 'unsigned long'), ('_mutex', 'FIX8::f8_mutex'), ('_levels', 'FIX8::ebitset<FIX8::Logger::Level>')]},
    functions=[
        dict(q='FIX8::ebitset::operator&', filter='FIX8::ebitset', mangled='_ZNK4FIX87ebitsetINS_6Logger5LevelEjEanES2_', cname='levels_and', optional=True),
        dict(q='FIX8::ebitset::operator&', filter='FIX8::ebitset', mangled='_ZNK4FIX87ebitsetINS_6Logger5FlagsEjEanES2_', cname='flags_and'),
        dict(q='FIX8::ebitset::has', filter='FIX8::ebitset', mangled='_ZNK4FIX87ebitsetINS_6Logger5LevelEjE3hasES2_', cname='levels_has', optional=True),
        dict(q='FIX8::ebitset::get', filter='FIX8::ebitset', mangled='_ZNK4FIX87ebitsetINS_6Logger5LevelEjE3getEv', cname='levels_get', optional=True),
        dict(q='FIX8::Logger::is_loggable', sig=None, cname='logger_is_loggable'),
        dict(q='FIX8::Logger::enqueue', sig=None, cname='logger_enqueue'),
        dict(q='FIX8::Logger::send', sig=None, cname='logger_send'),
        dict(q='FIX8::Logger::process_logline', sig=None, cname='logger_number_line', keep_logging=True, select_node=_is_sequence_numbering),
        dict(q='FIX8::Logger::process_logline', sig=None, cname='logger_output_line', keep_logging=True, select_node=_is_output_step),
        dict(q='FIX8::Logger::flush', sig=None, cname='logger_flush', keep_logging=True,
             loops={0: dict(assigns='__begin1, g_written, g_in_order, g_all_writes_locked, g_line_written, g_line_write_locked, g_endls',
                            invariants=[('inv.cursor', '0 <= g_written && g_written <= g_n && g_n <= 1000000 && __CPROVER_same_object(__begin1, g_items0) && __CPROVER_POINTER_OFFSET(__begin1) == g_written * (long)sizeof(long) && __end1 == g_items0 + g_n'), ('inv.so_far', 'g_in_order && g_all_writes_locked && g_endls == g_written')])}),
        dict(q='FIX8::Logger::operator()', sig=None, cname='logger_consumer',
             loops={0: dict(assigns='received, g_q_lines, g_stop_requested, g_marker_in_queue, g_processed, g_released, g_pops, g_popped',
                            invariants=[('inv.queue', 'g_q_lines >= 0 && g_q_lines <= 1000000000L && (!g_marker_in_queue || g_stop_requested)')])}),
    ],
    postlude=POST,
    proofs=[
        dict(name='consumer', harness='h_consumer', loop_contracts=True, properties=['C28'], solvers=['cadical', 'z3'], timeout=dict(quick=300, thorough=900), floor=2, level='proved-modular'),
        dict(name='flush', harness='h_flush', loop_contracts=True, properties=['C28'], solvers=['cadical', 'z3'], timeout=dict(quick=300, thorough=900), floor=4, level='proved-modular'),
        dict(name='sequence', harness='h_sequence', properties=['C28'], solvers=['cadical', 'z3'], timeout=dict(quick=120, thorough=300), floor=4, level='proved-modular'),
        dict(name='output', harness='h_output', properties=['C28'], solvers=['cadical', 'z3'], timeout=dict(quick=120, thorough=300), floor=3, level='proved-modular'),
        dict(name='enqueue', harness='h_enqueue', properties=['C28'], solvers=['cadical', 'z3'], timeout=dict(quick=120, thorough=300), floor=3, level='proved-modular'),
        dict(name='send', harness='h_send', properties=['C28'], solvers=['cadical', 'z3'], timeout=dict(quick=120, thorough=300), floor=5, level='proved-modular'),
    ],
    trusted_base=['ASSUMED: f8_concurrent_queue::try_push returns true exactly when it accepted the element (FastFlow wrapper ff_wrapper.hpp), the LogElement constructor stores its arguments, '
                  'f8_thread::getid returns the caller\'s thread id (model bodies in specs/k_log.py)'],
    assumptions=['flush: std::list<std::string> is an array view of line identities and std::ostream a ghost count of insertions (ASSUMED: operator<< inserts its argument once; endl, setw, right, setfill do not change which lines are written); process_logline: only the statement that numbers a line and the final buffer-or-write statement are extracted (select_node); the streams `fostr` / `ostr` are model objects, std::string is an identity (appending the line text makes the result carry the line; delimiter characters change nothing), list::push_back / ostringstream::str / ostream::flush are ASSUMED models', 'the consumer loop is verified against an environment model (other threads act between its steps); producer-side interleavings (exactly once / in order under concurrent producers) are not decided'],
)
