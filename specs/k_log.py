"""K-log (C28, sequential conjuncts): Logger::is_loggable / send / enqueue (logger.hpp), bodies extracted from the clang AST.

The lock-free queue, the thread id and the LogElement constructor are opaque (ASSUMED models): try_push(le) either accepts the element
(returns true, the ghost log records it) or refuses it (returns false, nothing recorded) -- chosen nondeterministically, so both outcomes
are covered.  The interleaving conjuncts of C28 (exactly once / per-producer order under 1-8 concurrent producers) are schedules and are
NOT decided here.
"""
PRELUDE = r'''
#define VACUITY_PROBE() __CPROVER_assert(0, "vacuity-probe")
long nondet_long(void); unsigned nondet_uint(void); _Bool nondet_bool(void);
/* ---- ASSUMED models ---- */
long thread_getid(void) { return nondet_long(); }
void logelem_ctor(struct logelem_m *le, long tid, long *str, unsigned level, const char *fl, unsigned val)
{ le->tid = tid; le->str = *str; le->level = level; le->fileline = fl; le->val = val; }
/* ghost log of the queue */
long g_push_calls, g_accepted; _Bool g_last_accepted; long g_last_str; unsigned g_last_level, g_last_val;
_Bool queue_try_push(struct queue_m *q, struct logelem_m *le)
{
  _Bool ok = nondet_bool();                  /* the queue accepts or refuses */
  g_push_calls++; g_last_accepted = ok;
  if (ok) { g_accepted++; g_last_str = le->str; g_last_level = le->level; g_last_val = le->val; }
  return ok;
}
'''
POST = r'''
/* enqueue: exactly one submission, and the return value says whether the queue accepted it */
void h_enqueue(void)
{
  struct FIX8_Logger lg; long what = nondet_long(); unsigned lev = nondet_uint(), val = nondet_uint();
  __CPROVER_assume(lev <= 4);                                   /* Logger::Level: Debug, Info, Warn, Error, Fatal */
  g_push_calls = 0; g_accepted = 0;
  _Bool r = logger_enqueue(&lg, &what, lev, 0, val);
  __CPROVER_assert(g_push_calls == 1, "C28.enqueue.submits_exactly_once");
  __CPROVER_assert(r == g_last_accepted, "C28.enqueue.reports_success_iff_accepted");
  __CPROVER_assert(!g_last_accepted || (g_last_str == what && g_last_level == lev && g_last_val == val), "C28.enqueue.submits_the_given_line");
  VACUITY_PROBE();
}
/* send: a line at a disabled level is dropped (and reported as success), a line at an enabled level is submitted once */
void h_send(void)
{
  struct FIX8_Logger lg; lg._levels.a_ = nondet_uint();
  long what = nondet_long(); unsigned lev = nondet_uint(), val = nondet_uint();
  __CPROVER_assume(lev <= 4);
  _Bool enabled = (lg._levels.a_ >> lev) & 1u;
  g_push_calls = 0; g_accepted = 0;
  _Bool r = logger_send(&lg, &what, lev, 0, val);
  __CPROVER_assert(logger_is_loggable(&lg, lev) == enabled, "C28.is_loggable.exactly_the_enabled_levels");
  __CPROVER_assert(enabled || (g_push_calls == 0 && r), "C28.send.disabled_level_dropped");
  __CPROVER_assert(!enabled || g_push_calls == 1, "C28.send.enabled_level_submitted_once");
  __CPROVER_assert(!enabled || r == g_last_accepted, "C28.send.reports_success_iff_accepted");
  __CPROVER_assert(!enabled || !g_last_accepted || (g_last_str == what && g_last_level == lev && g_last_val == val), "C28.send.submits_the_given_line");
  VACUITY_PROBE();
}
'''
UNIT = dict(
    name='k_log', tu='tu/rt_logger.cpp', no_follow=True,
    emit=dict(
        pod=[r'std::basic_string<char>'],
        type_map=[(r'(std::basic_string<char>|std::string|FIX8::f8String)', 'long'),
                  (r'FIX8::ff_unbounded_queue<FIX8::Logger::LogElement>', 'struct queue_m'),
                  (r'(const )?FIX8::Logger::LogElement', 'struct logelem_m'),
                  (r'FIX8::Logger::Level', 'unsigned int'), (r'FIX8::ebitset<FIX8::Logger::Level>::integral_type', 'unsigned int'),
                  (r'(FIX8::)?thread_id_t', 'long')],
        lazy_structs=[r'FIX8::Logger', r'FIX8::ebitset<.*>'],
        calls={'getid': 'thread_getid',
               'FIX8::Logger::LogElement::LogElement': 'logelem_ctor',
               'struct logelem_m::LogElement': 'logelem_ctor',
               'FIX8::ff_unbounded_queue<FIX8::Logger::LogElement>::try_push': dict(c='queue_try_push', sig='bool (const FIX8::Logger::LogElement &)'),
               'FIX8::Logger::is_loggable': 'logger_is_loggable',
               'FIX8::Logger::enqueue': dict(c='logger_enqueue', sig='bool (const std::string &, FIX8::Logger::Level, const char *, const unsigned int)'),
               'FIX8::ebitset<FIX8::Logger::Level>::operator&': 'levels_and', 'FIX8::ebitset<FIX8::Logger::Level>::has': 'levels_has', 'FIX8::ebitset<FIX8::Logger::Level>::get': 'levels_get'}),
    pre_structs='struct queue_m { int dummy; };\nstruct logelem_m { long tid; long str; unsigned level; const char *fileline; unsigned val; };\n',
    prelude=PRELUDE,
    functions=[
        dict(q='FIX8::ebitset::operator&', filter='FIX8::ebitset', mangled='_ZNK4FIX87ebitsetINS_6Logger5LevelEjEanES2_', cname='levels_and', optional=True),
        dict(q='FIX8::ebitset::has', filter='FIX8::ebitset', mangled='_ZNK4FIX87ebitsetINS_6Logger5LevelEjE3hasES2_', cname='levels_has', optional=True),
        dict(q='FIX8::ebitset::get', filter='FIX8::ebitset', mangled='_ZNK4FIX87ebitsetINS_6Logger5LevelEjE3getEv', cname='levels_get', optional=True),
        dict(q='FIX8::Logger::is_loggable', sig=None, cname='logger_is_loggable'),
        dict(q='FIX8::Logger::enqueue', sig=None, cname='logger_enqueue'),
        dict(q='FIX8::Logger::send', sig=None, cname='logger_send'),
    ],
    postlude=POST,
    proofs=[
        dict(name='enqueue', harness='h_enqueue', properties=['C28'], solvers=['cadical', 'z3'], timeout=dict(quick=120, thorough=300), floor=3, level='proved-modular'),
        dict(name='send', harness='h_send', properties=['C28'], solvers=['cadical', 'z3'], timeout=dict(quick=120, thorough=300), floor=5, level='proved-modular'),
    ],
    trusted_base=['ASSUMED: f8_concurrent_queue::try_push returns true exactly when it accepted the element (FastFlow wrapper ff_wrapper.hpp), the LogElement constructor stores its arguments, '
                  'f8_thread::getid returns the caller\'s thread id (model bodies in specs/k_log.py)'],
    assumptions=['sequential semantics only: the interleaving conjuncts of C28 (exactly once / in order under concurrent producers, stop() versus the consumer thread) are not decided'],
)
