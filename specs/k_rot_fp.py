"""K-rot-fp (C29): the purge rotation block of FilePersister::initialise -- spec lives in specs/k_rot.py (shared models)."""
from specs.k_rot import UNIT2 as UNIT
