"""K-pset (C12): the per-message field-trait set `Presence` = presorted_set<unsigned short, FieldTrait, FieldTrait::Compare>
(traits.hpp) with its hash-array index FieldTrait_Hash_Array, and the insertable sorted-set path (insert / find / clear / at).

Representation invariant of the insertable set (class precondition, preserved by every operation -- this is the inductive step that
covers every sequence of inserts, lookups and clears):
    _rsz >= 1, _sz <= _rsz, (_sz > 0 => _arr is an array of exactly _rsz elements), elements [0,_sz) strictly sorted by _fnum.
"Strictly sorted" is a forall; it is carried by ghost witnesses: the harness fixes an arbitrary window [g_J-1, g_J+1] of positions,
assumes the invariant on that window before the call and proves it on [g_J, g_J+1] after the call, for every g_J.

External functions (ASSUMED, model bodies): std::equal_range (ISO [equal.range], ghost partition index), std::fill, memcpy, memmove
(havoc of the destination + exact copy of the watched elements: all elements by generalisation), operator new[] (fresh storage).
"""
PS = 'FIX8::presorted_set<unsigned short, FIX8::FieldTrait, FIX8::FieldTrait::Compare>'
PSM = '_ZN4FIX813presorted_setItNS_10FieldTraitENS1_7CompareEE'
PSMK = '_ZNK4FIX813presorted_setItNS_10FieldTraitENS1_7CompareEE'
FT = 'struct FIX8_FieldTrait'
SPS = 'struct FIX8_presorted_set_ushort_FIX8_FieldTrait_FIX8_FieldTrait_Compare'

PRELUDE = r'''
#include <stdlib.h>
#define VACUITY_PROBE() __CPROVER_assert(0, "vacuity-probe")
#define NMAX 65536L
long nondet_long(void); unsigned long nondet_ulong(void); _Bool nondet_bool(void); unsigned nondet_uint(void); unsigned short nondet_ushort(void);
typedef %(FT)s FTr;
#define ESZ ((long)sizeof(FTr))

/* operator new[] for scalar/pointer/POD elements: fresh storage of exactly n elements (bad_alloc not modelled) */
void *__verif_new_array(unsigned long n, unsigned long esz)
{
  __CPROVER_assert(n <= (1UL << 40) / esz, "new[]: element count within the address space");
  void *p = malloc(n * esz); __CPROVER_assume(p != 0); return p;
}
void __verif_delete(void *p) { free(p); }

/* ---- ghost state shared by the models ---- */
long g_w;                  /* witness element index ("the key is stored at g_w"), -1 = none */
long g_k;                  /* partition index published by the last equal_range call */
unsigned long g_slot;      /* watched hash-array slot (= the key the harness asks about) */
_Bool g_miss;              /* harness hypothesis: g_slot is not a key of the table */
long g_J;                  /* watched destination window for memcpy/memmove: element indices g_J and g_J+1 of the destination object */

/* ---- ASSUMED: std::fill(first,last,0) on unsigned short: every slot 0 afterwards; model watches slot g_slot ---- */
void fill_ushort(unsigned short *first, unsigned short *last, int *val)
{
  long n = last - first;
  __CPROVER_assert(n >= 0, "fill.pre: valid range");
  if (n > 0) {
    __CPROVER_havoc_slice(first, (unsigned long)n * sizeof(*first));
    if (g_slot < (unsigned long)n) first[g_slot] = (unsigned short)*val;
  }
}

/* ---- ASSUMED: memcpy / memmove copy n bytes (memmove: as if through a temporary).  Model, element-typed (all calls here move whole FieldTrait
   elements; that is asserted): the watched destination elements (indices g_J, g_J+1 of the destination object, when inside the range)
   receive exactly the corresponding source elements, read before any write (memmove semantics); ONE further destination element, at an
   arbitrary ghost index, receives an arbitrary value ("k-witness havoc": a byte-level havoc of a symbolic-length range exhausts 8 GB in
   CBMC's propositional back end even for 64-element arrays -- measured).  Every obligation that depends on the watched elements and on at
   most one other destination element is therefore checked for all values of that element; the verified code reads no destination element
   after a copy and the harnesses read only watched ones.  Readability / writability of both whole ranges is checked. ---- */
FTr nondet_FTr(void);
static void copy_model(char *dstc, const char *srcc, unsigned long n, _Bool may_overlap)
{
  if (n == 0) return;
  __CPROVER_assert(__CPROVER_r_ok(srcc, n), "memcpy/memmove: source range readable");
  __CPROVER_assert(__CPROVER_w_ok(dstc, n), "memcpy/memmove: destination range writable");
  if (!may_overlap)
    __CPROVER_assert(!__CPROVER_same_object(dstc, srcc) || dstc + n <= srcc || srcc + n <= dstc, "memcpy: ranges do not overlap");
  __CPROVER_assert(n %% sizeof(FTr) == 0 && __CPROVER_POINTER_OFFSET(dstc) %% sizeof(FTr) == 0 && __CPROVER_POINTER_OFFSET(srcc) %% sizeof(FTr) == 0,
                   "copy model: whole, aligned FieldTrait elements");
  FTr *dst = (FTr *)dstc; const FTr *src = (const FTr *)srcc;
  long cnt = (long)(n / sizeof(FTr));
  long d0 = (long)(__CPROVER_POINTER_OFFSET(dstc) / sizeof(FTr));
  long r0 = g_J - d0, r1 = r0 + 1;                  /* watched elements relative to dst */
  FTr keep0, keep1; _Bool in0 = 0, in1 = 0;
  if (0 <= r0 && r0 < cnt) { in0 = 1; keep0 = src[r0]; }
  if (0 <= r1 && r1 < cnt) { in1 = 1; keep1 = src[r1]; }
  long h = nondet_long();                           /* one arbitrary unwatched destination element becomes arbitrary */
  if (0 <= h && h < cnt && h != r0 && h != r1) dst[h] = nondet_FTr();
  if (in0) dst[r0] = keep0;
  if (in1) dst[r1] = keep1;
}
void *memcpy_model(void *dst, const void *src, unsigned long n) { copy_model(dst, src, n, 0); return dst; }
void *memmove_model(void *dst, const void *src, unsigned long n) { copy_model(dst, src, n, 1); return dst; }

/* ---- ASSUMED: std::equal_range(first,last,what,Compare()) on a range strictly sorted by _fnum ([equal.range]): (lower bound, upper bound) ---- */
struct std_pair_FIX8_FieldTrait_P_FIX8_FieldTrait_P equal_range_ft(FTr *first, FTr *last, const FTr *what, struct FIX8_FieldTrait_Compare cmp)
{
  long n = last - first;
  __CPROVER_assert(n >= 0, "equal_range.pre: valid range");
  long k = nondet_long();
  __CPROVER_assume(0 <= k && k <= n);
  __CPROVER_assume(k == 0 || first[k - 1]._fnum < what->_fnum);      /* everything before the lower bound is < what */
  __CPROVER_assume(k == n || !(first[k]._fnum < what->_fnum));       /* the lower bound itself is not */
  long w = g_w;
  /* class precondition "strictly sorted", instantiated at the witness */
  __CPROVER_assume(!(0 <= w && w < k) || !(first[k - 1]._fnum < first[w]._fnum));
  __CPROVER_assume(!(k < w && w < n) || first[k]._fnum < first[w]._fnum);
  g_k = k;
  /* strictly sorted => at most one equivalent element: the upper bound is k+1 exactly when first[k] is equivalent to what */
  long k2 = (k < n && !(what->_fnum < first[k]._fnum)) ? k + 1 : k;
  struct std_pair_FIX8_FieldTrait_P_FIX8_FieldTrait_P r; r.first = first + k; r.second = first + k2;
  return r;
}
struct std_pair_FIX8_FieldTrait_P_bool make_pair_ft_bool(FTr **a, _Bool *b)
{
  struct std_pair_FIX8_FieldTrait_P_bool r; r.first = *a; r.second = *b; return r;
}
''' % dict(FT=FT)

FTHA_LOOP_GHOST = '''    /* ghost: the class precondition "trait table strictly sorted by tag" instantiated at this iteration */
    __CPROVER_assume(from[offset]._fnum <= from[self->_els - 1]._fnum);              /* sorted: (offset, last) */
    __CPROVER_assume(from[offset]._fnum >= offset);                                  /* strictly increasing naturals: a[i] >= i */
    __CPROVER_assume((long)offset == g_w || from[offset]._fnum != from[g_w]._fnum);  /* keys unique: (offset, witness) */
    __CPROVER_assume(!g_miss || from[offset]._fnum != g_slot);                       /* harness hypothesis "g_slot is not a key": instance offset */'''

POST = r'''
/* -------- hash-array path: Presence::find(tag) after FieldTrait_Hash_Array(table) is the element with that tag, or end() -------- */
void h_ftha_find(void)
{
  long n = nondet_long(); __CPROVER_assume(1 <= n && n <= NMAX);
  FTr *tab = malloc((unsigned long)n * sizeof(FTr)); __CPROVER_assume(tab != 0);
  unsigned short key = nondet_ushort(); _Bool member = nondet_bool();
  long w = nondet_long(); __CPROVER_assume(0 <= w && w < n); g_w = w; g_slot = key; g_miss = !member;
  if (member) __CPROVER_assume(tab[w]._fnum == key);
  else __CPROVER_assume(tab[0]._fnum != key);                /* hypothesis "key is not in the table", instance 0 (the loop assumes the others) */
  __CPROVER_assume(tab[w]._fnum <= tab[n - 1]._fnum && tab[w]._fnum >= w);   /* sorted: (witness, last); a[i] >= i */
  struct FIX8_FieldTrait_Hash_Array ha;
  ftha_ctor(&ha, tab, (unsigned long)n);
  __CPROVER_assert(ha._els == n && ha._sz == (unsigned)tab[n - 1]._fnum + 1, "C12.ftha.index_size");
  %(SPS)s ps; ps._arr = tab; ps._sz = (unsigned long)n; ps._ftha = &ha;
  const FTr *r = ps_find_key_const(&ps, key);
  __CPROVER_assert(!member || r == &tab[w], "C12.ftha.find.member_found");
  __CPROVER_assert(member || r == tab + n, "C12.ftha.find.miss_is_end");
  __CPROVER_assert(r == tab + n || r->_fnum == key, "C12.ftha.find.hit_exact");
  /* the non-const overloads used by FieldTraits::set / clear / add agree */
  FTr *r2 = ps_find_key(&ps, key);
  __CPROVER_assert(r2 == r, "C12.ftha.find.nonconst_agrees");
  _Bool ans = nondet_bool(); FTr probe; probe._fnum = key;
  FTr *r3 = ps_find_elem_ans(&ps, probe, &ans);
  __CPROVER_assert(ans == member && (!member || r3 == &tab[w]), "C12.ftha.find.answer_is_membership");
  VACUITY_PROBE();
}
''' % dict(SPS=SPS)

POST += r"""
#define FT_EQ(a, b) ((a)._fnum == (b)._fnum && (a)._ftype == (b)._ftype && (a)._pos == (b)._pos && (a)._component == (b)._component && (a)._field_traits.a_ == (b)._field_traits.a_)
#define REP_OK(ps) ((ps)._rsz >= 1 && (ps)._sz <= (ps)._rsz && (ps)._rsz <= NMAX)
#define ARR_OK(ps) (__CPROVER_POINTER_OFFSET((ps)._arr) == 0 && __CPROVER_OBJECT_SIZE((ps)._arr) == (ps)._rsz * sizeof(FTr))

/* -------- insertable path (no hash array): lookups on a set that satisfies the representation invariant -------- */
void h_pset_find(void)
{
  long n = nondet_long(), cap = nondet_long(); __CPROVER_assume(1 <= n && n <= cap && cap <= NMAX);
  FTr *tab = malloc((unsigned long)cap * sizeof(FTr)); __CPROVER_assume(tab != 0);
  %(SPS)s ps; ps._arr = tab; ps._sz = (unsigned long)n; ps._rsz = (unsigned long)cap; ps._ftha = 0; ps._reserve = nondet_ulong();
  unsigned short key = nondet_ushort();
  long w = nondet_long(); __CPROVER_assume(0 <= w && w < n); g_w = w;
  _Bool member = tab[w]._fnum == key;
  const FTr *r = ps_find_key_const(&ps, key);
  __CPROVER_assert(r == tab + n || (r == tab + g_k && 0 <= g_k && g_k < n && r->_fnum == key), "C12.pset.find_const.hit_exact");
  __CPROVER_assert(!member || r == &tab[w], "C12.pset.find_const.member_found");
  FTr *r2 = ps_find_key(&ps, key);
  __CPROVER_assert(r2 == tab + n || (r2 == tab + g_k && 0 <= g_k && g_k < n && r2->_fnum == key), "C12.pset.find.hit_exact");
  __CPROVER_assert(!member || r2 == &tab[w], "C12.pset.find.member_found");
  _Bool ans = nondet_bool(); FTr probe; probe._fnum = key;
  FTr *r3 = ps_find_elem_ans(&ps, probe, &ans);
  __CPROVER_assert(r3 == tab + g_k && 0 <= g_k && g_k <= n, "C12.pset.find_answer.returns_partition_point");
  __CPROVER_assert(!ans || (g_k < n && r3->_fnum == key), "C12.pset.find_answer.true_is_exact_hit");
  __CPROVER_assert(!member || (ans && r3 == &tab[w]), "C12.pset.find_answer.member_found");
  __CPROVER_assert(ans || ((g_k == 0 || tab[g_k - 1]._fnum < key) && (g_k == n || key < tab[g_k]._fnum)), "C12.pset.find_answer.false_gives_insertion_point");
  /* at(): bounds-checked element access */
  unsigned long idx = nondet_ulong();
  const FTr *a = ps_at(&ps, idx);
  __CPROVER_assert(idx < (unsigned long)n ? a == &tab[idx] : a == tab + n, "C12.pset.at.bounds_checked");
  __CPROVER_assert(ps_size(&ps) == (unsigned long)n, "C12.pset.size");
  VACUITY_PROBE();
}

/* -------- insert: one inductive step of the history lemma.  Pre: representation invariant (sortedness on the watched window).
   Post: invariant again, the set is the old set plus the element, every old element keeps its content, a duplicate is refused. -------- */
static void pset_insert_body(int path)
{
  long n = nondet_long(), cap = nondet_long(); __CPROVER_assume(0 <= n && n <= cap && 1 <= cap && cap <= NMAX);
  /* the three code paths of insert are proved separately (together they cover every (n, cap)): first element / room left / reallocation */
  __CPROVER_assume(path == 0 ? n == 0 : path == 1 ? (0 < n && n < cap) : (0 < n && n == cap));
  FTr *tab = malloc((unsigned long)cap * sizeof(FTr)); __CPROVER_assume(tab != 0);
  %(SPS)s ps; ps._arr = tab; ps._sz = (unsigned long)n; ps._rsz = (unsigned long)cap; ps._ftha = 0; ps._reserve = nondet_ulong();
  __CPROVER_assume(ps._reserve <= 10000);                       /* reserve is a percentage (default 30) */
  __CPROVER_assume((unsigned long)n + 1 + (unsigned long)n * ps._reserve / 100 <= NMAX);   /* stay inside the 16-bit key space bound used for the arrays */
  FTr elem; const FTr *what = &elem;
  long w = nondet_long(); __CPROVER_assume(n == 0 ? w == -1 : (0 <= w && w < n)); g_w = w;
  _Bool member = n > 0 && tab[w]._fnum == elem._fnum;
  long J = nondet_long(); __CPROVER_assume(0 <= J && J <= n); g_J = J;
  FTr oldm1, old0, oldp1;                                        /* snapshot of the old elements J-1, J, J+1 */
  if (J - 1 >= 0 && J - 1 < n) oldm1 = tab[J - 1];
  if (J < n) old0 = tab[J];
  if (J + 1 < n) oldp1 = tab[J + 1];
  /* representation invariant, sortedness instantiated on the window */
  if (J - 1 >= 0 && J < n) __CPROVER_assume(oldm1._fnum < old0._fnum);
  if (J + 1 < n) __CPROVER_assume(old0._fnum < oldp1._fnum);
  struct std_pair_FIX8_FieldTrait_P_bool res = ps_insert(&ps, what);
  long pos = n == 0 ? 0 : g_k;
  __CPROVER_assert(!member || !res.second, "C12.pset.insert.duplicate_refused");
  if (!res.second) {
    __CPROVER_assert(n > 0 && g_k < n && tab[g_k]._fnum == elem._fnum, "C12.pset.insert.refused_only_if_present");
    __CPROVER_assert(ps._sz == (unsigned long)n && ps._arr == tab && ps._rsz == (unsigned long)cap, "C12.pset.insert.refused_leaves_set_unchanged");
    __CPROVER_assert(J >= n || FT_EQ(tab[J], old0), "C12.pset.insert.refused_leaves_elements_unchanged");
    __CPROVER_assert(res.first == tab + n, "C12.pset.insert.refused_returns_end");
  } else {
    __CPROVER_assert(ps._sz == (unsigned long)n + 1, "C12.pset.insert.size_plus_one");
    __CPROVER_assert(REP_OK(ps) && ARR_OK(ps), "C12.pset.insert.rep_invariant_capacity");
    FTr *na = ps._arr;
    __CPROVER_assert(0 <= pos && pos <= n, "C12.pset.insert.position_in_range");
    __CPROVER_assert(FT_EQ(na[J], *(J < pos ? &old0 : J == pos ? &elem : &oldm1)), "C12.pset.insert.content_at_J");
    if (J + 1 <= n) {
      __CPROVER_assert(FT_EQ(na[J + 1], *(J + 1 < pos ? &oldp1 : J + 1 == pos ? &elem : &old0)), "C12.pset.insert.content_at_J_plus_1");
      __CPROVER_assert(na[J]._fnum < na[J + 1]._fnum, "C12.pset.insert.rep_invariant_sorted");
    }
    __CPROVER_assert(res.first == na + pos, "C12.pset.insert.result_points_to_element");
  }
  VACUITY_PROBE();
}

void h_pset_insert_first(void) { pset_insert_body(0); }
void h_pset_insert_room(void) { pset_insert_body(1); }
void h_pset_insert_realloc(void) { pset_insert_body(2); }

/* clear: the set becomes empty, the invariant holds, the storage is kept */
void h_pset_clear(void)
{
  long n = nondet_long(), cap = nondet_long(); __CPROVER_assume(0 <= n && n <= cap && 1 <= cap && cap <= NMAX);
  FTr *tab = malloc((unsigned long)cap * sizeof(FTr)); __CPROVER_assume(tab != 0);
  %(SPS)s ps; ps._arr = tab; ps._sz = (unsigned long)n; ps._rsz = (unsigned long)cap; ps._ftha = 0; ps._reserve = nondet_ulong();
  ps_clear(&ps);
  __CPROVER_assert(ps._sz == 0 && ps_size(&ps) == 0, "C12.pset.clear.empties");
  __CPROVER_assert(REP_OK(ps) && ps._arr == tab && ps._rsz == (unsigned long)cap, "C12.pset.clear.rep_invariant");
  unsigned short key = nondet_ushort(); g_w = -1;
  const FTr *r = ps_find_key_const(&ps, key);
  __CPROVER_assert(r == tab, "C12.pset.clear.then_find_misses");      /* end() of the empty set */
  VACUITY_PROBE();
}
""" % dict(SPS=SPS)


def _ps(name, tail, cname, const=False, **kw):
    return dict(q='FIX8::presorted_set::' + name, filter='FIX8::presorted_set', mangled=(PSMK if const else PSM) + tail, cname=cname, **kw)


UNIT = dict(
    name='k_pset', tu='tu/tab.cpp', no_follow=True,
    full_structs=['FIX8::FieldTrait'],
    force_fields={'std::pair<FIX8::FieldTrait *, bool>': [('first', 'FIX8::FieldTrait *'), ('second', 'bool')],
                  'std::pair<FIX8::FieldTrait *, FIX8::FieldTrait *>': [('first', 'FIX8::FieldTrait *'), ('second', 'FIX8::FieldTrait *')]},
    emit=dict(
        exceptions=True,
        pod=[r'FIX8::FieldTrait', r'FIX8::FieldTrait::Compare', r'std::pair<.*>'],
        calls={
            'fill|void (unsigned short *, unsigned short *, const int &)': 'fill_ushort',
            'equal_range': 'equal_range_ft', 'make_pair': 'make_pair_ft_bool',
            'memcpy': 'memcpy_model', 'memmove': 'memmove_model',
            PS + '::end': 'ps_end', PS + '::begin': 'ps_begin', 'calc_reserve': 'ps_calc_reserve',
            PS + '::find': dict(c='ps_find_elem_ans', sig='FIX8::FieldTrait *(const FIX8::FieldTrait, bool &)'),
            'FIX8::FieldTrait::FieldTrait|void (const unsigned short)': 'ft_ctor_key',
            'FIX8::ebitset<FIX8::FieldTrait::TraitTypes, unsigned short>::ebitset|void ()': 'ebitset_ctor0',
        },
        type_alias=[(__import__('re').escape(PS) + r'::const_iterator', 'const FIX8::FieldTrait *'),
                    (__import__('re').escape(PS) + r'::iterator', 'FIX8::FieldTrait *'),
                    (__import__('re').escape(PS) + r'::result', 'std::pair<FIX8::FieldTrait *, bool>'),
                    (__import__('re').escape(PS) + r'::(const_)?internal_result', 'std::pair<FIX8::FieldTrait *, FIX8::FieldTrait *>'),
                    (r'FieldTrait::Compare', 'FIX8::FieldTrait::Compare'), (r'FIX8::FIX8::', 'FIX8::'), (r'(?<![:\w])pair<', 'std::pair<')],
        type_map=[(r'FIX8::FieldTrait::FieldType', 'unsigned int'), (r'FIX8::FieldTrait::TraitTypes', 'unsigned int')],
        lazy_structs=[r'FIX8::presorted_set<.*>', r'FIX8::FieldTrait', r'FIX8::FieldTrait_Hash_Array', r'FIX8::ebitset<.*>', r'std::pair<.*>',
                      r'FIX8::FieldTrait::Compare']),
    prelude=PRELUDE,
    functions=[
        dict(q='FIX8::FieldTrait_Hash_Array::FieldTrait_Hash_Array', sig=None, cname='ftha_ctor',
             ghost={'loop0.begin': FTHA_LOOP_GHOST},
             loops={0: dict(assigns='offset, __CPROVER_object_whole(self->_arr)',
                            invariants=[('inv.bound', 'offset <= self->_els'),
                                        ('inv.hit', 'g_w >= (long)offset || self->_arr[from[g_w]._fnum] == (unsigned short)g_w'),
                                        ('inv.miss', '!g_miss || g_slot >= self->_sz || self->_arr[g_slot] == 0')],
                            decreases='self->_els - offset')}),
        dict(q='FIX8::ebitset::ebitset', filter='FIX8::ebitset', mangled='_ZN4FIX87ebitsetINS_10FieldTrait10TraitTypesEtEC1Ev', cname='ebitset_ctor0',
             self_type='FIX8::ebitset<FIX8::FieldTrait::TraitTypes, unsigned short> *'),
        dict(q='FIX8::FieldTrait::FieldTrait', sig='void (const unsigned short)', cname='ft_ctor_key', self_type='FIX8::FieldTrait *'),
        _ps('end', '3endEv', 'ps_end_c', const=True),
        _ps('find', '4findEt', 'ps_find_key_const', const=True),
        _ps('end', '3endEv', 'ps_end'),
        _ps('find', '4findEt', 'ps_find_key'),
        _ps('find', '4findES1_Rb', 'ps_find_elem_ans'),
        _ps('calc_reserve', '12calc_reserveEmm', 'ps_calc_reserve', static=True),
        _ps('insert', '6insertEPKS1_', 'ps_insert'),
        _ps('clear', '5clearEv', 'ps_clear'),
        _ps('at', '2atEm', 'ps_at', const=True),
        _ps('size', '4sizeEv', 'ps_size', const=True),
    ],
    postlude=POST,
    proofs=[
        dict(name='ftha_find', harness='h_ftha_find', loop_contracts=True, properties=['C12'], solvers=['cadical', 'z3'],
             timeout=dict(quick=600, thorough=1200), floor=10),
        dict(name='pset_find', harness='h_pset_find', properties=['C12'], solvers=['cadical', 'z3'], timeout=dict(quick=600, thorough=1200), floor=10),
        dict(name='pset_insert_first', harness='h_pset_insert_first', properties=['C12'], solvers=['cadical', 'z3'], timeout=dict(quick=900, thorough=1800), floor=12, auto_chunks=4),
        dict(name='pset_insert_room', harness='h_pset_insert_room', properties=['C12'], solvers=['cadical', 'z3'], timeout=dict(quick=900, thorough=1800), floor=12, auto_chunks=10),
        dict(name='pset_insert_realloc', harness='h_pset_insert_realloc', properties=['C12'], solvers=['cadical', 'z3'], timeout=dict(quick=900, thorough=1800), floor=12, auto_chunks=10),
        dict(name='pset_clear', harness='h_pset_clear', properties=['C12'], solvers=['cadical', 'z3'], timeout=dict(quick=600, thorough=1200), floor=3),
    ],
    trusted_base=['ASSUMED: std::equal_range / std::fill / memcpy / memmove / operator new[] behave as ISO C++ / C specify (model bodies in specs/k_pset.py: '
                  'ghost partition index; havoc of the destination plus exact copy of the ghost-watched elements)',
                  'generated trait tables are strictly sorted by tag and non-empty (facts about f8c output, not proved here)'],
    assumptions=['table length 1..65536 (tags are 16-bit and unique)', 'strictly increasing 16-bit tags satisfy tag[i] >= i (consequence of the class precondition, assumed per instance)'],
)
