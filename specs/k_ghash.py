"""K-ghash (C14): the schema compiler's structural key of a repeating-group definition: group_hash (compiler/f8c.cpp) over rothash
(include/fix8/f8utils.hpp), bodies extracted from the clang AST.

f8c keeps, per group count field, a map from group_hash(definition) to the definition (CommonGroups); two definitions of the same count field
with the same key share one set of generated traits (find_group returns the first one).  "Distinct definitions never share metadata" therefore
needs group_hash to be injective on the definitions of one count field.  Obligations:
  - rothash is injective in its value argument for every accumulator (proved, all 2^64 inputs, loop-free);
  - definitions with one member field never collide (proved for every pair of field numbers);
  - definitions with two member fields and different member sets have different keys -- REFUTED: the mixing function is linear over GF(2)
    (key = g(a) ^ b ^ const), so g(a ^ c) == b ^ d gives a collision; the verifier's counterexample is replayed on the real rothash and
    through the real f8c on a generated schema.
The shapes (1 and 2 members, no nested groups) are fixed, the field numbers are symbolic: the refutation is a concrete counterexample and is
not weakened by the shape bound; the one-member obligation is a proof for that shape only.
"""
PRE_STRUCTS = r'''
struct ft_m { unsigned short _fnum; int _ftype; unsigned short _pos; unsigned short _field_traits; };   /* the key may depend on the field NUMBERS only */
struct pres_m { struct ft_m *_arr; unsigned long _sz; };
struct gpair_m;
struct gmap_m { struct gpair_m *items; unsigned long n; };
struct mspec_m { struct pres_m _fields; struct gmap_m _groups; unsigned _hash; };
struct gpair_m { unsigned first; struct mspec_m second; };                  /* std::pair<const unsigned, MessageSpec> */
'''
PRELUDE = r'''
#define VACUITY_PROBE() __CPROVER_assert(0, "vacuity-probe")
unsigned nondet_uint(void); unsigned short nondet_ushort(void); _Bool nondet_bool(void); int nondet_int(void);
_Bool g_no_shared_groups;
/* ---- ASSUMED container models: iteration order of the presence set (ascending field number) and of the nested-group map ---- */
const struct pres_m *ft_get_presence(const struct pres_m *f) { return f; }
const struct ft_m *pres_begin(const struct pres_m *p) { return p->_arr; }
const struct ft_m *pres_end(const struct pres_m *p) { return p->_arr + p->_sz; }
struct gpair_m *gmap_begin(const struct gmap_m *m) { return m->items; }
struct gpair_m *gmap_end(const struct gmap_m *m) { return m->items + m->n; }
'''
POST = r'''
void h_rothash(void)
{
  unsigned r = nondet_uint(), v1 = nondet_uint(), v2 = nondet_uint();
  __CPROVER_assert(!(FIX8_rothash(r, v1) == FIX8_rothash(r, v2)) || v1 == v2, "C14.rothash.injective_in_the_value_for_every_accumulator");
  unsigned r2 = nondet_uint();
  __CPROVER_assert(FIX8_rothash(r, v1) == (r ^ (r >> 2) ^ (r << 5) ^ (r << 13) ^ v1 ^ 0x80001801u), "C14.rothash.is_the_documented_mixing_function");
  VACUITY_PROBE();
}
static struct gpair_m g_none[1];
static void mk1(struct mspec_m *m, struct ft_m *arr, unsigned n)
{
  m->_fields._arr = arr; m->_fields._sz = n; m->_groups.items = g_none; m->_groups.n = 0; m->_hash = 0;
}
void h_one_member(void)
{
  struct ft_m a[1], b[1]; struct mspec_m p1, p2;
  a[0]._fnum = nondet_ushort(); b[0]._fnum = nondet_ushort(); a[0]._ftype = nondet_int(); b[0]._ftype = nondet_int();     /* types are free: two members of the same type are still two members */
  mk1(&p1, a, 1); mk1(&p2, b, 1); g_no_shared_groups = 0;
  __CPROVER_assert(!(group_hash(&p1) == group_hash(&p2)) || a[0]._fnum == b[0]._fnum, "C14.key.one_member_definitions_with_different_members_have_different_keys");
  VACUITY_PROBE();
}
/* nested groups: two definitions with the same members whose nested group (same count field) has different members must get different keys */
void h_nested(void)
{
  struct ft_m a[1], b[1], na[1], nb[1]; struct mspec_m p1, p2; struct gpair_m g1[1], g2[1];
  unsigned short m = nondet_ushort(), x = nondet_ushort(), y = nondet_ushort(); unsigned cnt = nondet_uint();
  a[0]._fnum = m; b[0]._fnum = m; na[0]._fnum = x; nb[0]._fnum = y;
  a[0]._ftype = nondet_int(); b[0]._ftype = nondet_int(); na[0]._ftype = nondet_int(); nb[0]._ftype = nondet_int();
  mk1(&p1, a, 1); mk1(&p2, b, 1); mk1(&g1[0].second, na, 1); mk1(&g2[0].second, nb, 1);
  g1[0].first = cnt; g2[0].first = cnt; p1._groups.items = g1; p1._groups.n = 1; p2._groups.items = g2; p2._groups.n = 1; g_no_shared_groups = 0;
  __CPROVER_assert(!(group_hash(&p1) == group_hash(&p2)) || x == y, "C14.key.definitions_that_differ_only_inside_a_nested_group_have_different_keys");
  VACUITY_PROBE();
}
void h_two_members(void)
{
  struct ft_m a[2], b[2]; struct mspec_m p1, p2;
  unsigned short a0 = nondet_ushort(), a1 = nondet_ushort(), b0 = nondet_ushort(), b1 = nondet_ushort();
  __CPROVER_assume(a0 >= 200 && a0 < a1 && b0 >= 200 && b0 < b1);     /* the presence set iterates in ascending field number; members are distinct */
  __CPROVER_assume(a1 <= 9999 && b1 <= 9999);                          /* ordinary field numbers (the user-defined range included) */
  __CPROVER_assume(a0 != b0 && a0 != b1 && a1 != b0 && a1 != b1 && a0 != 5000 && a1 != 5000 && b0 != 5000 && b1 != 5000);   /* four different fields, none of them the count field of the replay schema */
  a[0]._fnum = a0; a[1]._fnum = a1; b[0]._fnum = b0; b[1]._fnum = b1;
  mk1(&p1, a, 2); mk1(&p2, b, 2); g_no_shared_groups = 0;
  __CPROVER_assert(!(group_hash(&p1) == group_hash(&p2)) || (a0 == b0 && a1 == b1), "C14.key.two_member_definitions_with_different_members_have_different_keys");
  VACUITY_PROBE();
}
'''
UNIT = dict(
    name='k_ghash', tu='tu/f8c.cpp', no_follow=True,
    pre_structs=PRE_STRUCTS,
    emit=dict(
        constants={'no_shared_groups': 'g_no_shared_groups'},
        type_map=[(r'(struct )?(FIX8::)?MessageSpec', 'struct mspec_m'), (r'FIX8::FieldTraits', 'struct pres_m'),
                  (r'FIX8::Presence|FIX8::presorted_set<unsigned short, FIX8::FieldTrait, (FIX8::)?FieldTrait::Compare>', 'struct pres_m'),
                  (r'FIX8::FieldTrait', 'struct ft_m'),
                  (r'(FIX8::)?GroupMap|std::map<unsigned int, (struct )?(FIX8::)?MessageSpec.*>', 'struct gmap_m'),
                  (r'std::_Rb_tree_const_iterator<std::pair<const unsigned int, (struct )?(FIX8::)?MessageSpec> ?>|std::map<unsigned int, (struct )?(FIX8::)?MessageSpec.*>::const_iterator', 'struct gpair_m *'),
                  (r'std::pair<const unsigned int, (struct )?(FIX8::)?MessageSpec>', 'struct gpair_m')],
        calls={
            'FIX8::FieldTraits::get_presence': dict(c='ft_get_presence', sig='const FIX8::Presence &() const'), 'rothash': 'FIX8_rothash', 'FIX8::rothash': 'FIX8_rothash', 'group_hash': 'group_hash',
        },
        calls_rx=[(r'FIX8::presorted_set<unsigned short, FIX8::FieldTrait, .*Compare>::begin', 'pres_begin'), (r'FIX8::presorted_set<unsigned short, FIX8::FieldTrait, .*Compare>::end', 'pres_end'),
                  (r'std::map<unsigned int, .*MessageSpec.*>::begin', 'gmap_begin'), (r'std::map<unsigned int, .*MessageSpec.*>::end', 'gmap_end')],
    ),
    prelude=PRELUDE,
    functions=[
        dict(q='FIX8::rothash', sig='unsigned int (unsigned int, unsigned int)', cname='FIX8_rothash'),
        dict(q='group_hash', sig=None, cname='group_hash'),
    ],
    postlude=POST,
    proofs=[
        dict(name='rothash', harness='h_rothash', properties=['C14'], solvers=['cadical', 'z3'], timeout=dict(quick=300, thorough=900), floor=2, level='proved'),
        dict(name='one_member', harness='h_one_member', properties=['C14'], solvers=['cadical', 'z3'], timeout=dict(quick=300, thorough=900), floor=1, level='bounded', unwind=4),
        dict(name='nested', harness='h_nested', properties=['C14'], solvers=['cadical', 'z3'], timeout=dict(quick=300, thorough=900), floor=1, level='bounded', unwind=4),
        dict(name='two_members', harness='h_two_members', properties=['C14'], solvers=['cadical', 'z3'], timeout=dict(quick=300, thorough=900), floor=1, level='bounded', unwind=4),
    ],
    trusted_base=['ASSUMED: iteration of the presence set (ascending field number over a contiguous array) and of the nested-group map -- model bodies in specs/k_ghash.py'],
    assumptions=['group shapes fixed (one / two member fields, no nested groups); field numbers symbolic over the whole unsigned short range'],
)
