"""K-seq (C19, C20 -- the library-side acceptance decision): Session::enforce, Session::sequence_check, Session::compid_check (runtime/session.cpp)
with States::is_established / is_live, Session::do_state_change and SessionID::same_*_comp_id translated from their real bodies.

The inbound message is opaque: a ghost record of the header facts these functions read (MsgType, MsgSeqNum as passed in, PossDupFlag,
SendingTime, OrigSendingTime, SenderCompID, TargetCompID).  Sending (send / generate_resend_request) is a model that logs what is sent.
`enforce` is the function every in-tree handle_application uses as its gate:  `return enforce(seqnum, msg) || msg->process(router);`
so "delivered to the application" = enforce returns false without throwing.

Spec (from the property): a message is delivered exactly when the session is established, its CompIDs match (when enforced) and its number
is the expected one, or lower with PossDupFlag=Y and OrigSendingTime not after SendingTime; a number above the expected one is not
delivered and (in normal operation) answered with a ResendRequest starting at the expected number; a lower number without PossDup is a
protocol error.
"""
PRE_STRUCTS = r'''
struct fstr_m { long _value; };                       /* Field<f8String, tag>: the text as an id (identity model) */
struct fbool_m { _Bool _value; };                     /* Field<Boolean, tag> */
struct ftime_m { long _value; };                      /* Field<UTCTimestamp, tag>: nanoseconds */
struct hdr_m { int dummy; };                          /* MessageBase (header) */
struct msg_m { long msgtype; struct hdr_m hdr; };     /* Message (its MessageBase part is the same object in this model) */
struct oss_m { int dummy; };
struct sf_m { long _ses; };                           /* SessionConfig */
'''
PRELUDE = r'''
#define VACUITY_PROBE() __CPROVER_assert(0, "vacuity-probe")
long nondet_long(void); unsigned nondet_uint(void); _Bool nondet_bool(void); int nondet_int(void);
/* ---- ghost: what the inbound message's header says ---- */
_Bool g_has_possdup, g_possdup, g_has_orig; long g_sending, g_orig;
struct fstr_m g_f_target, g_f_sender;
long g_str_seqreset = 4;                              /* Common_MsgType_SEQUENCE_RESET ("4") as an id */
/* ---- ghost: what the session sent / did ---- */
long g_sent_count; unsigned g_sent_resend_begin; _Bool g_sent_is_resend;
_Bool g_ignore_logon_seq_flag;
/* ---- ASSUMED models ---- */
const long *msg_get_msgtype(const struct msg_m *m) { return &m->msgtype; }
const long *hdr_get_msgtype(const struct hdr_m *h) { return &((const struct msg_m *)h)->msgtype; }
struct hdr_m *msg_Header(const struct msg_m *m) { return (struct hdr_m *)&m->hdr; }
const struct fstr_m *hdr_get_target(struct hdr_m *h) { return &g_f_target; }
const struct fstr_m *hdr_get_sender(struct hdr_m *h) { return &g_f_sender; }
const long *fstr_get(const struct fstr_m *f) { return &f->_value; }
void fstr_ctor_str(struct fstr_m *f, const long *s, const void *rlm) { f->_value = *s; }
_Bool hdr_get_possdup(struct hdr_m *h, struct fbool_m *to) { if (g_has_possdup) to->_value = g_possdup; return g_has_possdup; }
_Bool hdr_get_sending(struct hdr_m *h, struct ftime_m *to) { to->_value = g_sending; return 1; }
_Bool hdr_get_orig(struct hdr_m *h, struct ftime_m *to) { if (g_has_orig) to->_value = g_orig; return g_has_orig; }
void fbool_ctor(struct fbool_m *f, _Bool v) { f->_value = v; }
void ftime_ctor0(struct ftime_m *f) { f->_value = nondet_long(); }
_Bool fbool_call(const struct fbool_m *f) { return f->_value; }
const long *ftime_call(const struct ftime_m *f) { return &f->_value; }
_Bool tick_gt(const long *a, const long *b) { return *a > *b; }
_Bool tick_lt(const long *a, const long *b) { return *a < *b; }
_Bool str_eq(const long *a, const long *b) { return *a == *b; }
_Bool str_ne(const long *a, const long *b) { return *a != *b; }
void oss_ctor(struct oss_m *o) { }
void ftime_print(const struct ftime_m *f, struct oss_m *o) { }
long oss_str(struct oss_m *o) { return nondet_long(); }
struct msg_m g_resend_msg;
struct msg_m *ses_generate_resend_request(void *self, unsigned begin, unsigned end) { g_sent_resend_begin = begin; g_sent_is_resend = 1; return &g_resend_msg; }
_Bool ses_send(void *self, struct msg_m *m, _Bool destroy, unsigned custom_seqnum, _Bool no_increment)
{ __CPROVER_assert(m == &g_resend_msg, "model: the only message these functions send is the ResendRequest they generated"); if (g_sent_count < 1000) g_sent_count++; return 1; }
void ses_state_change(void *self, unsigned before, unsigned after) { }          /* virtual notification hook: no effect on the session */
_Bool sf_get_ignore_flag(struct sf_m *sf, long ses, _Bool def) { return g_ignore_logon_seq_flag; }
unsigned atomic_exchange_u(unsigned *a, unsigned v, int memory_order) { unsigned o = *a; *a = v; return o; }
'''
POST = r'''
static void mk(struct FIX8_Session *s, struct msg_m *m, struct sf_m *sf)
{
  s->_state = nondet_uint(); __CPROVER_assume(s->_state < K_st_num_states);
  s->_next_receive_seq = nondet_uint(); __CPROVER_assume(s->_next_receive_seq >= 1);
  s->_loginParameters._enforce_compids = nondet_bool();
  s->_sid._senderCompID._value = nondet_long(); s->_sid._targetCompID._value = nondet_long();
  s->_sf = nondet_bool() ? sf : 0; sf->_ses = nondet_long();
  m->msgtype = nondet_long();
  g_has_possdup = nondet_bool(); g_possdup = nondet_bool(); g_has_orig = nondet_bool(); g_sending = nondet_long(); g_orig = nondet_long();
  g_f_target._value = nondet_long(); g_f_sender._value = nondet_long();
  g_sent_count = 0; g_sent_is_resend = 0; g_ignore_logon_seq_flag = nondet_bool();
}
/* the gate in front of the application */
void h_enforce(void)
{
  struct FIX8_Session s; struct msg_m m; struct sf_m sf; mk(&s, &m, &sf);
  unsigned seq = nondet_uint(), expected = s._next_receive_seq, state0 = s._state;
  _Bool established = state0 != E_FIX8_States_SessionStates_st_wait_for_logon && state0 != E_FIX8_States_SessionStates_st_not_logged_in
                      && state0 != E_FIX8_States_SessionStates_st_logon_sent && state0 != E_FIX8_States_SessionStates_st_none
                      && state0 != E_FIX8_States_SessionStates_st_session_terminated;
  _Bool compids_ok = !s._loginParameters._enforce_compids || state0 == E_FIX8_States_SessionStates_st_logon_received
                     || (g_f_target._value == s._sid._senderCompID._value && g_f_sender._value == s._sid._targetCompID._value);
  _Bool seqreset = m.msgtype == g_str_seqreset;
  _Bool dup_ok = g_has_possdup && g_possdup && !(g_has_orig && g_orig > g_sending);
  __exc = 0;
  _Bool fails = session_enforce(&s, seq, &m);
  _Bool delivered = !__exc && !fails;
  __CPROVER_assert(!delivered || established, "C19.delivered_only_on_an_established_session");
  __CPROVER_assert(!delivered || compids_ok, "C19.delivered_only_with_matching_compids");
  __CPROVER_assert(!delivered || (!seqreset && (seq == expected || (seq < expected && dup_ok))), "C19.delivered_only_in_sequence_or_as_a_valid_possdup");
  __CPROVER_assert(!(established && compids_ok && !seqreset && (seq == expected || (seq < expected && dup_ok))) || delivered, "C19.in_sequence_messages_are_delivered");
  __CPROVER_assert(!(established && compids_ok && !seqreset && seq > expected && state0 == E_FIX8_States_SessionStates_st_continuous)
                   || (!__exc && fails && g_sent_count == 1 && g_sent_is_resend && g_sent_resend_begin == expected
                       && s._state == E_FIX8_States_SessionStates_st_resend_request_sent), "C19.gap_in_normal_operation_requests_resend_from_expected_and_withholds");
  __CPROVER_assert(!(established && compids_ok && !seqreset && seq < expected && !(g_has_possdup && g_possdup)) || __exc == EXC_FIX8_MsgSequenceTooLow, "C19.low_number_without_possdup_is_a_protocol_error");
  __CPROVER_assert(s._next_receive_seq == expected, "C19.gate_does_not_move_the_expected_number");
  __CPROVER_assert(g_sent_count == 0 || (seq > expected && state0 == E_FIX8_States_SessionStates_st_continuous), "C19.resend_requested_only_for_a_gap_in_normal_operation");
  __CPROVER_assert(__exc == 0 || __exc == EXC_FIX8_MsgSequenceTooLow || __exc == EXC_FIX8_InvalidMsgSequence || __exc == EXC_FIX8_BadSendingTime || __exc == EXC_FIX8_BadCompidId, "C19.only_protocol_exceptions");
  VACUITY_PROBE();
}
/* C20: a number above the expected one never terminates the session of a conformant counterparty -- while a resend is pending, or on the Logon itself */
void h_gap_is_not_fatal(void)
{
  struct FIX8_Session s; struct msg_m m; struct sf_m sf; mk(&s, &m, &sf);
  unsigned seq = nondet_uint(), expected = s._next_receive_seq;
  __CPROVER_assume(seq > expected && m.msgtype != g_str_seqreset);
  __CPROVER_assume(s._state == E_FIX8_States_SessionStates_st_resend_request_sent || s._state == E_FIX8_States_SessionStates_st_logon_received
                   || s._state == E_FIX8_States_SessionStates_st_continuous);
  __CPROVER_assume(!s._loginParameters._enforce_compids);
  unsigned state0 = s._state; _Bool on_logon = state0 == E_FIX8_States_SessionStates_st_logon_received;
  __exc = 0;
  _Bool fails = session_enforce(&s, seq, &m);
  if (state0 == E_FIX8_States_SessionStates_st_continuous) __CPROVER_assert(!__exc && fails, "C20.gap_in_normal_operation_is_withheld_not_fatal");
  if (state0 == E_FIX8_States_SessionStates_st_continuous) __CPROVER_assert(g_sent_count == 1 && g_sent_is_resend && g_sent_resend_begin == expected && s._next_receive_seq == expected, "C20.gap_is_answered_by_one_resend_request_from_the_expected_number");
  if (state0 == E_FIX8_States_SessionStates_st_resend_request_sent) __CPROVER_assert(!__exc && fails, "C20.further_gap_message_while_resend_pending_is_withheld_not_fatal");
  if (on_logon) __CPROVER_assert(!__exc, "C20.logon_with_a_higher_number_is_not_fatal");
  VACUITY_PROBE();
}
'''
SES = 'FIX8::Session'
UNIT = dict(
    name='k_seq', tu='tu/rt_session.cpp', no_follow=True,
    pre_structs=PRE_STRUCTS,
    probe={'K_st_num_states': 'FIX8::States::st_num_states', 'E_FIX8_States_SessionStates_st_none': 'FIX8::States::st_none',
           'E_FIX8_States_SessionStates_st_continuous': 'FIX8::States::st_continuous', 'E_FIX8_States_SessionStates_st_resend_request_sent': 'FIX8::States::st_resend_request_sent',
           'E_FIX8_States_SessionStates_st_logon_received': 'FIX8::States::st_logon_received', 'E_FIX8_States_SessionStates_st_session_terminated': 'FIX8::States::st_session_terminated',
           'E_FIX8_States_SessionStates_st_wait_for_logon': 'FIX8::States::st_wait_for_logon', 'E_FIX8_States_SessionStates_st_not_logged_in': 'FIX8::States::st_not_logged_in',
           'E_FIX8_States_SessionStates_st_logon_sent': 'FIX8::States::st_logon_sent'},
    emit=dict(
        exceptions=True,
        may_throw={'session_compid_check': True, 'session_sequence_check': True},
        base_cast={('struct msg_m', 'struct hdr_m'): '((struct hdr_m *)(%s))'},
        pod=[r'std::basic_string<char>'],
        constants={'Common_MsgType_SEQUENCE_RESET': 'g_str_seqreset'},
        default_args={'sf_get_ignore_flag': {1: '0'}, 'fstr_ctor_str': {1: '0'}, 'atomic_exchange_u': {1: '5'}, 'ses_generate_resend_request': {1: '0u'}, 'ses_send': {1: '1', 2: '0u', 3: '0'}},
        type_map=[(r'(std::basic_string<char>|std::string|FIX8::f8String)', 'long'), (r'FIX8::States::SessionStates', 'unsigned int'),
                  (r'FIX8::f8_atomic<unsigned int>|std::atomic<unsigned int>|std::__atomic_base<unsigned int>', 'unsigned int'), (r'FIX8::f8_atomic<FIX8::States::SessionStates>|std::atomic<FIX8::States::SessionStates>', 'unsigned int'),
                  (r'FIX8::Message', 'struct msg_m'), (r'FIX8::MessageBase', 'struct hdr_m'),
                  (r'FIX8::(target_comp_id|sender_comp_id)|FIX8::Field<std::basic_string<char>, (49|56)>', 'struct fstr_m'),
                  (r'FIX8::poss_dup_flag|FIX8::Field<FIX8::EnumType<(FIX8::FieldTrait::ft_Boolean|8)>, 43>', 'struct fbool_m'),
                  (r'FIX8::(sending_time|orig_sending_time)|FIX8::Field<FIX8::EnumType<(FIX8::FieldTrait::ft_UTCTimestamp|\d+)>, (52|122)>', 'struct ftime_m'),
                  (r'FIX8::Tickval', 'long'), (r'std::basic_ostringstream<char>|std::ostringstream|std::basic_ostream<char>', 'struct oss_m'),
                  (r'(FIX8::)?SessionConfig|FIX8::Configuration', 'struct sf_m'), (r'FIX8::XmlElement', 'long'), (r'FIX8::RealmBase', 'void')],
        lazy_structs=[r'FIX8::Session', r'FIX8::SessionID', r'FIX8::LoginParameters'],
        calls_rx=[(r'FIX8::Field<FIX8::EnumType<\d+>, 43>::Field', 'fbool_ctor'), (r'FIX8::Field<FIX8::EnumType<\d+>, 43>::operator\(\)', 'fbool_call'),
                  (r'FIX8::Field<FIX8::EnumType<\d+>, (52|122)>::Field', 'ftime_ctor0'), (r'FIX8::Field<FIX8::EnumType<\d+>, (52|122)>::operator\(\)', 'ftime_call'),
                  (r'FIX8::Field<FIX8::EnumType<\d+>, 122>::print', dict(c='ftime_print', sig='void (std::ostream &) const'))],
        calls={
            'FIX8::Message::get_msgtype': dict(c='msg_get_msgtype', sig='const FIX8::f8String &() const'), 'FIX8::MessageBase::get_msgtype': dict(c='hdr_get_msgtype', sig='const FIX8::f8String &() const'), 'FIX8::Message::Header': 'msg_Header',
            'FIX8::MessageBase::get': lambda em, n, args: (
                dict(c='hdr_get_target', sig='const FIX8::target_comp_id *() const') if not args and 'target_comp_id' in em.tstr(n['type']) or (not args and ', 56>' in em.tstr(n['type'])) else
                dict(c='hdr_get_sender', sig='const FIX8::sender_comp_id *() const') if not args else
                dict(c='hdr_get_possdup', sig='bool (FIX8::poss_dup_flag &) const') if 'fbool_m' in em._decl(em.tstr(args[0]['type']), '') else
                dict(c='hdr_get_orig', sig='bool (FIX8::orig_sending_time &) const') if ('orig' in em.tstr(args[0]['type']) or ', 122>' in em.tstr(args[0]['type'])) else
                dict(c='hdr_get_sending', sig='bool (FIX8::sending_time &) const')),
            'FIX8::Field<std::basic_string<char>, 56>::Field': 'fstr_ctor_str', 'FIX8::Field<std::basic_string<char>, 49>::Field': 'fstr_ctor_str',
            'FIX8::target_comp_id::get': dict(c='fstr_get', sig='const FIX8::f8String &() const'), 'FIX8::sender_comp_id::get': dict(c='fstr_get', sig='const FIX8::f8String &() const'),
            'FIX8::Field<std::basic_string<char>, 56>::get': dict(c='fstr_get', sig='const FIX8::f8String &() const'), 'FIX8::Field<std::basic_string<char>, 49>::get': dict(c='fstr_get', sig='const FIX8::f8String &() const'),
            'FIX8::Field<std::basic_string<char>, 49>::operator()': dict(c='fstr_get', sig='const FIX8::f8String &() const'), 'FIX8::Field<std::basic_string<char>, 56>::operator()': dict(c='fstr_get', sig='const FIX8::f8String &() const'),
            'FIX8::poss_dup_flag::Field': 'fbool_ctor', 'FIX8::poss_dup_flag::operator()': 'fbool_call',
            'FIX8::sending_time::Field': 'ftime_ctor0', 'FIX8::orig_sending_time::Field': 'ftime_ctor0',
            'FIX8::sending_time::operator()': 'ftime_call', 'FIX8::orig_sending_time::operator()': 'ftime_call',
            'FIX8::orig_sending_time::print': dict(c='ftime_print', sig='void (std::ostream &) const'),
            'operator>': 'tick_gt', 'operator<': 'tick_lt', 'operator==': 'str_eq', 'operator!=': 'str_ne',
            'std::basic_ostringstream<char>::basic_ostringstream': 'oss_ctor', 'std::basic_ostringstream<char>::str': 'oss_str',
            SES + '::generate_resend_request': dict(c='ses_generate_resend_request', sig='FIX8::Message *(const unsigned int, const unsigned int)'),
            SES + '::send': dict(c='ses_send', sig='bool (FIX8::Message *, bool, unsigned int, bool)'), SES + '::state_change': 'ses_state_change',
            SES + '::compid_check': dict(c='session_compid_check', sig='void (const unsigned int, const FIX8::Message *, const FIX8::SessionID &) const'),
            SES + '::sequence_check': 'session_sequence_check', SES + '::do_state_change': 'session_do_state_change',
            'is_established': 'states_is_established', 'is_live': 'states_is_live',
            'FIX8::SessionID::same_sender_comp_id': dict(c='sid_same_sender', sig='bool (const FIX8::target_comp_id &) const'),
            'FIX8::SessionID::same_target_comp_id': dict(c='sid_same_target', sig='bool (const FIX8::sender_comp_id &) const'),
            'struct sf_m::get_ignore_logon_sequence_check_flag': 'sf_get_ignore_flag', 'FIX8::SessionConfig::get_ignore_logon_sequence_check_flag': 'sf_get_ignore_flag', 'FIX8::Configuration::get_ignore_logon_sequence_check_flag': 'sf_get_ignore_flag',
            'std::atomic<FIX8::States::SessionStates>::exchange': 'atomic_exchange_u', 'FIX8::f8_atomic<FIX8::States::SessionStates>::exchange': 'atomic_exchange_u',
        }),
    prelude=PRELUDE,
    force_fields={'FIX8::Session': [('_state', 'FIX8::States::SessionStates'), ('_next_receive_seq', 'unsigned int'), ('_loginParameters', 'FIX8::LoginParameters'),
                                    ('_sid', 'FIX8::SessionID'), ('_sf', 'FIX8::SessionConfig *')],
                  'FIX8::LoginParameters': [('_enforce_compids', 'bool')],
                  'FIX8::SessionID': [('_senderCompID', 'FIX8::sender_comp_id'), ('_targetCompID', 'FIX8::target_comp_id')]},
    functions=[
        dict(q='FIX8::States::is_live', sig=None, cname='states_is_live'),
        dict(q='FIX8::States::is_established', sig=None, cname='states_is_established'),
        dict(q='FIX8::SessionID::same_sender_comp_id', sig=None, cname='sid_same_sender'),
        dict(q='FIX8::SessionID::same_target_comp_id', sig=None, cname='sid_same_target'),
        dict(q='FIX8::Session::do_state_change', sig=None, cname='session_do_state_change'),
        dict(q='FIX8::Session::compid_check', sig=None, cname='session_compid_check'),
        dict(q='FIX8::Session::sequence_check', sig=None, cname='session_sequence_check'),
        dict(q='FIX8::Session::enforce', sig=None, cname='session_enforce'),
    ],
    postlude=POST,
    proofs=[
        dict(name='enforce', harness='h_enforce', properties=['C19'], solvers=['cadical', 'z3'], timeout=dict(quick=300, thorough=900), floor=9, level='proved-modular'),
        dict(name='gap_is_not_fatal', harness='h_gap_is_not_fatal', properties=['C20'], solvers=['cadical', 'z3'], timeout=dict(quick=300, thorough=900), floor=3, level='proved-modular'),
    ],
    trusted_base=['ASSUMED: the header accessors return the inbound message\'s MsgType / CompIDs / PossDupFlag / SendingTime / OrigSendingTime (ghost record); send() transmits the message it is given; '
                  'generate_resend_request(b) builds a ResendRequest with BeginSeqNo b; std::string / Tickval comparisons are value comparisons; atomics are plain variables (model bodies in specs/k_seq.py)',
                  'ASSUMED (wrapper idiom): handle_application implementations call `enforce(seqnum, msg) || msg->process(router)`, as every in-tree one does'],
    assumptions=['the sequence number passed to enforce is the one Session::process extracted from the raw text (first "34=" occurrence): that extraction and the epilogue of process '
                 '(which advances the expected number) are not under contract here'],
)
