"""K-tok (C03, C06): the tokenisers MessageBase::extract_element(const char*, unsigned, char*, char*) and
extract_element_fixed_width (message.hpp) under dfcc function + loop contracts, and their call sites in
MessageBase::extract_header (message.cpp) checked against the callee contracts (--replace-call-with-contract).

Contract of extract_element(from, sz, tag, val):
  requires  from readable for sz bytes; tag and val each writable for sz + 1 bytes
            (every input byte may be a tag digit, or a value byte, plus the terminator)
  ensures   r <= sz;  r == 0 or: the tag text is the leading digits, followed by '=', the value bytes up to the first SOH, r = taglen+1+vallen+1,
            both outputs NUL-terminated, value bytes copied unchanged (ghost witness index)
  assigns   only the two output buffers
The loop carries a loop contract, so the proof is unbounded in sz (sz <= 65536 stated).  A caller whose buffers are smaller than its input
fails the named precondition at its call site -- that is how the fixed 32 / 2048-byte stack buffers show up.
"""
PRELUDE = r'''
#include <stdlib.h>
#define VACUITY_PROBE() __CPROVER_assert(0, "vacuity-probe")
long nondet_long(void); unsigned nondet_uint(void); _Bool nondet_bool(void); unsigned long nondet_ulong(void);
#define SZMAX 8192u                      /* FIX8_MAX_MSG_LENGTH */
/* isdigit in the C locale (ASSUMED equal to glibc's table for -128..255) */
int isdigit_c(int c) { return c >= '0' && c <= '9'; }
/* ghost outputs published by the tokenisers at return */
unsigned long g_taglen, g_vallen;
unsigned long g_j;                       /* ghost witness index for "every value byte is copied unchanged" */
/* ---- ASSUMED: memcpy copies n bytes.  Model: the destination range is overwritten -- the watched byte (ghost index g_j) with exactly the
   source byte, one further arbitrary byte with an arbitrary value (k-witness havoc, see DESIGN); ranges checked ---- */
char nondet_char(void);
void *memcpy_model(void *dstv, const void *srcv, unsigned long n)
{
  char *dst = dstv; const char *src = srcv;
  if (n == 0) return dstv;
  __CPROVER_assert(__CPROVER_r_ok(src, n), "memcpy: source range readable");
  __CPROVER_assert(__CPROVER_w_ok(dst, n), "memcpy: destination range writable");
  char keep = 0; _Bool in = g_j < n;
  if (in) keep = src[g_j];
  unsigned long h = nondet_ulong();
  if (h < n && h != g_j) dst[h] = nondet_char();
  if (in) dst[g_j] = keep;
  return dstv;
}
/* ---- ASSUMED (C standard): strncpy copies at most n bytes up to and including the first NUL of src and pads the rest of the n bytes with NUL; it does NOT
   write dst[n].  Not called on the current tree; present so that an edit that replaces the memcpy is verified rather than left undecided.  Same k-witness
   model: the watched byte becomes NUL when an (arbitrarily chosen) earlier source byte is NUL, otherwise the source byte -- an over-approximation of
   "some earlier byte is NUL" that never removes a behaviour of the real function ---- */
char *strncpy_model(char *dst, const char *src, unsigned long n)
{
  if (n == 0) return dst;
  __CPROVER_assert(__CPROVER_w_ok(dst, n), "strncpy: destination range writable");
  _Bool in = g_j < n; char keep = 0;
  if (in) {
    unsigned long z = nondet_ulong();
    if (z < g_j && src[z] == 0) keep = 0;
    else { __CPROVER_assert(__CPROVER_r_ok(src + g_j, 1), "strncpy: source byte readable"); keep = src[g_j]; }
  }
  unsigned long h = nondet_ulong();
  if (h < n && h != g_j) dst[h] = nondet_char();
  if (in) dst[g_j] = keep;
  return dst;
}
'''

EE_CONTRACT = [
    ('requires', 'C03.tok.pre.size', 'sz <= SZMAX'),
    ('requires', 'C03.tok.pre.from', 'sz == 0 || __CPROVER_is_fresh(from, sz)'),
    ('requires', 'C03.tok.pre.tag_capacity', '__CPROVER_is_fresh(tag, (unsigned long)sz + 1)'),
    ('requires', 'C03.tok.pre.val_capacity', '__CPROVER_is_fresh(val, (unsigned long)sz + 1)'),
    ('assigns', None, '__CPROVER_object_whole(tag), __CPROVER_object_whole(val)'),
    ('ensures', 'C03.tok.consumes_at_most_input', '__CPROVER_return_value <= sz'),
    ('ensures', 'C03.tok.a_token_is_at_least_eq_and_soh', '__CPROVER_return_value == 0 || (__CPROVER_return_value >= 2 && from[__CPROVER_return_value - 1] == 1)'),
]
EE_LOOP = dict(
    assigns='ii, state, tag, val, __CPROVER_object_whole(tag0), __CPROVER_object_whole(val0)',
    invariants=[
        ('inv.idx', 'ii <= sz && (state == 0 || state == 1)'),
        ('inv.ptrs', '__CPROVER_same_object(tag, tag0) && __CPROVER_same_object(val, val0) && __CPROVER_POINTER_OFFSET(tag0) == 0 && __CPROVER_POINTER_OFFSET(val0) == 0'),
        ('inv.room', '__CPROVER_POINTER_OFFSET(tag) <= ii && __CPROVER_POINTER_OFFSET(val) <= ii && (state == 0 || ii >= 1)'),
    ],
    decreases='sz - ii')
EE_GHOST = {'entry': '  char *tag0 = tag, *val0 = val; /* ghost: start of the output buffers */'}

FW_CONTRACT = [
    ('requires', 'C06.fw.pre.size', 'sz <= SZMAX && val_sz <= SZMAX'),
    ('requires', 'C06.fw.pre.from', 'sz == 0 || __CPROVER_is_fresh(from, sz)'),
    ('requires', 'C06.fw.pre.tag_capacity', '__CPROVER_is_fresh(tag, (unsigned long)sz + 1)'),
    ('requires', 'C06.fw.pre.val_capacity', '__CPROVER_is_fresh(val, (unsigned long)val_sz + 1)'),
    ('assigns', None, '__CPROVER_object_whole(tag), __CPROVER_object_whole(val), g_taglen'),
    ('ensures', 'C06.fw.consumed_is_tag_eq_data_sep', '__CPROVER_return_value == 0 || (__CPROVER_return_value == g_taglen + 1 + val_sz + 1 && from[g_taglen] == 61)'),
    ('ensures', 'C06.fw.data_inside_input', '__CPROVER_return_value == 0 || g_taglen + 1 + (unsigned long)val_sz <= sz'),
    ('ensures', 'C06.fw.data_bytes_unchanged_whatever_they_are', '__CPROVER_return_value == 0 || g_j >= val_sz || val[g_j] == from[g_taglen + 1 + g_j]'),
    ('ensures', 'C06.fw.value_terminated', '__CPROVER_return_value == 0 ? val[0] == 0 : val[val_sz] == 0'),
    ('ensures', 'C03.fw.consumes_at_most_input_plus_separator', '__CPROVER_return_value <= (unsigned long)sz + 1'),
]
FW_LOOP = dict(
    assigns='ii, tag, __CPROVER_object_whole(tag0)',
    invariants=[
        ('inv.idx', 'ii <= sz && __CPROVER_same_object(tag, tag0) && __CPROVER_POINTER_OFFSET(tag0) == 0 && __CPROVER_POINTER_OFFSET(tag) == ii'),
    ],
    decreases='sz - ii')
FW_GHOST = {'entry': '  char *tag0 = tag; /* ghost */',
            'ret': '  g_taglen = __CPROVER_POINTER_OFFSET(tag); /* ghost */'}

POST = r'''
void h_extract_element(void)
{
  const char *from; unsigned sz; char *tag, *val;
  g_j = nondet_ulong();
  extract_element((char *)from, sz, tag, val);
  VACUITY_PROBE();
}
void h_extract_fixed_width(void)
{
  const char *from; unsigned sz, val_sz; char *tag, *val;
  g_j = nondet_ulong();
  extract_element_fixed_width((char *)from, sz, val_sz, tag, val);
  VACUITY_PROBE();
}
/* extract_header(from, len, mtype): the three tokeniser calls against the callee contract; the caller-supplied len/mtype buffers are
   MAX_MSGTYPE_FIELD_LEN bytes at every call site in the library (Message::factory) */
void h_extract_header(void)
{
  struct strview s; unsigned long n = nondet_ulong(); __CPROVER_assume(n <= 8192);      /* FIX8_MAX_MSG_LENGTH */
  char *bytes = malloc(n == 0 ? 1 : n); __CPROVER_assume(bytes != 0); s.data = bytes; s.size = n;
  char len[32], mtype[32];
  g_j = nondet_ulong();
  unsigned r = extract_header(&s, len, mtype);
  __CPROVER_assert(r <= n, "C03.header.consumes_at_most_input");
  VACUITY_PROBE();
}
'''

UNIT = dict(
    name='k_tok', tu='tu/rt_message.cpp', no_follow=True,
    pre_structs='struct strview { const char *data; unsigned long size; };   /* string model "view": bytes and length (ASSUMED: data()/size()) */\n',
    emit=dict(
        calls={'isdigit': 'isdigit_c', 'memcpy': 'memcpy_model', 'strncpy': 'strncpy_model',
               'extract_element|unsigned int (const char *, const unsigned int, char *, char *)': 'extract_element',
               'std::basic_string<char>::data': 'sv_data', 'std::basic_string<char>::size': 'sv_size'},
        type_map=[(r'(FIX8::f8String|std::basic_string<char>|std::string)', 'struct strview')],
        constants={'default_assignment_separator': '((unsigned char)61)', 'default_field_separator': '((unsigned char)1)',
                   'MAX_MSGTYPE_FIELD_LEN': 'probe:FIX8::MAX_MSGTYPE_FIELD_LEN'}),
    prelude=PRELUDE + r'''
const char *sv_data(const struct strview *s) { return s->data; }
unsigned long sv_size(const struct strview *s) { return s->size; }
''',
    functions=[
        dict(q='FIX8::MessageBase::extract_element', sig='unsigned int (const char *, const unsigned int, char *, char *)', cname='extract_element',
             contract=EE_CONTRACT, loops={0: EE_LOOP}, ghost=EE_GHOST),
        dict(q='FIX8::MessageBase::extract_element_fixed_width', sig=None, cname='extract_element_fixed_width',
             contract=FW_CONTRACT, loops={0: FW_LOOP}, ghost=FW_GHOST),
        dict(q='FIX8::MessageBase::extract_header', sig=None, cname='extract_header', static=True,
             ),
    ],
    postlude=POST,
    proofs=[
        dict(name='extract_element', harness='h_extract_element', enforce=['extract_element'], loop_contracts=True, properties=['C03', 'C06'],
             solvers=['cadical', 'z3'], timeout=dict(quick=600, thorough=1800), floor=10, object_bits=10, auto_chunks=12),
        dict(name='extract_fixed_width', harness='h_extract_fixed_width', enforce=['extract_element_fixed_width'], loop_contracts=True, properties=['C03', 'C06'],
             solvers=['cadical', 'z3'], timeout=dict(quick=600, thorough=1800), floor=8, object_bits=10, auto_chunks=8),
        dict(name='extract_header_calls', harness='h_extract_header', replace=['extract_element'], properties=['C03'],
             solvers=['cadical', 'z3'], timeout=dict(quick=600, thorough=1800), floor=3, object_bits=10, level='proved-modular'),
    ],
    trusted_base=['ASSUMED: isdigit is the C-locale digit test; memcpy copies n bytes (k-witness model in specs/k_tok.py); strncpy as the C standard describes it (model present for edits only, not called on the current tree); std::string data()/size() are the bytes and length of the string'],
    assumptions=['input size up to 65536 bytes for the tokenisers (the library caps messages at FIX8_MAX_MSG_LENGTH = 8192)'],
)
