"""K-tab (C12): metadata lookup tables behave as exact maps.

Units (all bodies extracted from the clang AST of the real headers on every run):
  * GeneratedTable<unsigned, BaseEntry>::{begin,end,_find,find_ptr,find_pair_ptr,find_ref,at} + _pair::Less   (field table)
  * GeneratedTable<const char*, BaseMsgEntry>::{...same...} + _pair<const char*,..>::Less (strcmp)             (message table)
  * F8MetaCntx::find_be and the fill loop of the F8MetaCntx constructor                                       (fast field index)
  * FieldTrait_Hash_Array constructor loop + Presence::find (hash-array path)                                 (per-message trait set)
  * Presence (presorted_set specialisation, insertable path): find / insert / clear / at                       (sorted set)

std::lower_bound / std::equal_range are external: model bodies stating their ISO contracts with a ghost
partition index (ASSUMED).  "Key present" is a single ghost witness index chosen by the harness; the class
precondition "table strictly sorted by key" is instantiated at (witness, partition point).
"""

TABLES = {
    # tag: (Key C++ type, Val C++ type, mangled class prefix, key param mangling, C key type, key equality on (pair ptr expr, key lvalue))
    'u': dict(K='unsigned int', V='FIX8::BaseEntry', M='IjNS_9BaseEntryEE', KP='RKj', LESS='_ZN4FIX85_pairIjNS_9BaseEntryEE4LessERKS2_S4_',
              CK='unsigned', KEYSIG='const unsigned int &', eq='(%s)->_key == %s', mk='unsigned key = nondet_uint();'),
    's': dict(K='const char *', V='FIX8::BaseMsgEntry', M='IPKcNS_12BaseMsgEntryEE', KP='RKS2_', LESS='_ZN4FIX85_pairIPKcNS_12BaseMsgEntryEE4LessERKS4_S6_',
              CK='const char *', KEYSIG='const char *const &', eq='strcmp_model((%s)->_key, %s) == 0',
              mk='unsigned long ko = nondet_ulong(); __CPROVER_assume(ko < sizeof g_pool); const char *key = g_pool + ko;'),
}


def _names(tag):
    t = TABLES[tag]
    from vlib.cxx2c import ident
    pair = 'FIX8::_pair<%s, %s>' % (t['K'], t['V'])
    gt = 'FIX8::GeneratedTable<%s, %s>' % (t['K'], t['V'])
    return dict(t, T=tag, PAIR=pair, GT=gt, SP='struct ' + ident(pair), SG='struct ' + ident(gt), SV='struct ' + ident(t['V']))


PRELUDE = r'''
#include <stdlib.h>
#define VACUITY_PROBE() __CPROVER_assert(0, "vacuity-probe")
#define NMAX (1L << 20)
long nondet_long(void); unsigned long nondet_ulong(void); _Bool nondet_bool(void); unsigned nondet_uint(void); unsigned short nondet_ushort(void);

/* ---- ASSUMED: strcmp is a total order on C strings and returns 0 exactly for equal content.  Every key string lives in one pool
   object and its rank in that order is its offset in the pool (an order-embedding of the strings that occur; the verified code only
   hands key pointers to strcmp and never compares them itself) ---- */
char g_pool[1L << 24];
int strcmp_model(const char *a, const char *b)
{
  __CPROVER_assume(__CPROVER_same_object(a, g_pool) && __CPROVER_same_object(b, g_pool));   /* table invariant: keys are valid C strings */
  long ra = (long)__CPROVER_POINTER_OFFSET(a), rb = (long)__CPROVER_POINTER_OFFSET(b);
  return ra < rb ? -1 : ra > rb ? 1 : 0;
}
'''

LB_MODEL = r'''
/* ---- ASSUMED: std::lower_bound(first,last,val,comp) on a range strictly sorted by comp ([lower.bound]) ---- */
long g_w_%(T)s;       /* ghost: harness's membership witness index (-1 = none) */
long g_k_%(T)s;       /* ghost: partition index of the last lower_bound call */
const %(SP)s *lower_bound_pair_%(T)s(const %(SP)s *first, const %(SP)s *last, const %(SP)s *val,
                                   _Bool (*comp)(const %(SP)s *, const %(SP)s *))
{
  long n = last - first;
  __CPROVER_assert(n >= 0, "lower_bound.pre: valid range");
  long k = nondet_long();
  __CPROVER_assume(0 <= k && k <= n);
  if (k > 0) { _Bool b = comp(&first[k - 1], val); __CPROVER_assume(b); }       /* everything before the partition point is < val */
  if (k < n) { _Bool b = comp(&first[k], val); __CPROVER_assume(!b); }          /* the partition point itself is not */
  long w = g_w_%(T)s;
  /* class precondition "strictly sorted", instantiated at the witness */
  if (0 <= w && w < k) { _Bool b = comp(&first[k - 1], &first[w]); __CPROVER_assume(!b); }
  if (k < w && w < n)  { _Bool b = comp(&first[k], &first[w]); __CPROVER_assume(b); }
  g_k_%(T)s = k;
  return first + k;
}
'''

GT_HARNESS = r'''
/* a hit is exact, a member is always found, the result points into the table */
void h_gt_%(T)s_find(void)
{
  long n = nondet_long(); __CPROVER_assume(1 <= n && n <= NMAX);
  %(SP)s *tab = malloc((unsigned long)n * sizeof(%(SP)s)); __CPROVER_assume(tab != 0);
  %(SG)s gt; gt._pairs = tab; gt._pairsz = (unsigned long)n;
  %(mk)s long w = nondet_long(); __CPROVER_assume(0 <= w && w < n); g_w_%(T)s = w;
  const %(SP)s *r = gt_%(T)s_find(&gt, &key);
  __CPROVER_assert(r == 0 || (__CPROVER_same_object(r, tab) && r == tab + g_k_%(T)s && 0 <= g_k_%(T)s && g_k_%(T)s < n), "C12.gt_%(T)s.find.in_table");
  __CPROVER_assert(r == 0 || %(EQ_R)s, "C12.gt_%(T)s.find.hit_exact");
  __CPROVER_assert(!(%(EQ_W)s) || r == &tab[w], "C12.gt_%(T)s.find.member_found");
  VACUITY_PROBE();
}
/* the public wrappers: value pointer / pair pointer / reference-or-throw agree with _find; at() is bounds-checked */
void h_gt_%(T)s_wrappers(void)
{
  long n = nondet_long(); __CPROVER_assume(1 <= n && n <= NMAX);
  %(SP)s *tab = malloc((unsigned long)n * sizeof(%(SP)s)); __CPROVER_assume(tab != 0);
  %(SG)s gt; gt._pairs = tab; gt._pairsz = (unsigned long)n;
  %(mk)s long w = nondet_long(); __CPROVER_assume(0 <= w && w < n); g_w_%(T)s = w;
  _Bool member = %(EQ_W)s;
  const %(SV)s *v = gt_%(T)s_find_ptr(&gt, &key);
  __CPROVER_assert(v == 0 || (v == &tab[g_k_%(T)s]._value && %(EQ_K)s), "C12.gt_%(T)s.find_ptr.hit_exact");
  __CPROVER_assert(!member || v == &tab[w]._value, "C12.gt_%(T)s.find_ptr.member_found");
  const %(SP)s *pp = gt_%(T)s_find_pair_ptr(&gt, &key);
  __CPROVER_assert(pp == 0 || (pp == &tab[g_k_%(T)s] && %(EQ_K)s), "C12.gt_%(T)s.find_pair_ptr.hit_exact");
  __CPROVER_assert(!member || pp == &tab[w], "C12.gt_%(T)s.find_pair_ptr.member_found");
  __exc = 0;
  const %(SV)s *rv = gt_%(T)s_find_ref(&gt, &key);
  __CPROVER_assert(__exc == 0 || __exc == EXC_FIX8_InvalidMetadata, "C12.gt_%(T)s.find_ref.only_invalid_metadata");
  __CPROVER_assert(__exc != 0 || (rv == &tab[g_k_%(T)s]._value && %(EQ_K)s), "C12.gt_%(T)s.find_ref.hit_exact");
  __CPROVER_assert(!member || (__exc == 0 && rv == &tab[w]._value), "C12.gt_%(T)s.find_ref.member_found");
  unsigned long idx = nondet_ulong();
  const %(SP)s *a = gt_%(T)s_at(&gt, idx);
  __CPROVER_assert(idx < (unsigned long)n ? a == &tab[idx] : a == 0, "C12.gt_%(T)s.at.bounds_checked");
  VACUITY_PROBE();
}
void h_gt_%(T)s_find_empty(void)
{
  %(SP)s tab[1];
  %(SG)s gt; gt._pairs = tab; gt._pairsz = 0;
  %(mk)s g_w_%(T)s = -1;
  const %(SP)s *r = gt_%(T)s_find(&gt, &key);
  __CPROVER_assert(r == 0, "C12.gt_%(T)s.find.empty_table_misses");
  VACUITY_PROBE();
}
'''

calls = {'strcmp': 'strcmp_model'}
type_alias = []
functions = []
proofs = []
prelude = PRELUDE
post = ''
for tag in ('u', 's'):
    N = _names(tag)
    N['EQ_R'] = N['eq'] % ('r', 'key')
    N['EQ_W'] = N['eq'] % ('&tab[w]', 'key')
    N['EQ_K'] = N['eq'] % ('&tab[g_k_%s]' % tag, 'key')
    prelude += LB_MODEL % N
    post += GT_HARNESS % N
    calls['lower_bound|const %(PAIR)s *(const %(PAIR)s *, const %(PAIR)s *, const %(PAIR)s &, bool (*)(const %(PAIR)s &, const %(PAIR)s &))' % N] = 'lower_bound_pair_' + tag
    calls['Less|bool (const %(PAIR)s &, const %(PAIR)s &)' % N] = 'Less_' + tag
    calls[N['GT'] + '::begin'] = 'gt_%s_begin' % tag
    calls[N['GT'] + '::end'] = 'gt_%s_end' % tag
    calls[N['GT'] + '::_find'] = dict(c='gt_%s_find' % tag, sig='const %s *(%s) const' % (N['PAIR'], N['KEYSIG']))
    type_alias += [(re_ + '::const_iterator', 'const %s *' % N['PAIR']) for re_ in [__import__('re').escape(N['GT'])]]
    type_alias += [(__import__('re').escape(N['GT']) + '::Pair', N['PAIR'])]
    functions.append(dict(q='FIX8::_pair::Less', filter='FIX8::_pair', mangled=N['LESS'], cname='Less_' + tag))
    for name, tail in (('begin', '5beginEv'), ('end', '3endEv'), ('_find', '5_find' + 'E' + N['KP']), ('find_ptr', '8find_ptrE' + N['KP']),
                       ('find_pair_ptr', '13find_pair_ptrE' + N['KP']), ('find_ref', '8find_refE' + N['KP']), ('at', '2atEm')):
        functions.append(dict(q='FIX8::GeneratedTable::' + name, filter='FIX8::GeneratedTable',
                              mangled='_ZNK4FIX814GeneratedTable' + N['M'] + tail, cname='gt_%s_%s' % (tag, name.lstrip('_'))))
    proofs += [
        dict(name='gt_%s_find' % tag, harness='h_gt_%s_find' % tag, properties=['C12'], solvers=['cadical', 'z3'], timeout=dict(quick=300, thorough=900), floor=3),
        dict(name='gt_%s_wrappers' % tag, harness='h_gt_%s_wrappers' % tag, properties=['C12'], solvers=['cadical', 'z3'], timeout=dict(quick=300, thorough=900), floor=8),
        dict(name='gt_%s_find_empty' % tag, harness='h_gt_%s_find_empty' % tag, properties=['C12'], solvers=['cadical', 'z3'], timeout=dict(quick=300, thorough=900), floor=1),
    ]

UNIT = dict(
    name='k_tab', tu='tu/tab.cpp', no_follow=True,
    emit=dict(exceptions=True, calls=calls, type_alias=type_alias,
              lazy_structs=[r'FIX8::GeneratedTable<.*>', r'FIX8::_pair<.*>', r'FIX8::BaseEntry', r'FIX8::BaseMsgEntry']),
    prelude=prelude,
    functions=functions,
    postlude=post,
    proofs=proofs,
    trusted_base=['ASSUMED: std::lower_bound satisfies its ISO C++ contract on a range sorted by the comparator (model body with a ghost partition index in specs/k_tab.py)',
                  'ASSUMED: strcmp is a total order on C strings, 0 exactly for equal content (model: rank = offset in a string pool)',
                  'generated tables are strictly sorted by key (fact about f8c output, not proved here)'],
    assumptions=['GeneratedTable verified for the two instantiations the library uses: <unsigned, BaseEntry> (FieldTable) and <const char *, BaseMsgEntry> (MsgTable)',
                 'table length 1..2^20 (and the empty table separately)'],
)

# ---------------------------------------------------------------------------------------------------------------
# F8MetaCntx: the fast field index _flu built by the constructor, read by find_be
MC = 'FIX8::F8MetaCntx'
UNIT['emit']['lazy_structs'] += [r'FIX8::F8MetaCntx']
UNIT['emit']['type_alias'] += [(r'\bFIX8::MsgTable\b', 'FIX8::GeneratedTable<const char *, FIX8::BaseMsgEntry>'),
                               (r'\bFIX8::FieldTable\b', 'FIX8::GeneratedTable<unsigned int, FIX8::BaseEntry>')]
UNIT['emit']['type_map'] = [(r'FIX8::f8String|std::basic_string<char>|std::string', 'struct opaque_string')]
UNIT['emit']['calls'].update({
    TABLES['u'] and 'FIX8::GeneratedTable<unsigned int, FIX8::BaseEntry>::at': dict(c='gt_u_at', sig='const FIX8::_pair<unsigned int, FIX8::BaseEntry> *(const size_t) const'),
    'FIX8::GeneratedTable<unsigned int, FIX8::BaseEntry>::size': 'gt_u_size',
})
UNIT['emit']['calls']['fill|void (const FIX8::BaseEntry **, const FIX8::BaseEntry **, const std::nullptr_t &)'] = 'fill_null_be'
UNIT['prelude'] += r'''
/* operator new[] for scalar/pointer/POD elements: fresh storage of exactly n elements (allocation failure = bad_alloc is not modelled) */
void *__verif_new_array(unsigned long n, unsigned long esz)
{
  __CPROVER_assert(n <= (1UL << 40) / esz, "new[]: element count within the address space");
  void *p = malloc(n * esz); __CPROVER_assume(p != 0); return p;
}
void __verif_delete(void *p) { free(p); }
/* ---- ASSUMED: std::fill(first,last,nullptr) stores null in every slot of [first,last) ([alg.fill]).  Model: the range is havocked
   and the one slot the harness watches (ghost index g_slot, arbitrary) is null afterwards -- all slots by generalisation ---- */
unsigned long g_slot;      /* ghost: an arbitrary slot / key value watched by the harness */
_Bool g_miss;              /* ghost: harness hypothesis "g_slot is not a key of the table" */
long g_w_m;                /* ghost: witness table index */
#define MTAB (self->_be._pairs)
#define MN (self->_be._pairsz)
void fill_null_be(const struct FIX8_BaseEntry **first, const struct FIX8_BaseEntry **last, void **val)
{
  long n = last - first;
  __CPROVER_assert(n >= 0, "fill.pre: valid range");
  if (n > 0) {
    __CPROVER_havoc_slice(first, (unsigned long)n * sizeof(*first));
    if (g_slot < (unsigned long)n) first[g_slot] = 0;
  }
}
'''
UNIT['functions'] += [
    dict(q='FIX8::GeneratedTable::size', filter='FIX8::GeneratedTable', mangled='_ZNK4FIX814GeneratedTableIjNS_9BaseEntryEE4sizeEv', cname='gt_u_size'),
    dict(q='FIX8::F8MetaCntx::F8MetaCntx', sig=None, cname='metacntx_ctor_index', select_inits=['_flu_sz', '_flu'], select_stmts=[0, 1, 2],
         ghost={'loop0.begin': '''    /* ghost: the class precondition "field table strictly sorted by key" instantiated at this iteration */
    __CPROVER_assume(MTAB[offset]._key <= MTAB[MN - 1]._key);                       /* sorted: (offset, last) */
    __CPROVER_assume(offset == g_w_m || MTAB[offset]._key != MTAB[g_w_m]._key);     /* keys unique: (offset, witness) */
    __CPROVER_assume(!g_miss || MTAB[offset]._key != g_slot);                       /* harness hypothesis "g_slot is not a key": instance offset */'''},
         loops={0: dict(assigns='offset, __CPROVER_object_whole(self->_flu)',
                        invariants=[('inv.bound', '(unsigned long)offset <= MN'),
                                    ('inv.hit', 'g_w_m >= (long)offset || self->_flu[MTAB[g_w_m]._key] == &MTAB[g_w_m]._value'),
                                    ('inv.miss', '!g_miss || g_slot >= self->_flu_sz || self->_flu[g_slot] == 0')],
                        decreases='MN - (unsigned long)offset')}),
    dict(q='FIX8::F8MetaCntx::find_be', sig=None, cname='metacntx_find_be'),
]

UNIT['postlude'] += r"""
/* F8MetaCntx: after the constructor's index loop, find_be(tag) is the entry with that key, or null when no entry has it */
void h_find_be(void)
{
  long n = nondet_long(); __CPROVER_assume(1 <= n && n <= NMAX);
  struct FIX8_pair_uint_FIX8_BaseEntry *tab = malloc((unsigned long)n * sizeof(struct FIX8_pair_uint_FIX8_BaseEntry)); __CPROVER_assume(tab != 0);
  struct FIX8_F8MetaCntx mc; mc._be._pairs = tab; mc._be._pairsz = (unsigned long)n;
  long w = nondet_long(); __CPROVER_assume(0 <= w && w < n); g_w_m = w; g_slot = nondet_ulong(); g_miss = nondet_bool();
  __CPROVER_assume(tab[n - 1]._key <= 65535u);            /* tags are 16-bit (FieldTrait::_fnum, find_be's parameter) */
  __CPROVER_assume(tab[w]._key <= tab[n - 1]._key);        /* sorted: (witness, last) */
  __exc = 0;
  metacntx_ctor_index(&mc, 0, 0, 0, 0, 0);
  if (__exc) {
    __CPROVER_assert(__exc == EXC_FIX8_f8Exception && tab[n - 1]._key == 0, "C12.find_be.ctor_throws_only_for_degenerate_table");
  } else {
    __CPROVER_assert(mc._flu_sz == tab[n - 1]._key + 1, "C12.find_be.index_size");
    unsigned short f = nondet_ushort();
    const struct FIX8_BaseEntry *r = metacntx_find_be(&mc, f);
    __CPROVER_assert(tab[w]._key != f || r == &tab[w]._value, "C12.find_be.member_found");
    __CPROVER_assert(!(g_miss && g_slot == f) || r == 0, "C12.find_be.miss_is_null");
  }
  VACUITY_PROBE();
}
"""
UNIT['proofs'] += [
    dict(name='find_be', harness='h_find_be', loop_contracts=True, properties=['C12'], solvers=['cadical', 'z3'], timeout=dict(quick=600, thorough=1200), floor=8),
]

# ---------------------------------------------------------------------------------------------------------------
# F8MetaCntx::_comp: the comparator of the reverse (name -> entry) tables must be the strcmp order, or two different names can be treated as one key
UNIT['prelude'] += r'''
/* ---- ASSUMED: strncmp(a, b, n) is the strcmp order when n reaches past both strings; with a smaller n two different strings that share their first n bytes compare equal ---- */
int strncmp_model(const char *a, const char *b, unsigned long n) { int r = strcmp_model(a, b); return (r != 0 && n < (1ul << 20) && nondet_bool()) ? 0 : r; }
'''
UNIT['emit']['calls'].update({'strncmp': 'strncmp_model'})
UNIT['emit'].setdefault('constants', {}).update({'MAX_MSGTYPE_FIELD_LEN': '32ul'})
UNIT['functions'] += [dict(q='FIX8::F8MetaCntx::_comp', sig=None, cname='metacntx_comp', static=True)]
UNIT['postlude'] += r"""
/* the comparator of the reverse (name -> entry) tables */
void h_reverse_comp(void)
{
  unsigned long a = nondet_ulong(), b = nondet_ulong(); __CPROVER_assume(a < (1UL << 24) && b < (1UL << 24));
  _Bool r = metacntx_comp(&g_pool[a], &g_pool[b]);
  __CPROVER_assert(r == (a < b), "C12.reverse.comparator_orders_names_exactly_as_strcmp_does");
  __CPROVER_assert(a == b || r || metacntx_comp(&g_pool[b], &g_pool[a]), "C12.reverse.different_names_are_never_equivalent_keys");
  VACUITY_PROBE();
}
"""
UNIT['proofs'] += [dict(name='reverse_comp', harness='h_reverse_comp', properties=['C12'], solvers=['cadical', 'z3'], timeout=dict(quick=120, thorough=300), floor=2)]
