"""K-chk bounded companion: the same contract of calc_chksum stated with a spec *function* (naive byte loop)
instead of lock-step ghost code, so it does not depend on the loop structure of the implementation.
Checked by unwinding (no loop contracts) for buffers up to NB bytes: level bounded(NB), never counted as proof.
It gives entry-state counterexamples with concrete inputs, and still applies after a refactor that
invalidates the loop annotations of the unbounded proof."""

NB = 40
N_OF = '(len != -1 ? (unsigned long)len : sz - (unsigned long)offset)'

PRELUDE = r'''
#define VACUITY_PROBE() __CPROVER_assert(0, "vacuity-probe")
/* spec: naive byte sum mod 256 of from[offset .. offset+n) */
unsigned spec_sum(const char *from, unsigned long offset, unsigned long n)
{
  unsigned s = 0;
  for (unsigned long i = 0; i < n; ++i) s = (s + (((unsigned)from[offset + i]) & 0xffu)) & 0xffu;
  return s;
}
'''

UNIT = dict(
    name='k_chk_b',
    tu='tu/core.cpp',
    emit=dict(calls={'fix8pro_collapse_int32': 'fix8pro_collapse_int32'}),
    prelude=PRELUDE,
    functions=[
        dict(q='FIX8::fix8pro_collapse_int32', sig=None, cname='fix8pro_collapse_int32'),
        dict(q='FIX8::Message::calc_chksum',
             sig='unsigned int (const char *, const size_t, const unsigned int, const int)',
             cname='calc_chksum',
             contract=[
                 ('requires', 'C07.b.pre', 'len >= -1 && sz <= %dul && offset <= sz && (len == -1 || (unsigned long)offset + (unsigned long)len <= sz)' % NB),
                 ('requires', 'C07.b.buf', '__CPROVER_is_fresh(from, (unsigned long)offset + %s)' % N_OF),
                 ('assigns', None, ''),
                 ('ensures', 'C07.bounded.sum_mod_256', '__CPROVER_return_value == spec_sum(from, offset, %s)' % N_OF),
             ]),
    ],
    postlude=r'''
void h_chk_b(void)
{
  const char *from; unsigned long sz; unsigned offset; int len;
  calc_chksum((char*)from, sz, offset, len);
  VACUITY_PROBE();
}
''',
    proofs=[
        dict(name='chk_bounded', harness='h_chk_b', enforce=['calc_chksum'], level='bounded(%d bytes)' % NB,
             unwindset=['calc_chksum.0:%d' % (NB // 4 + 2), 'calc_chksum.1:%d' % (NB + 2), 'spec_sum.0:%d' % (NB + 2)],
             cbmc_flags=['--unwind', str(NB + 2)],
             solvers=['cadical', 'z3'], timeout=dict(quick=200, thorough=600), properties=['C07'], floor=1, auto_chunks=1),
    ],
)
