"""K-copy (C11): MessageBase::copy_legal, move_legal (runtime/message.cpp) and the inline helpers they run through -- MessageBase::add_field(BaseField*),
add_field(fnum, itr, pos, what, check), get_field, FieldTraits::has x2 / get x2 / getPos / set (include/fix8) -- bodies from the clang AST.

A message part is a presence set of at most 3 field traits (number, schema position, trait bits) plus its field map and its position map (both small
ghost tables that log insertions).  BOUNDED by that size (loops unwound); no repeating groups in the parts (find_group finds none).
  copy:  every field of the source that is present, legal for the target and not yet present there arrives exactly once, as a copy (same tag, same value,
         a different object), and the count returned is the number of fields copied; fields the target may not carry are not copied.
  order: the copy keeps the relative order the fields have in the source (what "a clone encodes to the same bytes" needs) -- REFUTED: add_field places
         every field at its SCHEMA position, so a decoded message whose fields arrived in another order is re-ordered by clone() (known finding, replayed).
  move:  the same for move_legal, the very same field objects arrive, and the source forgets them.
"""
PRE_STRUCTS = r'''
struct ft_m { unsigned short _fnum; int _ftype; unsigned short _pos; unsigned short _field_traits; };
struct pres_m { struct ft_m arr[3]; unsigned n; };
struct bf_m { unsigned short _fnum; long value; };                       /* BaseField: tag and value (as an id) */
struct fent_m { unsigned short first; struct bf_m *second; };            /* std::pair<const unsigned short, BaseField *> */
struct fmap_m { struct fent_m ents[4]; unsigned n; };                    /* Fields / Positions: a small table that logs insertions */
struct fiter_m { struct fent_m *p; };
struct gmap_m { int dummy; };
struct FIX8_MessageBase;
struct vec_m { struct FIX8_MessageBase **items; unsigned long n; };      /* GroupElement: std::vector<MessageBase *> */
struct gb_m { struct vec_m _msgs; };
struct gent_m { unsigned short first; struct gb_m *second; };
struct minst_m { int _do; };
struct bme_m { struct minst_m _create; };
struct ctx_m { int _bme; };
struct giter_m { struct gent_m *p; };
'''
PRELUDE = r'''
#include <stdlib.h>
#define VACUITY_PROBE() __CPROVER_assert(0, "vacuity-probe")
unsigned nondet_uint(void); unsigned short nondet_ushort(void); _Bool nondet_bool(void); long nondet_long(void);
struct bf_m g_copies[4]; int g_ncopies; int g_replaced;
/* ---- ASSUMED models ---- */
const struct ft_m *pres_begin(const struct pres_m *p) { return p->arr; }
const struct ft_m *pres_end(const struct pres_m *p) { return p->arr + p->n; }
const struct ft_m *pres_find(const struct pres_m *p, unsigned short key)
{ for (unsigned i = 0; i < 3; ++i) if (i < p->n && p->arr[i]._fnum == key) return &p->arr[i]; return p->arr + p->n; }   /* K-pset proves the real find against this contract */
unsigned short ebit_and(const unsigned short *bits, unsigned bit) { return *bits & (unsigned short)(1u << bit); }
unsigned short ebit_has(const unsigned short *bits, unsigned bit) { return *bits & (unsigned short)(1u << bit); }
void ebit_set(unsigned short *bits, unsigned bit, _Bool on) { if (on) *bits |= (unsigned short)(1u << bit); else *bits &= (unsigned short)~(1u << bit); }
struct fiter_m fmap_find(struct fmap_m *m, const unsigned short *k)
{ struct fiter_m it; it.p = m->ents + m->n; for (unsigned i = 0; i < 4; ++i) if (i < m->n && m->ents[i].first == *k && it.p == m->ents + m->n) it.p = &m->ents[i]; return it; }
struct fiter_m fmap_cend(struct fmap_m *m) { struct fiter_m it; it.p = m->ents + m->n; return it; }
_Bool fiter_ne(const struct fiter_m *a, const struct fiter_m *b) { return a->p != b->p; }
struct fent_m *fiter_arrow(const struct fiter_m *it) { return it->p; }
void fent_ctor(struct fent_m *e, const unsigned short *k, struct bf_m **v) { e->first = *k; e->second = *v; }
void fent_ctor_u(struct fent_m *e, const unsigned *k, struct bf_m **v) { e->first = (unsigned short)*k; e->second = *v; }
void fmap_insert(struct fmap_m *m, struct fent_m *e) { __CPROVER_assume(m->n < 4); m->ents[m->n++] = *e; }
void fmap_clear(struct fmap_m *m) { m->n = 0; }
struct bf_m *bf_copy(const struct bf_m *f) { __CPROVER_assume(g_ncopies < 4); g_copies[g_ncopies] = *f; return &g_copies[g_ncopies++]; }     /* virtual BaseField::copy(): an equal field, a new object */
/* ---- repeating groups: at most one group per part, with at most one element, in these harnesses ---- */
const void *g_srcp, *g_dstp; struct gb_m *g_src_group, *g_dst_group; unsigned short g_group_fnum;
int g_created, g_added_elems, g_elem_copies; const void *g_elem_copy_from, *g_elem_copy_to, *g_added_to; struct FIX8_MessageBase *g_new_elem;
int g_group_adds, g_group_replaces; const struct gb_m *g_group_given; struct gent_m g_gent;
struct gb_m *mb_find_group(const void *self, unsigned short fnum) { if (fnum != g_group_fnum) return 0; return self == g_srcp ? g_src_group : self == g_dstp ? g_dst_group : 0; }
struct FIX8_MessageBase **vec_begin(const struct vec_m *v) { return v->items; }
struct FIX8_MessageBase **vec_end(const struct vec_m *v) { return v->items + v->n; }
struct FIX8_MessageBase *gb_create_group(const struct gb_m *g, _Bool deep) { g_created++; return g_new_elem; }
struct gb_m *gb_add(struct gb_m *g, struct FIX8_MessageBase *m) { g_added_elems++; g_added_to = g; return g; }
void mb_add_group(struct FIX8_MessageBase *self, struct gb_m *g) { g_group_adds++; g_group_given = g; }
struct gb_m *mb_replace_group(struct FIX8_MessageBase *self, unsigned short fnum, struct gb_m *with) { g_group_replaces++; g_group_given = with; return 0; }
struct FIX8_MessageBase;
struct bf_m *mb_replace(struct FIX8_MessageBase *self, unsigned short fnum, const struct ft_m *itr, struct bf_m *with) { g_replaced++; return 0; }
void __verif_delete(void *p) { }
/* ---- Message::clone: the message table and the instantiator ---- */
struct FIX8_Message; struct bme_m g_bme; struct FIX8_Message *g_new_msg;
const struct bme_m *bme_find_ref(const void *tab, const char *msgtype) { return &g_bme; }
const char *msgtype_c_str(const long *s) { return "D"; }
struct FIX8_Message *bme_create(const int *inst, _Bool deep) { return g_new_msg; }
int g_clone_copies; const void *g_clone_from[3], *g_clone_to[3]; _Bool g_clone_force[3];
unsigned clone_copy_legal(const struct FIX8_MessageBase *from, struct FIX8_MessageBase *to, _Bool force)
{ __CPROVER_assume(g_clone_copies < 3); g_clone_from[g_clone_copies] = from; g_clone_to[g_clone_copies] = to; g_clone_force[g_clone_copies] = force; g_clone_copies++; return nondet_uint(); }
struct giter_m gmap_find(struct gmap_m *g, const unsigned short *k) { struct giter_m it; g_gent.first = *k; it.p = &g_gent; return it; }
struct gent_m *giter_arrow(const struct giter_m *it) { return it->p; }
'''
POST = r'''
static void mk_part(struct FIX8_MessageBase *m, _Bool with_fields, struct bf_m *store)
{
  m->_fp._presence.n = nondet_uint(); __CPROVER_assume(m->_fp._presence.n <= 3);
  m->_fields.n = 0; m->_pos.n = 0;
  for (unsigned i = 0; i < 3; ++i) {
    struct ft_m *t = &m->_fp._presence.arr[i];
    t->_fnum = nondet_ushort(); t->_ftype = 0; t->_pos = nondet_ushort(); t->_field_traits = nondet_ushort();
    __CPROVER_assume(t->_fnum >= 1 && t->_pos >= 1 && t->_pos <= 1000 && (t->_field_traits & (1u << K_position)) && !(t->_field_traits & (1u << K_group)));
    if (!with_fields) __CPROVER_assume(!(t->_field_traits & (1u << K_present)));
  }
  __CPROVER_assume(m->_fp._presence.n < 2 || m->_fp._presence.arr[0]._fnum < m->_fp._presence.arr[1]._fnum);
  __CPROVER_assume(m->_fp._presence.n < 3 || m->_fp._presence.arr[1]._fnum < m->_fp._presence.arr[2]._fnum);
  __CPROVER_assume(m->_fp._presence.n < 2 || m->_fp._presence.arr[0]._pos != m->_fp._presence.arr[1]._pos);
  __CPROVER_assume(m->_fp._presence.n < 3 || (m->_fp._presence.arr[0]._pos != m->_fp._presence.arr[2]._pos && m->_fp._presence.arr[1]._pos != m->_fp._presence.arr[2]._pos));
  if (with_fields)
    for (unsigned i = 0; i < 3; ++i) if (i < m->_fp._presence.n && (m->_fp._presence.arr[i]._field_traits & (1u << K_present))) {
      /* a present field has its object in the field map and a position of its own in the position map (any order: a decoded message keeps arrival order) */
      store[i]._fnum = m->_fp._presence.arr[i]._fnum; store[i].value = nondet_long();
      m->_fields.ents[m->_fields.n].first = store[i]._fnum; m->_fields.ents[m->_fields.n].second = &store[i]; m->_fields.n++;
      m->_pos.ents[m->_pos.n].first = nondet_ushort(); m->_pos.ents[m->_pos.n].second = &store[i]; m->_pos.n++;
    }
  __CPROVER_assume(m->_pos.n < 2 || m->_pos.ents[0].first != m->_pos.ents[1].first);
  __CPROVER_assume(m->_pos.n < 3 || (m->_pos.ents[0].first != m->_pos.ents[2].first && m->_pos.ents[1].first != m->_pos.ents[2].first));
}
static const struct ft_m *trait(const struct FIX8_MessageBase *m, unsigned short fnum) { for (unsigned i = 0; i < 3; ++i) if (i < m->_fp._presence.n && m->_fp._presence.arr[i]._fnum == fnum) return &m->_fp._presence.arr[i]; return 0; }
static int pos_of(const struct FIX8_MessageBase *m, const struct bf_m *f) { for (unsigned i = 0; i < 4; ++i) if (i < m->_pos.n && m->_pos.ents[i].second == f) return (int)m->_pos.ents[i].first; return -1; }
static const struct bf_m *field_of(const struct FIX8_MessageBase *m, unsigned short fnum) { for (unsigned i = 0; i < 4; ++i) if (i < m->_fields.n && m->_fields.ents[i].first == fnum) return m->_fields.ents[i].second; return 0; }
static int count_of(const struct FIX8_MessageBase *m, unsigned short fnum) { int c = 0; for (unsigned i = 0; i < 4; ++i) if (i < m->_fields.n && m->_fields.ents[i].first == fnum) c++; return c; }
/* copy_legal into an empty target (force = false: what clone() does) */
void h_copy(void)
{
  struct FIX8_MessageBase src, dst, src0; struct bf_m sf[3], df[3];
  mk_part(&src, 1, sf); mk_part(&dst, 0, df); src0 = src; g_ncopies = 0; g_replaced = 0; __exc = 0;
  unsigned r = mb_copy_legal(&src, &dst, 0);
  if (!__exc) {
    unsigned want = 0;
    for (unsigned i = 0; i < 3; ++i) if (i < src0._fp._presence.n) {
      const struct ft_m *t = &src0._fp._presence.arr[i]; _Bool present = (t->_field_traits & (1u << K_present)) != 0; _Bool legal = trait(&dst, t->_fnum) != 0;
      const struct bf_m *o = field_of(&src0, t->_fnum), *c = field_of(&dst, t->_fnum);
      if (present && legal) {
        want++;
        __CPROVER_assert(count_of(&dst, t->_fnum) == 1 && c != 0 && c != o && c->_fnum == t->_fnum && c->value == o->value, "C11.copy.every_present_legal_field_arrives_once_as_an_equal_copy");
        __CPROVER_assert(pos_of(&dst, c) > 0 && (trait(&dst, t->_fnum)->_field_traits & (1u << K_present)), "C11.copy.copied_field_is_positioned_and_marked_present_in_the_target");
      } else
        __CPROVER_assert(count_of(&dst, t->_fnum) == 0, "C11.copy.absent_or_illegal_fields_are_not_copied");
    }
    __CPROVER_assert(r == want && dst._fields.n == want && g_replaced == 0, "C11.copy.count_returned_is_the_number_of_fields_copied_and_nothing_else_is_added");
    __CPROVER_assert(src._fields.n == src0._fields.n && src._pos.n == src0._pos.n, "C11.copy.source_is_left_unchanged");
    /* relative order of two copied fields */
    if (src0._fp._presence.n >= 2) {
      const struct ft_m *a = &src0._fp._presence.arr[0], *b = &src0._fp._presence.arr[1];
      if ((a->_field_traits & (1u << K_present)) && (b->_field_traits & (1u << K_present)) && trait(&dst, a->_fnum) && trait(&dst, b->_fnum)) {
        int sa = pos_of(&src0, field_of(&src0, a->_fnum)), sb = pos_of(&src0, field_of(&src0, b->_fnum)), da = pos_of(&dst, field_of(&dst, a->_fnum)), db = pos_of(&dst, field_of(&dst, b->_fnum));
        __CPROVER_assert((sa < sb) == (da < db), "C11.copy.relative_order_of_the_fields_is_the_source_s");
      }
    }
  }
  VACUITY_PROBE();
}
/* one repeating group with one element: copy creates an element in the target's group and copies the source element into it; move hands over the group object */
static void mk_group_case(struct FIX8_MessageBase *src, struct FIX8_MessageBase *dst, struct bf_m *sf, struct bf_m *df, struct gb_m *sg, struct gb_m *dg, struct FIX8_MessageBase **items, struct FIX8_MessageBase *elem, struct FIX8_MessageBase *newelem)
{
  mk_part(src, 1, sf); mk_part(dst, 0, df);
  __CPROVER_assume(src->_fp._presence.n >= 1 && dst->_fp._presence.n >= 1 && src->_fp._presence.arr[0]._fnum == dst->_fp._presence.arr[0]._fnum && (src->_fp._presence.arr[0]._field_traits & (1u << K_present)));
  src->_fp._presence.arr[0]._field_traits |= (unsigned short)(1u << K_group); g_group_fnum = src->_fp._presence.arr[0]._fnum;
  elem->_fp._presence.n = 0; elem->_fields.n = 0; elem->_pos.n = 0; newelem->_fp._presence.n = 0; newelem->_fields.n = 0; newelem->_pos.n = 0;
  items[0] = elem; sg->_msgs.items = items; sg->_msgs.n = 1; dg->_msgs.items = items + 1; dg->_msgs.n = 0;
  g_srcp = src; g_dstp = dst; g_src_group = sg; g_dst_group = dg; g_new_elem = newelem; g_gent.second = sg;
  g_created = 0; g_added_elems = 0; g_group_adds = 0; g_group_replaces = 0; g_group_given = 0; g_ncopies = 0; g_replaced = 0; __exc = 0;
}
void h_copy_group(void)
{
  struct FIX8_MessageBase src, dst, elem, newelem; struct bf_m sf[3], df[3]; struct gb_m sg, dg; struct FIX8_MessageBase *items[2];
  mk_group_case(&src, &dst, sf, df, &sg, &dg, items, &elem, &newelem);
  unsigned r = mb_copy_legal(&src, &dst, 0);
  __CPROVER_assert(__exc || (g_created == 1 && g_added_elems == 1 && g_added_to == (const void *)&dg), "C11.copy.every_element_of_a_source_group_gets_a_new_element_in_the_target_s_group");
  __CPROVER_assert(__exc || count_of(&dst, g_group_fnum) == 1, "C11.copy.the_group_count_field_is_copied_too");
  VACUITY_PROBE();
}
void h_move_group(void)
{
  struct FIX8_MessageBase src, dst, elem, newelem; struct bf_m sf[3], df[3]; struct gb_m sg, dg; struct FIX8_MessageBase *items[2];
  mk_group_case(&src, &dst, sf, df, &sg, &dg, items, &elem, &newelem);
  _Bool target_has_group = nondet_bool(); if (!target_has_group) g_dst_group = 0;
  unsigned r = mb_move_legal(&src, &dst, 0);
  __CPROVER_assert(__exc || (g_group_given == &sg && g_group_adds + g_group_replaces == 1 && (target_has_group ? g_group_replaces == 1 : g_group_adds == 1)), "C11.move.the_source_group_object_goes_to_the_target_replacing_its_empty_one_or_added");
  __CPROVER_assert(__exc || g_gent.second == 0, "C11.move.source_no_longer_refers_to_the_moved_group");
  VACUITY_PROBE();
}
/* Message::clone: a fresh message of the same type, then body, header and trailer copied part by part, never with force */
void h_clone(void)
{
  struct FIX8_Message src, dst; struct FIX8_MessageBase sh, st, dh, dt;
  src._header = &sh; src._trailer = &st; dst._header = &dh; dst._trailer = &dt; g_new_msg = &dst; g_clone_copies = 0; __exc = 0;
  struct FIX8_Message *r = msg_clone(&src);
  __CPROVER_assert(r == &dst, "C11.clone.returns_the_new_message");
  __CPROVER_assert(g_clone_copies == 3, "C11.clone.three_parts_are_copied");
  _Bool body = 0, header = 0, trailer = 0;
  for (int i = 0; i < 3; ++i) if (i < g_clone_copies) {
    if (g_clone_from[i] == (const void *)&src.__base && g_clone_to[i] == (const void *)&dst.__base) body = 1;
    if (g_clone_from[i] == (const void *)&sh && g_clone_to[i] == (const void *)&dh) header = 1;
    if (g_clone_from[i] == (const void *)&st && g_clone_to[i] == (const void *)&dt) trailer = 1;
    __CPROVER_assert(!g_clone_force[i], "C11.clone.parts_are_copied_without_force");
  }
  __CPROVER_assert(body && header && trailer, "C11.clone.body_header_and_trailer_each_go_to_the_matching_part_of_the_new_message");
  VACUITY_PROBE();
}
/* move_legal into an empty target */
void h_move(void)
{
  struct FIX8_MessageBase src, dst, src0; struct bf_m sf[3], df[3];
  mk_part(&src, 1, sf); mk_part(&dst, 0, df); src0 = src; g_ncopies = 0; g_replaced = 0; __exc = 0;
  unsigned r = mb_move_legal(&src, &dst, 0);
  if (!__exc) {
    unsigned want = 0;
    for (unsigned i = 0; i < 3; ++i) if (i < src0._fp._presence.n) {
      const struct ft_m *t = &src0._fp._presence.arr[i]; _Bool present = (t->_field_traits & (1u << K_present)) != 0; _Bool legal = trait(&dst, t->_fnum) != 0;
      const struct bf_m *o = field_of(&src0, t->_fnum);
      if (present && legal) {
        want++;
        __CPROVER_assert(count_of(&dst, t->_fnum) == 1 && field_of(&dst, t->_fnum) == o, "C11.move.every_present_legal_field_object_arrives_once");
        __CPROVER_assert(field_of(&src, t->_fnum) == 0, "C11.move.source_no_longer_refers_to_a_moved_field");
      } else
        __CPROVER_assert(count_of(&dst, t->_fnum) == 0, "C11.move.absent_or_illegal_fields_are_not_moved");
    }
    __CPROVER_assert(r == want && dst._fields.n == want && g_ncopies == 0, "C11.move.count_returned_is_the_number_of_fields_moved_and_nothing_is_copied");
    __CPROVER_assert(src._pos.n == 0, "C11.move.source_positions_cleared");
  }
  VACUITY_PROBE();
}
'''
MB = 'FIX8::MessageBase'
FT = 'FIX8::FieldTraits'
PS = r'FIX8::presorted_set<unsigned short, FIX8::FieldTrait, (FIX8::)?FieldTrait::Compare>'
FM = r'std::map<unsigned short, FIX8::BaseField \*>'
PM = r'std::multimap<unsigned short, FIX8::BaseField \*>'
UNIT = dict(
    name='k_copy', tu='tu/rt_message.cpp', no_follow=True,
    pre_structs=PRE_STRUCTS,
    probe={'K_present': 'FIX8::FieldTrait::present', 'K_position': 'FIX8::FieldTrait::position', 'K_group': 'FIX8::FieldTrait::group', 'K_mandatory': 'FIX8::FieldTrait::mandatory'},
    emit=dict(
        exceptions=True,
        may_throw={'mb_add_field': True},
        pod=[r'std::basic_string<char>', r'std::_Rb_tree_(const_)?iterator<.*>'],
        type_alias=[(r'(FIX8::)?Presence::const_iterator', 'const FIX8::FieldTrait *'), (r'(FIX8::)?Presence::iterator', 'FIX8::FieldTrait *')],
        default_args={'clone_copy_legal': {1: '0'}, 'ebit_set': {1: '1'}, 'ft_get1': {1: 'K_present'}, 'ft_set2': {1: 'K_present'}},
        type_map=[(PS, 'struct pres_m'), (r'FIX8::Presence', 'struct pres_m'), (r'FIX8::FieldTrait', 'struct ft_m'), (r'FIX8::FieldTrait::FieldType', 'int'),
                  (r'FIX8::FieldTrait::TraitTypes', 'unsigned int'), (r'FIX8::ebitset<FIX8::FieldTrait::TraitTypes, unsigned short>', 'unsigned short'),
                  (r'FIX8::Fields|' + FM, 'struct fmap_m'), (r'FIX8::Positions|' + PM, 'struct fmap_m'), (r'FIX8::Groups|std::map<unsigned short, FIX8::GroupBase \*>', 'struct gmap_m'),
                  (r'std::_Rb_tree_(const_)?iterator<std::pair<const unsigned short, FIX8::BaseField \*>>', 'struct fiter_m'),
                  (r'std::pair<const unsigned short, FIX8::BaseField \*>', 'struct fent_m'),
                  (r'std::_Rb_tree_(const_)?iterator<std::pair<const unsigned short, FIX8::GroupBase \*>>', 'struct giter_m'), (r'std::pair<const unsigned short, FIX8::GroupBase \*>', 'struct gent_m'),
                  (r'FIX8::BaseField', 'struct bf_m'), (r'FIX8::BaseMsgEntry', 'struct bme_m'), (r'FIX8::Minst', 'struct minst_m'), (r'std::function<FIX8::Message \*\(bool\)>', 'int'),
                  (r'FIX8::MsgTable|FIX8::GeneratedTable<const char \*, FIX8::BaseMsgEntry>', 'int'), (r'FIX8::F8MetaCntx', 'struct ctx_m'), (r'(std::basic_string<char>|std::string|FIX8::f8String)', 'long'), (r'FIX8::GroupBase', 'struct gb_m'), (r'FIX8::GroupElement|std::vector<FIX8::MessageBase \*.*>', 'struct vec_m'),
                  (r'__gnu_cxx::__normal_iterator<FIX8::MessageBase \*(const )?\*, std::vector<FIX8::MessageBase \*.*>>', 'struct FIX8_MessageBase **'), (r'FIX8::F8MetaCntx', 'void'), (r'FIX8::RealmBase', 'void')],
        lazy_structs=[r'FIX8::MessageBase', r'FIX8::FieldTraits', r'FIX8::Message'],
        bases={'FIX8::Message': 'FIX8::MessageBase'},
        calls_rx=[(r'std::function<FIX8::Message \*\(bool\)>::operator\(\)', 'bme_create'), (r'FIX8::GeneratedTable<const char \*, FIX8::BaseMsgEntry>::find_ref', dict(c='bme_find_ref', sig='const FIX8::BaseMsgEntry &(const char *const &) const')),
                  (r'std::vector<FIX8::MessageBase \*.*>::begin', 'vec_begin'), (r'std::vector<FIX8::MessageBase \*.*>::end', 'vec_end'),
                  (PS + r'::find', 'pres_find'), (PS + r'::end', 'pres_end'), (PS + r'::begin', 'pres_begin'),
                  (r'FIX8::ebitset<FIX8::FieldTrait::TraitTypes, unsigned short>::has', 'ebit_has'), (r'FIX8::ebitset<FIX8::FieldTrait::TraitTypes, unsigned short>::set', 'ebit_set'),
                  (r'FIX8::ebitset<FIX8::FieldTrait::TraitTypes, unsigned short>::operator&', 'ebit_and'),
                  (r'std::(multi)?map<unsigned short, FIX8::BaseField \*>::find', dict(c='fmap_find', sig='iterator (const unsigned short &)')),
                  (r'std::(multi)?map<unsigned short, FIX8::BaseField \*>::c?end', 'fmap_cend'),
                  (r'std::(multi)?map<unsigned short, FIX8::BaseField \*>::insert', dict(c='fmap_insert', sig='void (std::pair<const unsigned short, FIX8::BaseField *> &&)')),
                  (r'std::(multi)?map<unsigned short, FIX8::BaseField \*>::clear', 'fmap_clear'),
                  (r'std::_Rb_tree_(const_)?iterator<std::pair<const unsigned short, FIX8::BaseField \*>>::operator->', 'fiter_arrow'),
                  (r'std::map<unsigned short, FIX8::GroupBase \*>::find', dict(c='gmap_find', sig='iterator (const unsigned short &)')),
                  (r'std::_Rb_tree_(const_)?iterator<std::pair<const unsigned short, FIX8::GroupBase \*>>::operator->', 'giter_arrow')],
        calls={
            FT + '::get_presence': dict(c='ft_get_presence', sig='const FIX8::Presence &() const'),
            FT + '::has': lambda em, n, args: 'ft_has1' if len(args) == 1 else dict(c='ft_has2', sig='bool (const unsigned short, FIX8::Presence::const_iterator &) const'),
            FT + '::get': lambda em, n, args: 'ft_get1' if len(args) <= 2 and not (len(args) == 2 and 'FieldTrait *' in em.tstr(args[1]['type'])) else dict(c='ft_get2', sig='bool (const unsigned short, FIX8::Presence::const_iterator &, FIX8::FieldTrait::TraitTypes) const'),
            FT + '::getPos': dict(c='ft_getPos', sig='unsigned short (const unsigned short, FIX8::Presence::const_iterator &) const'),
            FT + '::set': dict(c='ft_set3', sig='void (const unsigned short, FIX8::Presence::const_iterator &, FIX8::FieldTrait::TraitTypes)'),
            'operator!=': 'fiter_ne', 'operator==': 'fiter_eq',
            'std::pair<const unsigned short, FIX8::BaseField *>::pair|void (const unsigned short &, FIX8::BaseField *&)': 'fent_ctor',
            'std::pair<const unsigned short, FIX8::BaseField *>::pair': 'fent_ctor_u',
            MB + '::find_group': 'mb_find_group', 'FIX8::GroupBase::create_group': 'gb_create_group', 'FIX8::GroupBase::operator+=': 'gb_add',
            MB + '::operator+=': 'mb_add_group', MB + '::copy_legal': 'mb_copy_legal', MB + '::move_legal': 'mb_move_legal', MB + '::get_field': 'mb_get_field', 'FIX8::BaseField::copy': 'bf_copy', 'std::basic_string<char>::c_str': 'msgtype_c_str',
            MB + '::replace': lambda em, n, args: 'mb_replace_group' if len(args) == 2 else dict(c='mb_replace', sig='FIX8::BaseField *(const unsigned short, FIX8::Presence::const_iterator, FIX8::BaseField *)'),
            MB + '::add_field': lambda em, n, args: 'mb_add_field' if len(args) == 1 else 'mb_add_field5', MB + '::clear_positions': 'mb_clear_positions',
        }),
    prelude=PRELUDE,
    force_fields={'FIX8::Message': [('_header', 'FIX8::MessageBase *'), ('_trailer', 'FIX8::MessageBase *')], MB: [('_fp', FT), ('_fields', 'FIX8::Fields'), ('_pos', 'FIX8::Positions'), ('_groups', 'FIX8::Groups')], FT: [('_presence', 'FIX8::Presence')]},
    functions=[
        dict(q=FT + '::get_presence', sig=None, cname='ft_get_presence'),
        dict(q=FT + '::has', sig='bool (const unsigned short) const', cname='ft_has1'),
        dict(q=FT + '::has', sig='bool (const unsigned short, Presence::const_iterator &) const', cname='ft_has2'),
        dict(q=FT + '::get', sig='bool (const unsigned short, FieldTrait::TraitTypes) const', cname='ft_get1'),
        dict(q=FT + '::get', sig='bool (const unsigned short, Presence::const_iterator &, FieldTrait::TraitTypes) const', cname='ft_get2'),
        dict(q=FT + '::getPos', sig='unsigned short (const unsigned short, Presence::const_iterator &) const', cname='ft_getPos'),
        dict(q=FT + '::set', sig='void (const unsigned short, Presence::const_iterator &, FieldTrait::TraitTypes)', cname='ft_set3'),
        dict(q=MB + '::get_field', sig=None, cname='mb_get_field'),
        dict(q=MB + '::clear_positions', sig=None, cname='mb_clear_positions'),
        dict(q=MB + '::add_field', sig='void (const unsigned short, Presence::const_iterator, const unsigned int, FIX8::BaseField *, bool)', cname='mb_add_field5'),
        dict(q=MB + '::add_field', sig='bool (FIX8::BaseField *)', cname='mb_add_field'),
        dict(q=MB + '::copy_legal', sig=None, cname='mb_copy_legal'),
        dict(q=MB + '::move_legal', sig=None, cname='mb_move_legal'),
        dict(q='FIX8::Message::clone', sig=None, cname='msg_clone', calls={MB + '::copy_legal': 'clone_copy_legal'}),
    ],
    postlude=POST,
    proofs=[
        dict(name='copy', harness='h_copy', properties=['C11'], solvers=['cadical', 'z3'], timeout=dict(quick=600, thorough=1800), floor=5, level='bounded', unwind=6, object_bits=10),
        dict(name='clone', harness='h_clone', properties=['C11'], solvers=['cadical', 'z3'], timeout=dict(quick=300, thorough=900), floor=4, level='proved-modular', object_bits=10),
        dict(name='copy_group', harness='h_copy_group', properties=['C11'], solvers=['cadical', 'z3'], timeout=dict(quick=600, thorough=1800), floor=2, level='bounded', unwind=6, object_bits=10),
        dict(name='move_group', harness='h_move_group', properties=['C11'], solvers=['cadical', 'z3'], timeout=dict(quick=600, thorough=1800), floor=2, level='bounded', unwind=6, object_bits=10),
        dict(name='move', harness='h_move', properties=['C11'], solvers=['cadical', 'z3'], timeout=dict(quick=600, thorough=1800), floor=4, level='bounded', unwind=6, object_bits=10),
    ],
    trusted_base=['ASSUMED: Presence::find / begin / end (K-pset proves the real find), trait bit operations, the field and position maps as small insertion logs, BaseField::copy() yields an equal '
                  'field in a new object, no repeating groups (model bodies in specs/k_copy.py)'],
    assumptions=['bounded: parts of at most 3 field traits; at most one repeating group with one (empty) element; the target is an empty part; force = false (what clone() uses)'],
)
