"""K-date: format0, parse_decimal, time_to_epoch, date_time_format, date_time_parse, time_parse, date_parse
(field.hpp) -- C09, C01 step 1 (timestamps).

Spec (trusted oracle): Hinnant's days_from_civil / civil_from_days define "proleptic Gregorian UTC".
FIX8::Tickval is std::chrono based and opaque: it is modelled as {long ns} and its accessors get_tm()
(gmtime_r) and msecs() by model bodies stated with the spec functions -- an *assumed* contract on
gmtime_r/chrono, listed in trusted_base.  Loops (format0, parse_decimal) are bounded by the field width
<= 4 and unwound with unwinding assertions (complete).
"""

PRE_STRUCTS = r'''
#include <time.h>
struct Tickval_m { long ns; };   /* model of FIX8::Tickval: nanoseconds since the epoch */
'''

PRELUDE = r'''
#define VACUITY_PROBE() __CPROVER_assert(0, "vacuity-probe")
#define NS_2100 4102444800000000000L   /* 2100-01-01T00:00:00Z in ns */
/* ---------------- spec: proleptic Gregorian calendar (H. Hinnant, chrono-compatible algorithms) ---------------- */
long spec_days_from_civil(long y, unsigned m, unsigned d)
{
  y -= m <= 2;
  long era = (y >= 0 ? y : y - 399) / 400;
  unsigned yoe = (unsigned)(y - era * 400);
  unsigned doy = (153 * (m > 2 ? m - 3 : m + 9) + 2) / 5 + d - 1;
  unsigned doe = yoe * 365 + yoe / 4 - yoe / 100 + doy;
  return era * 146097 + (long)doe - 719468;
}
struct civil { int y; unsigned m, d; };
struct civil spec_civil_from_days(long z)
{
  z += 719468;
  long era = (z >= 0 ? z : z - 146096) / 146097;
  unsigned doe = (unsigned)(z - era * 146097);
  unsigned yoe = (doe - doe / 1460 + doe / 36524 - doe / 146096) / 365;
  long y = (long)yoe + era * 400;
  unsigned doy = doe - (365 * yoe + yoe / 4 - yoe / 100);
  unsigned mp = (5 * doy + 2) / 153;
  struct civil c;
  c.d = doy - (153 * mp + 2) / 5 + 1;
  c.m = mp < 10 ? mp + 3 : mp - 9;
  c.y = (int)(y + (c.m <= 2));
  return c;
}
_Bool spec_leap(int y) { return y % 4 == 0 && (y % 100 != 0 || y % 400 == 0); }
unsigned spec_dim(int y, unsigned m) { return m == 2 ? (spec_leap(y) ? 29u : 28u) : (m == 4 || m == 6 || m == 9 || m == 11) ? 30u : 31u; }
/* calendar fields of an instant */
struct fields { int y; unsigned mo, d, h, mi, s, ms; };
_Bool spec_valid_fields(struct fields f)
{
  return f.y >= 1970 && f.y <= 2099 && f.mo >= 1 && f.mo <= 12 && f.d >= 1 && f.d <= spec_dim(f.y, f.mo)
      && f.h < 24 && f.mi < 60 && f.s < 60 && f.ms < 1000;
}
struct fields spec_fields_from_ns(long ns)
{
  long secs = ns / 1000000000L; long days = secs / 86400; unsigned tod = (unsigned)(secs % 86400);
  struct civil c = spec_civil_from_days(days);
  struct fields f; f.y = c.y; f.mo = c.m; f.d = c.d; f.h = tod / 3600; f.mi = (tod % 3600) / 60; f.s = tod % 60;
  f.ms = (unsigned)((ns / 1000000L) % 1000);
  return f;
}
long spec_ns_from_fields(struct fields f)
{
  return (spec_days_from_civil(f.y, f.mo, f.d) * 86400L + f.h * 3600L + f.mi * 60L + f.s) * 1000000000L + f.ms * 1000000L;
}
/* wire text characterised without division: t[0..n) is the rendering of f under indicator ind iff it has the
   fixed layout, digits in the digit positions, and the digit groups recompose (by multiplication) to the fields.
   Fixed-width decimal notation is unique, so this determines the text.
   ind: 0 HH:MM:SS 1 HH:MM:SS.sss 2 YYYYMM 3 YYYYMMDD 4 YYYYMMDD-HH:MM:SS 5 YYYYMMDD-HH:MM:SS.sss */
#define ISD(c) ((c) >= '0' && (c) <= '9')
#define DV(c) ((unsigned)((c) - '0'))
#define G2(t, i) (ISD((t)[i]) && ISD((t)[(i)+1]))
#define V2(t, i) (10u * DV((t)[i]) + DV((t)[(i)+1]))
#define G3(t, i) (G2(t, i) && ISD((t)[(i)+2]))
#define V3(t, i) (100u * DV((t)[i]) + 10u * DV((t)[(i)+1]) + DV((t)[(i)+2]))
#define G4(t, i) (G2(t, i) && G2(t, (i)+2))
#define V4(t, i) (1000u * DV((t)[i]) + 100u * DV((t)[(i)+1]) + 10u * DV((t)[(i)+2]) + DV((t)[(i)+3]))
unsigned spec_text_len(unsigned ind) { return ind == 0 ? 8u : ind == 1 ? 12u : ind == 2 ? 6u : ind == 3 ? 8u : ind == 4 ? 17u : 21u; }
_Bool spec_is_text(struct fields f, unsigned ind, const char *t, unsigned long n)
{
  if (ind > 5 || n != spec_text_len(ind)) return 0;
  unsigned o = 0;
  if (ind > 1) {
    if (!(G4(t, 0) && V4(t, 0) == (unsigned)f.y && G2(t, 4) && V2(t, 4) == f.mo)) return 0;
    if (ind == 2) return 1;
    if (!(G2(t, 6) && V2(t, 6) == f.d)) return 0;
    if (ind == 3) return 1;
    if (t[8] != '-') return 0;
    o = 9;
  }
  if (!(G2(t, o) && V2(t, o) == f.h && t[o+2] == ':' && G2(t, o+3) && V2(t, o+3) == f.mi && t[o+5] == ':' && G2(t, o+6) && V2(t, o+6) == f.s)) return 0;
  if (ind == 1 || ind == 5) return t[o+8] == '.' && G3(t, o+9) && V3(t, o+9) == f.ms;
  return 1;
}
/* ---------------- assumed contracts on the opaque Tickval (std::chrono + gmtime_r) ---------------- */
struct fields g_fields;     /* ghost: calendar fields of the instant held by the Tickval under test */
_Bool g_fields_given;       /* harness supplies g_fields directly (assumed equal to spec_fields_from_ns(ns)) */
struct tm Tickval_get_tm(struct Tickval_m *self)
{ /* ASSUMED contract: gmtime_r(secs) yields the proleptic Gregorian UTC fields spec_fields_from_ns(ns) */
  struct fields f = g_fields_given ? g_fields : spec_fields_from_ns(self->ns);
  struct tm t = {0};
  t.tm_year = f.y - 1900; t.tm_mon = (int)f.mo - 1; t.tm_mday = (int)f.d; t.tm_hour = (int)f.h; t.tm_min = (int)f.mi; t.tm_sec = (int)f.s;
  return t;
}
unsigned Tickval_msecs(struct Tickval_m *self) { return g_fields_given ? g_fields.ms : (unsigned)((self->ns / 1000000L) % 1000); }
long nondet_long(void);
/* contract of time_to_epoch as used by its callers; its ensures clause is obligation C09.epoch, proved on the real body in
   proof 'epoch'.  The call's arguments and result are published in ghost variables so callers can be specified over them. */
struct tm g_te_tm; long g_te_ret; unsigned g_te_calls;
#define SPEC_SECS_TM(t) (spec_days_from_civil((t).tm_year + 1900, (unsigned)((t).tm_mon + 1), (unsigned)(t).tm_mday) * 86400L + (t).tm_hour * 3600L + (t).tm_min * 60L + (t).tm_sec)
long time_to_epoch_contract(struct tm *ltm, int utcdiff)
{
  __CPROVER_assert(utcdiff == 0 && ltm->tm_year >= 70 && ltm->tm_year <= 199 && ltm->tm_mon >= 0 && ltm->tm_mon <= 11 && ltm->tm_mday >= 1
                   && (unsigned)ltm->tm_mday <= spec_dim(ltm->tm_year + 1900, (unsigned)ltm->tm_mon + 1)
                   && ltm->tm_hour >= 0 && ltm->tm_hour < 24 && ltm->tm_min >= 0 && ltm->tm_min < 60 && ltm->tm_sec >= 0 && ltm->tm_sec < 60,
                   "time_to_epoch.pre (valid broken-down time 1970..2099)");
  g_te_tm = *ltm; g_te_calls++;
  g_te_ret = nondet_long();
  __CPROVER_assume(g_te_ret == SPEC_SECS_TM(*ltm));   /* = ensures clause C09.epoch */
  return g_te_ret;
}
void Tickval_ctor_bool(struct Tickval_m *self, _Bool now) { self->ns = now ? nondet_long() : 0; }
long Tickval_get_ticks(struct Tickval_m *self) { return self->ns; }
static const long g_errorticks = 9223372036854775807L;   /* Tickval::errorticks(): f8_time_point::max() in ns */
const long *Tickval_errorticks(void) { return &g_errorticks; }
'''

POST = r'''
#define SAME_TM_AS(f) (g_te_calls == 1 && g_te_tm.tm_year == (f).y - 1900 && g_te_tm.tm_mon == (int)(f).mo - 1 && g_te_tm.tm_mday == (int)(f).d && g_te_tm.tm_hour == (int)(f).h && g_te_tm.tm_min == (int)(f).mi && g_te_tm.tm_sec == (int)(f).s)

/* C09.epoch: time_to_epoch agrees with the calendar spec for every valid broken-down time 1970..2099 */
void h_epoch(void)
{
  struct fields f; __CPROVER_assume(spec_valid_fields(f));
  struct tm t = {0};
  t.tm_year = f.y - 1900; t.tm_mon = (int)f.mo - 1; t.tm_mday = (int)f.d; t.tm_hour = (int)f.h; t.tm_min = (int)f.mi; t.tm_sec = (int)f.s;
  long r = time_to_epoch(&t, 0);
  __CPROVER_assert(r == spec_days_from_civil(f.y, f.mo, f.d) * 86400L + f.h * 3600L + f.mi * 60L + f.s, "C09.epoch");
  VACUITY_PROBE();
}
/* C09.digits: format0/parse_decimal are inverse on every width used (2,3,4) and emit digits only */
void h_digits(void)
{
  int w; int v; __CPROVER_assume(w >= 2 && w <= 4 && v >= 0 && v < (w == 2 ? 100 : w == 3 ? 1000 : 10000));
  char buf[4]; int out = 0;
  format0(v, buf, w);
  for (int i = 0; i < 4; ++i) __CPROVER_assert(i >= w || (buf[i] >= '0' && buf[i] <= '9'), "C09.digits.shape");
  unsigned long n = parse_decimal(buf, (unsigned long)w, &out);
  __CPROVER_assert(n == (unsigned long)w && out == v, "C09.digits.inverse");
  VACUITY_PROBE();
}
/* C09.format_text: the rendered text is exactly the wire text of the instant's calendar fields, for each indicator;
   the buffer is exactly as long as the longest text, so any extra write is a bounds violation */
void h_format(void)
{
  /* for every valid field tuple (= spec_fields_from_ns(ns) of some instant, by the assumed get_tm contract and C09.calendar_inverse.valid) */
  struct Tickval_m tv; unsigned ind; __CPROVER_assume(ind <= 5);
  struct fields f0; __CPROVER_assume(spec_valid_fields(f0)); g_fields = f0; g_fields_given = 1;
  char got[21];
  unsigned long n = date_time_format(&tv, got, ind);
  __CPROVER_assert(n == spec_text_len(ind), "C09.format_text.length");
  __CPROVER_assert(spec_is_text(g_fields, ind, got, n), "C09.format_text.bytes");
  VACUITY_PROBE();
}
/* C09.parse_value: parsing the wire text of valid fields yields the spec instant */
void h_parse_ts(void)
{
  struct fields f; char txt[21]; _Bool with_ms;
  __CPROVER_assume(spec_valid_fields(f) && (with_ms || f.ms == 0) && spec_is_text(f, with_ms ? 5 : 4, txt, with_ms ? 21 : 17));
  long r = date_time_parse(txt, with_ms ? 21 : 17);
  /* modular form: the broken-down time handed to time_to_epoch is exactly f, and the result is its (contract) value
     scaled to ns plus the milliseconds; with C09.epoch this is spec_ns_from_fields(f) by definition */
  __CPROVER_assert(g_te_calls == 1 && g_te_tm.tm_year == f.y - 1900 && g_te_tm.tm_mon == (int)f.mo - 1 && g_te_tm.tm_mday == (int)f.d
                   && g_te_tm.tm_hour == (int)f.h && g_te_tm.tm_min == (int)f.mi && g_te_tm.tm_sec == (int)f.s, "C09.parse_value.timestamp.fields");
  __CPROVER_assert(r == g_te_ret * 1000000000L + f.ms * 1000000L, "C09.parse_value.timestamp.value");
  VACUITY_PROBE();
}
void h_parse_time(void)
{
  struct fields f; char txt[21]; _Bool with_ms;
  __CPROVER_assume(spec_valid_fields(f) && (with_ms || f.ms == 0) && spec_is_text(f, with_ms ? 1 : 0, txt, with_ms ? 12 : 8));
  long r = time_parse(txt, with_ms ? 12 : 8, 1);
  __CPROVER_assert(r == (f.h * 3600L + f.mi * 60L + f.s) * 1000000000L + f.ms * 1000000L, "C09.parse_value.timeonly");
  VACUITY_PROBE();
}
void h_parse_date(void)
{
  struct fields f; char txt[21]; _Bool monthyear;
  __CPROVER_assume(spec_valid_fields(f) && f.h == 0 && f.mi == 0 && f.s == 0 && f.ms == 0 && (!monthyear || f.d == 1)
                   && spec_is_text(f, monthyear ? 2 : 3, txt, monthyear ? 6 : 8));
  long r = date_parse(txt, monthyear ? 6 : 8);
  __CPROVER_assert(r == spec_ns_from_fields(f), "C09.parse_value.date");
  VACUITY_PROBE();
}
/* C09.calendar_inverse: the two spec directions are inverse on [1970, 2100) at ms precision (pure spec lemma that
   turns format_text + parse_value into the round trip) */
#ifndef SLICE_LO
#define SLICE_LO 0L
#define SLICE_HI (NS_2100 / 1000000L)
#endif
void h_cal_inverse(void)
{
  long ms; __CPROVER_assume(ms >= SLICE_LO && ms < SLICE_HI);
  long ns = ms * 1000000L;
  struct fields f = spec_fields_from_ns(ns);
  __CPROVER_assert(spec_valid_fields(f), "C09.calendar_inverse.valid");
  __CPROVER_assert(spec_ns_from_fields(f) == ns, "C09.calendar_inverse.value");
  VACUITY_PROBE();
}
/* C09.ts_roundtrip: direct composition on the real code */
void h_roundtrip(void)
{
  long ms; __CPROVER_assume(ms >= SLICE_LO && ms < SLICE_HI);
  struct Tickval_m tv; tv.ns = ms * 1000000L;
  char txt[21];
  unsigned long n = date_time_format(&tv, txt, 5);
  long r = date_time_parse(txt, n);
  __CPROVER_assert(n == 21 && r == tv.ns, "C09.ts_roundtrip");
  VACUITY_PROBE();
}
'''


NATIVE_CAL = r"""
/* exhaustive native evaluation of the pure calendar lemma behind the round trip, on the same spec text as the proofs */
#include <stdio.h>
#define __CPROVER_assert(c, m) ((void)0)
%(prelude)s
int main(void)
{
  const long days = NS_2100 / 1000000000L / 86400;   /* 47482 days: 1970-01-01 .. 2099-12-31 */
  unsigned long cases = 0;
  /* (a) every day x boundary/midday seconds x boundary milliseconds: fields are valid and recompose to the instant */
  static const long tods[] = {0, 1, 59, 60, 3599, 3600, 43200, 86340, 86398, 86399};
  static const long mss[] = {0, 1, 499, 500, 998, 999};
  for (long d = 0; d < days; ++d)
    for (unsigned a = 0; a < sizeof(tods) / sizeof(*tods); ++a)
      for (unsigned b = 0; b < sizeof(mss) / sizeof(*mss); ++b)
      {
        const long ns = ((d * 86400L + tods[a]) * 1000L + mss[b]) * 1000000L;
        const struct fields f = spec_fields_from_ns(ns);
        ++cases;
        if (!spec_valid_fields(f) || spec_ns_from_fields(f) != ns)
        { printf("FAIL day=%%ld tod=%%ld ms=%%ld -> %%d-%%u-%%u %%u:%%u:%%u.%%u\n", d, tods[a], mss[b], f.y, f.mo, f.d, f.h, f.mi, f.s, f.ms); return 1; }
      }
  /* (b) every second of the day x every millisecond, on a leap day, a century-adjacent day, the first and the last day */
  static const long ds[] = {0, 11016 /* 2000-02-29 */, 24836 /* 2038-01-01 */, 47481 /* 2099-12-31 */};
  for (unsigned k = 0; k < sizeof(ds) / sizeof(*ds); ++k)
    for (long tod = 0; tod < 86400; ++tod)
      for (long ms = 0; ms < 1000; ++ms)
      {
        const long ns = ((ds[k] * 86400L + tod) * 1000L + ms) * 1000000L;
        const struct fields f = spec_fields_from_ns(ns);
        ++cases;
        if (!spec_valid_fields(f) || spec_ns_from_fields(f) != ns) { printf("FAIL day=%%ld tod=%%ld ms=%%ld\n", ds[k], tod, ms); return 1; }
      }
  printf("OK cases=%%lu days=%%ld\n", cases, days);
  return 0;
}
"""


def _native_cal(wd, tier, seed):
    """the pure spec lemma 'fields_from_ns and ns_from_fields are inverse on [1970,2100) and yield valid fields' -- one undivided CBMC
    query did not finish in 25 min on kissat and a 10-year slice not in 20 min (64-bit division chains), so it is evaluated natively:
    exhaustive over all 47482 days (x 10 boundary seconds x 6 boundary ms) and over all 86.4e6 ms of four days.  Never counted as proved."""
    import subprocess, os, time
    t0 = time.time()
    src = os.path.join(wd, 'native_cal.c')
    exe = os.path.join(wd, 'native_cal')
    pre = PRE_STRUCTS + PRELUDE[:PRELUDE.index('/* ---------------- assumed contracts on the opaque Tickval')]
    open(src, 'w').write(NATIVE_CAL % dict(prelude=pre))
    res = dict(id='C09.calendar_inverse.native', kind='exhaustive-native(47482 days x 10 s x 6 ms + 4 days x 86400 s x 1000 ms)', ok=False, cases=0)
    p = subprocess.run(['gcc', '-O2', '-w', '-o', exe, src], stdout=subprocess.PIPE, stderr=subprocess.STDOUT, text=True)
    if p.returncode != 0:
        res.update(broken=True, detail='native build failed: ' + p.stdout[-600:])
        return res
    p = subprocess.run([exe], stdout=subprocess.PIPE, stderr=subprocess.STDOUT, text=True, timeout=900)
    res['time'] = round(time.time() - t0, 2)
    res['detail'] = p.stdout.strip()[-400:]
    m = __import__('re').search(r'OK cases=(\d+)', p.stdout)
    if p.returncode == 0 and m:
        res.update(ok=True, cases=int(m.group(1)))
    elif p.returncode != 1:
        res['broken'] = True
    return res



def _native_roundtrip(wd, tier, seed):
    """direct round trip on the real compiled codecs (ASan+UBSan): replay/k_date.cpp 'search' = first, last and a midday millisecond of
    every day 1970..2099 plus a prime stride, each through date_time_format/_parse, time_parse, date_parse against gmtime_r.  The
    undivided CBMC query (h_roundtrip) did not finish in 30 min; this is an enumeration, never counted as proved."""
    import os, time
    from vlib import replay as rp
    t0 = time.time()
    res = dict(id='C09.ts_roundtrip.native', kind='native-enumeration(3 instants per day x 47482 days + stride 7919000017 ms, real headers, ASan+UBSan)', ok=False, cases=47482 * 3 + 519)
    try:
        exe = rp.build_native(os.path.join(rp.VERIF, 'replay', 'k_date.cpp'), os.path.join(wd, 'native_k_date'))
        rc, o = rp.run_native(exe, ['search'])
    except Exception as e:
        res.update(broken=True, detail=str(e)[-500:])
        return res
    res['time'] = round(time.time() - t0, 2)
    res['detail'] = o.strip()[-600:]
    if rc == 0 and '"search_done":true' in o:
        res['ok'] = True
    elif rc != 1:
        res['broken'] = True
    return res

UNIT = dict(
    name='k_date',
    tu='tu/core.cpp',
    emit=dict(calls={'FIX8::Tickval::get_tm': 'Tickval_get_tm', 'FIX8::Tickval::msecs': 'Tickval_msecs',
                     'FIX8::Tickval::get_ticks': 'Tickval_get_ticks', 'errorticks': 'Tickval_errorticks', 'FIX8::Tickval::Tickval': 'Tickval_ctor_bool',
                     'format0': 'format0', 'parse_decimal': 'parse_decimal', 'time_to_epoch': 'time_to_epoch'},
              type_map=[(r'tm', 'struct tm'), (r'FIX8::Tickval', 'struct Tickval_m'), (r'FIX8::TimeIndicator', 'unsigned int'),
                        (r'(FIX8::)?Tickval::ticks', 'long')],
              default_args={'time_to_epoch_contract': {1: '0'}},
              constants={'noticks': 'probe:FIX8::Tickval::noticks', 'million': 'probe:FIX8::Tickval::million',
                         'billion': 'probe:FIX8::Tickval::billion'}),
    pre_structs=PRE_STRUCTS,
    prelude=PRELUDE,
    functions=[
        dict(q='FIX8::format0', sig=None, cname='format0'),
        dict(q='FIX8::parse_decimal', sig=None, cname='parse_decimal'),
        dict(q='FIX8::time_to_epoch', sig=None, cname='time_to_epoch'),
        dict(q='FIX8::date_time_format', sig=None, cname='date_time_format'),
        dict(q='FIX8::date_time_parse', sig=None, cname='date_time_parse', calls={'time_to_epoch': 'time_to_epoch_contract'}),
        dict(q='FIX8::time_parse', sig=None, cname='time_parse'),
        dict(q='FIX8::date_parse', sig=None, cname='date_parse'),
    ],
    postlude=POST,
    proofs=[
        dict(name='epoch', harness='h_epoch', unwind=6, properties=['C09', 'C01'], solvers=['cadical', 'kissat', 'cvc5'],
             timeout=dict(quick=900, thorough=900), floor=1),
        dict(name='digits', harness='h_digits', unwind=6, properties=['C09', 'C01'], solvers=['cadical', 'kissat'],
             timeout=dict(quick=900, thorough=900), floor=2),
        dict(name='format', harness='h_format', unwind=6, properties=['C09', 'C01'], solvers=['cadical', 'kissat'],
             timeout=dict(quick=900, thorough=900), floor=2),
        dict(name='parse_ts', harness='h_parse_ts', unwind=6, properties=['C09', 'C01'], solvers=['cadical', 'kissat'],
             timeout=dict(quick=900, thorough=900), floor=1),
        dict(name='parse_time', harness='h_parse_time', unwind=6, properties=['C09', 'C01'], solvers=['cadical', 'kissat'],
             timeout=dict(quick=900, thorough=900), floor=1),
        dict(name='parse_date', harness='h_parse_date', unwind=6, properties=['C09', 'C01'], solvers=['cadical', 'kissat'],
             timeout=dict(quick=900, thorough=900), floor=1),
    ],
    native=[dict(name='cal_inverse_native', properties=['C09'], tier='quick', run=_native_cal),
            dict(name='roundtrip_native', properties=['C09'], tier='quick', run=_native_roundtrip)],
    trusted_base=['spec_days_from_civil / spec_civil_from_days (Hinnant) as the meaning of proleptic Gregorian UTC',
                  'ASSUMED: Tickval::get_tm (std::chrono to_time_t + gmtime_r) returns the spec calendar fields; Tickval::msecs = (ns/10^6) mod 1000 (model bodies in specs/k_date.py)'],
    assumptions=['instants restricted to [1970-01-01, 2100-01-01) as the property states; utcdiff = 0'],
)
