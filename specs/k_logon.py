"""K-logon (C23): Session::handle_logon (runtime/session.cpp), body extracted from the clang AST.

One inbound Logon in either role.  The inbound message is a ghost record (SenderCompID, TargetCompID, HeartBtInt, ResetSeqNumFlag, DefaultApplVerID);
the client list is a one-entry-exact map (the looked-up sender is listed or not, with an address that matches or not); SessionID is its three
strings (identity model; K-sid proves that operator!= is "some component differs").  Logger / persister creation, authenticate(), the acceptance
gate (K-seq) and send() are models with ghost logs.
Acceptor:  logon completes (Logon reply sent, state continuous) only if the TargetCompID is ours when CompID enforcement is on, the sender is in a
           configured client list (with its configured address, if one is configured), and authenticate() agrees; the reply echoes HeartBtInt and the
           connection adopts it; ResetSeqNumFlag=Y sets both sequence numbers to 1 before anything is sent, otherwise the recovered numbers, overridden
           by the numbers requested at start; a refused logon sends nothing, stops the session and reports failure.
Initiator: a Logon response whose CompIDs do not mirror the session identity is a mismatch: with enforcement the session stops, without it the logon
           proceeds; a matching response proceeds to normal operation.
"""
PRE_STRUCTS = r'''
struct fstr_m { long _value; };
struct fint_m { int _value; };
struct fbool_m { _Bool _value; };
struct sid_m { long begin, sender, target; };
struct hdr_m { int dummy; };
struct msg_m { struct hdr_m hdr; long msgtype; };
struct client_m { long name; long ip; };
struct centry_m { long first; struct client_m second; };
struct clients_m { int dummy; };
struct citer_m { _Bool end; struct centry_m *p; };
struct sockaddr_m { long host; };
struct ctx_m { long _beginStr; };
struct sf_m { long _ses; };
struct sched_m { int dummy; };
struct timer_m { int dummy; };
struct tevent_m { int dummy; };
'''
PRELUDE = r'''
#define VACUITY_PROBE() __CPROVER_assert(0, "vacuity-probe")
long nondet_long(void); unsigned nondet_uint(void); _Bool nondet_bool(void); int nondet_int(void);
extern int __exc;
/* ---- ghost: the inbound Logon ---- */
long g_in_sender, g_in_target, g_in_davi; int g_in_hbi; _Bool g_in_has_reset, g_in_reset;
/* ---- ghost: configuration / environment ---- */
_Bool g_clients_empty, g_sender_listed; long g_listed_ip, g_peer_ip; _Bool g_auth_ok, g_sched_valid, g_sched_now;
_Bool g_ctrl_present; unsigned g_ctrl_send, g_ctrl_recv; unsigned g_role;
/* ---- ghost: what happened ---- */
int g_logons_sent; int g_sent_hbi; long g_sent_davi; unsigned g_send_seq_at_reply, g_recv_seq_at_reply, g_recv_seq_at_gate, g_send_seq_at_gate; int g_rejects_sent; _Bool g_stopped; int g_conn_hbi; _Bool g_conn_hbi_set;
_Bool g_gate_ran, g_timer_scheduled; long g_persister_reset_arg; int g_persisters_created;
struct centry_m g_centry;
/* ---- ASSUMED models ---- */
_Bool msg_have(const struct hdr_m *m, unsigned short tag) { return g_in_has_reset; }
struct fbool_m g_f_reset; const struct fbool_m *msg_get_resetflag(const struct hdr_m *m) { g_f_reset._value = g_in_reset; return &g_f_reset; }
_Bool fbool_get(const struct fbool_m *f) { return f->_value; }
struct hdr_m *msg_Header(const struct msg_m *m) { return (struct hdr_m *)&m->hdr; }
void fstr_ctor0(struct fstr_m *f) { f->_value = 0; }
_Bool hdr_get_sender(const struct hdr_m *h, struct fstr_m *to) { to->_value = g_in_sender; return 1; }
_Bool hdr_get_target(const struct hdr_m *h, struct fstr_m *to) { to->_value = g_in_target; return 1; }
_Bool msg_get_davi(const struct hdr_m *h, struct fstr_m *to) { to->_value = g_in_davi; return 1; }
void fint_ctor0(struct fint_m *f) { f->_value = 0; }
_Bool msg_get_hbi(const struct hdr_m *h, struct fint_m *to) { to->_value = g_in_hbi; return 1; }
const long *fstr_call(const struct fstr_m *f) { return &f->_value; }
const int *fint_call(const struct fint_m *f) { return &f->_value; }
void sid_ctor3(struct sid_m *id, const long *begin, const long *sender, const long *target) { id->begin = *begin; id->sender = *sender; id->target = *target; }
_Bool sid_ne(const struct sid_m *a, const struct sid_m *b) { return a->begin != b->begin || a->sender != b->sender || a->target != b->target; }   /* K-sid: operator!= after fix 9eedfd3 */
const struct fstr_m *sid_get_sender(const struct sid_m *s) { static struct fstr_m f; f._value = s->sender; return &f; }
_Bool str_ne(const long *a, const long *b) { return *a != *b; }
_Bool str_ieq(const long *a, const long *b) { return *a == *b ? 1 : nondet_bool(); }   /* operator% (f8utils.hpp): case-insensitive equality -- equal strings match, different ones may */
unsigned conn_get_role(const void *c) { return g_role; }
unsigned conn_get_pmodel(const void *c) { return nondet_uint() % 3; }
struct sockaddr_m g_peer; struct sockaddr_m *conn_get_peer(const void *c) { g_peer.host = g_peer_ip; return &g_peer; }
long sockaddr_host(const struct sockaddr_m *a) { return a->host; }
void conn_set_hb_interval(void *c, unsigned hb) { g_conn_hbi = (int)hb; g_conn_hbi_set = 1; }
unsigned conn_get_hb_interval(const void *c) { return (unsigned)g_conn_hbi; }
_Bool clients_empty(const struct clients_m *c) { return g_clients_empty; }
struct citer_m clients_find(struct clients_m *c, const long *key)
{ struct citer_m it; it.end = !(g_sender_listed && *key == g_in_sender); g_centry.first = *key; g_centry.second.ip = g_listed_ip; g_centry.second.name = nondet_long(); it.p = &g_centry; return it; }
struct citer_m clients_cend(const struct clients_m *c) { struct citer_m it; it.end = 1; it.p = 0; return it; }
_Bool citer_eq(const struct citer_m *a, const struct citer_m *b) { return a->end == b->end; }
struct centry_m *citer_arrow(const struct citer_m *it) { __CPROVER_assert(!it->end, "client list iterator dereferenced at end"); return it->p; }
const long *client_get_ip(const struct client_m *c) { return &c->ip; }
const long *client_get_name(const struct client_m *c) { return &c->name; }
_Bool ip_ne(const long *a, const long *b) { return *a != *b; }
void *sf_create_logger(struct sf_m *sf, long ses, unsigned which, const struct sid_m *id) { return nondet_bool() ? (void *)sf : 0; }
void *sf_create_persister(struct sf_m *sf, long ses, const struct sid_m *id, _Bool flag) { g_persisters_created++; g_persister_reset_arg = flag; return nondet_bool() ? (void *)sf : 0; }
struct FIX8_Session;
void ses_recover_seqnums(struct FIX8_Session *s);
_Bool ses_authenticate(struct FIX8_Session *s, struct sid_m *id, const struct msg_m *m) { return g_auth_ok; }
_Bool ses_enforce(struct FIX8_Session *s, unsigned seqnum, const struct msg_m *m);
struct msg_m g_logon_msg, g_reject_msg;
struct msg_m *ses_generate_logon(struct FIX8_Session *s, unsigned hbi, long davi) { g_sent_hbi = (int)hbi; g_sent_davi = davi; return &g_logon_msg; }
struct msg_m *ses_generate_reject(struct FIX8_Session *s, unsigned seqnum, const char *what, const char *msgtype) { return &g_reject_msg; }
_Bool ses_send(struct FIX8_Session *s, struct msg_m *m, _Bool destroy, unsigned custom_seqnum, _Bool no_increment);
void ses_stop(struct FIX8_Session *s, _Bool clear_timer) { g_stopped = 1; }
void ses_state_change(void *self, unsigned before, unsigned after) { }
unsigned atomic_exchange_u(unsigned *a, unsigned v, int mo) { unsigned o = *a; *a = v; return o; }
_Bool sched_is_valid(const struct sched_m *s) { return g_sched_valid; }
_Bool sched_test(const struct sched_m *s, _Bool prev) { return g_sched_now; }
_Bool timer_schedule(struct timer_m *t, struct tevent_m ev, unsigned ms) { g_timer_scheduled = 1; return 1; }
const long *msg_get_msgtype(const struct msg_m *m) { return &m->msgtype; }
const char *str_c_str(const long *s) { return "x"; }
'''
SES = 'FIX8::Session'
POST = r'''
void ses_recover_seqnums(struct FIX8_Session *s) { if (s->_persist && g_ctrl_present) { s->_next_send_seq = g_ctrl_send; s->_next_receive_seq = g_ctrl_recv; } }   /* K-send: recover_seqnums' proved contract */
_Bool ses_enforce(struct FIX8_Session *s, unsigned seqnum, const struct msg_m *m) { g_gate_ran = 1; g_recv_seq_at_gate = s->_next_receive_seq; g_send_seq_at_gate = s->_next_send_seq; if (nondet_bool()) { __exc = 1; return 1; } return nondet_bool(); }
_Bool ses_send(struct FIX8_Session *s, struct msg_m *m, _Bool destroy, unsigned custom_seqnum, _Bool no_increment)
{ if (m == &g_logon_msg) { if (g_logons_sent < 100) g_logons_sent++; g_send_seq_at_reply = s->_next_send_seq; g_recv_seq_at_reply = s->_next_receive_seq; } else if (g_rejects_sent < 100) g_rejects_sent++; return 1; }
static void setup(struct FIX8_Session *s, struct sf_m *sf, struct msg_m *m)
{
  s->_state = nondet_uint(); __CPROVER_assume(s->_state < K_st_num_states);
  s->_ctx._beginStr = nondet_long(); s->_connection = (void *)s;
  s->_sid.begin = nondet_long(); s->_sid.sender = nondet_long(); s->_sid.target = nondet_long(); s->_sci._value = nondet_long();
  s->_loginParameters._enforce_compids = nondet_bool();
  s->_sf = nondet_bool() ? sf : 0; s->_logger = nondet_bool() ? (void *)s : 0; s->_plogger = nondet_bool() ? (void *)s : 0; s->_persist = nondet_bool() ? (void *)s : 0;
  s->_next_send_seq = nondet_uint(); s->_next_receive_seq = nondet_uint(); s->_req_next_send_seq = nondet_uint(); s->_req_next_receive_seq = nondet_uint();
  g_in_sender = nondet_long(); g_in_target = nondet_long(); g_in_davi = nondet_long(); g_in_hbi = nondet_int(); __CPROVER_assume(g_in_hbi >= 0 && g_in_hbi <= 86400);
  g_in_has_reset = nondet_bool(); g_in_reset = nondet_bool();
  g_clients_empty = nondet_bool(); g_sender_listed = nondet_bool(); g_listed_ip = nondet_long(); g_peer_ip = nondet_long(); g_auth_ok = nondet_bool(); g_sched_valid = nondet_bool(); g_sched_now = nondet_bool();
  g_ctrl_present = nondet_bool(); g_ctrl_send = nondet_uint(); g_ctrl_recv = nondet_uint();
  g_logons_sent = 0; g_rejects_sent = 0; g_stopped = 0; g_conn_hbi_set = 0; g_conn_hbi = 30; g_gate_ran = 0; g_timer_scheduled = 0; g_persisters_created = 0; __exc = 0;
}
void h_acceptor(void)
{
  struct FIX8_Session s; struct sf_m sf; struct msg_m m; setup(&s, &sf, &m);
  g_role = K_cn_acceptor; __CPROVER_assume(s._state != E_FIX8_States_SessionStates_st_continuous);
  unsigned ns0 = s._next_send_seq, nr0 = s._next_receive_seq; _Bool had_persist = s._persist != 0;
  _Bool r = session_handle_logon(&s, 7u, &m);
  _Bool reset = g_in_has_reset && g_in_reset;
  _Bool compid_ok = !s._loginParameters._enforce_compids || s._sci._value == g_in_target;
  _Bool client_ok = g_clients_empty || (g_sender_listed && (g_listed_ip == 0 || g_listed_ip == g_peer_ip));
  _Bool completed = g_logons_sent > 0;
  if (!__exc) {
    __CPROVER_assert(!completed || (compid_ok && client_ok && g_auth_ok), "C23.acceptor.logon_completes_only_for_our_targetcompid_a_listed_client_and_a_positive_authentication");
    __CPROVER_assert(!(compid_ok && client_ok && g_auth_ok) || (g_logons_sent == 1), "C23.acceptor.an_acceptable_logon_is_answered_with_exactly_one_logon");
    __CPROVER_assert(!completed || (g_sent_hbi == g_in_hbi && g_conn_hbi_set && g_conn_hbi == g_in_hbi && g_sent_davi == g_in_davi), "C23.acceptor.reply_echoes_heartbtint_and_the_connection_adopts_it");
    __CPROVER_assert(!(completed && reset) || (g_send_seq_at_reply == 1u && g_recv_seq_at_reply == 1u && g_recv_seq_at_gate == 1u), "C23.acceptor.resetseqnumflag_sets_both_numbers_to_one_before_the_reply");
    unsigned want_s = s._req_next_send_seq ? s._req_next_send_seq : (had_persist_or_created(&s, had_persist) && g_ctrl_present) ? g_ctrl_send : ns0;
    unsigned want_r = s._req_next_receive_seq ? s._req_next_receive_seq : (had_persist_or_created(&s, had_persist) && g_ctrl_present) ? g_ctrl_recv : nr0;
    __CPROVER_assert(!(completed && !reset) || (g_send_seq_at_reply == want_s && g_recv_seq_at_gate == want_r), "C23.acceptor.without_reset_the_numbers_are_the_recovered_ones_unless_requested_at_start");
    __CPROVER_assert(!completed || (s._sid.sender == g_in_target && s._sid.target == g_in_sender && s._sid.begin == s._ctx._beginStr), "C23.acceptor.session_identity_mirrors_the_logon");
    __CPROVER_assert(!completed || g_gate_ran, "C23.acceptor.sequence_gate_applied_before_the_reply");
    __CPROVER_assert(completed || (g_stopped && !r && s._state == E_FIX8_States_SessionStates_st_session_terminated), "C23.acceptor.refused_logon_stops_the_session_and_reports_failure");
    __CPROVER_assert(!(completed && (!g_sched_valid || g_sched_now)) || (r && s._state == E_FIX8_States_SessionStates_st_continuous && g_timer_scheduled && !g_stopped), "C23.acceptor.completed_logon_enters_normal_operation_and_starts_supervision");
  }
  VACUITY_PROBE();
}
void h_initiator(void)
{
  struct FIX8_Session s; struct sf_m sf; struct msg_m m; setup(&s, &sf, &m);
  g_role = K_cn_initiator; __CPROVER_assume(s._state != E_FIX8_States_SessionStates_st_continuous);
  unsigned ns0 = s._next_send_seq, nr0 = s._next_receive_seq;
  _Bool r = session_handle_logon(&s, 7u, &m);
  _Bool mirrors = s._ctx._beginStr == s._sid.begin && g_in_target == s._sid.sender && g_in_sender == s._sid.target;
  if (!__exc) {
    __CPROVER_assert(!(!mirrors && s._loginParameters._enforce_compids) || (g_stopped && !r && s._state == E_FIX8_States_SessionStates_st_session_terminated && !g_gate_ran), "C23.initiator.response_not_mirroring_our_identity_ends_the_session_when_enforced");
    __CPROVER_assert(!(mirrors || !s._loginParameters._enforce_compids) || (r && g_gate_ran && s._state == E_FIX8_States_SessionStates_st_continuous && !g_stopped && g_timer_scheduled), "C23.initiator.matching_response_enters_normal_operation");
    __CPROVER_assert(g_logons_sent == 0 && s._next_send_seq == ns0 && s._next_receive_seq == nr0, "C23.initiator.response_is_not_answered_and_numbers_are_untouched");
  }
  VACUITY_PROBE();
}
void h_already(void)
{
  struct FIX8_Session s; struct sf_m sf; struct msg_m m; setup(&s, &sf, &m);
  g_role = nondet_bool() ? K_cn_acceptor : K_cn_initiator; s._state = E_FIX8_States_SessionStates_st_continuous;
  _Bool r = session_handle_logon(&s, 7u, &m);
  __CPROVER_assert(!__exc && r && g_rejects_sent == 1 && g_logons_sent == 0 && s._state == E_FIX8_States_SessionStates_st_continuous && !g_stopped, "C23.logon_while_logged_on_is_rejected_and_changes_nothing");
  VACUITY_PROBE();
}
'''
POST = POST.replace("had_persist_or_created(&s, had_persist)", "(s._persist != 0)")
UNIT = dict(
    name='k_logon', tu='tu/rt_session.cpp', no_follow=True,
    pre_structs=PRE_STRUCTS,
    probe={'K_st_num_states': 'FIX8::States::st_num_states', 'K_cn_acceptor': 'FIX8::Connection::cn_acceptor', 'K_cn_initiator': 'FIX8::Connection::cn_initiator',
           'E_FIX8_States_SessionStates_st_continuous': 'FIX8::States::st_continuous', 'E_FIX8_States_SessionStates_st_logon_received': 'FIX8::States::st_logon_received',
           'E_FIX8_States_SessionStates_st_session_terminated': 'FIX8::States::st_session_terminated'},
    emit=dict(
        exceptions=True,
        may_throw={'ses_enforce': True},
        base_cast={('struct msg_m', 'struct hdr_m'): '((struct hdr_m *)(%s))'},
        pod=[r'std::basic_string<char>', r'FIX8::SessionID', r'FIX8::TimerEvent<FIX8::Session>', r'Poco::Net::IPAddress', r'std::__detail::_Node_(const_)?iterator(_base)?<.*>'],
        zero_default=[r'Poco::Net::IPAddress'],
        constants={'Common_ResetSeqNumFlag': '((unsigned short)141)'},
        default_args={'ses_send': {1: '1', 2: '0u', 3: '0'}, 'ses_stop': {0: '1'}, 'atomic_exchange_u': {1: '5'}, 'fstr_ctor0': {}, 'sched_test': {0: '0'}, 'ses_generate_reject': {2: '0'},
                      'sf_create_persister': {2: '0'}},
        type_map=[(r'(std::basic_string<char>|std::string|FIX8::f8String)', 'long'), (r'FIX8::States::SessionStates', 'unsigned int'),
                  (r'FIX8::f8_atomic<unsigned int>|std::atomic<unsigned int>|std::__atomic_base<unsigned int>', 'unsigned int'),
                  (r'FIX8::f8_atomic<FIX8::States::SessionStates>|std::atomic<FIX8::States::SessionStates>', 'unsigned int'),
                  (r'FIX8::Message', 'struct msg_m'), (r'FIX8::MessageBase', 'struct hdr_m'), (r'FIX8::F8MetaCntx', 'struct ctx_m'),
                  (r'FIX8::(sender_comp_id|target_comp_id|default_appl_ver_id)|FIX8::Field<std::basic_string<char>, (49|56|1137)>', 'struct fstr_m'),
                  (r'FIX8::heartbeat_interval|FIX8::Field<int, 108>', 'struct fint_m'), (r'FIX8::reset_seqnum_flag|FIX8::Field<.*, 141>', 'struct fbool_m'),
                  (r'FIX8::SessionID', 'struct sid_m'), (r'FIX8::Connection', 'void'), (r'FIX8::Connection::Role', 'unsigned int'), (r'FIX8::Persister', 'void'), (r'FIX8::Logger', 'void'),
                  (r'FIX8::Clients|std::unordered_map<std::basic_string<char>, std::tuple<std::basic_string<char>, Poco::Net::IPAddress>.*>', 'struct clients_m'),
                  (r'std::__detail::_Node_(const_)?iterator(_base)?<std::pair<const std::basic_string<char>, std::tuple<std::basic_string<char>, Poco::Net::IPAddress>>, .*>', 'struct citer_m'),
                  (r'std::pair<const std::basic_string<char>, std::tuple<std::basic_string<char>, Poco::Net::IPAddress>>', 'struct centry_m'),
                  (r'(FIX8::Client|std::tuple<std::basic_string<char>, Poco::Net::IPAddress>)', 'struct client_m'), (r'Poco::Net::IPAddress', 'long'), (r'Poco::Net::SocketAddress', 'struct sockaddr_m'),
                  (r'(FIX8::)?SessionConfig|FIX8::Configuration', 'struct sf_m'), (r'FIX8::Configuration::Logtype', 'unsigned int'), (r'FIX8::XmlElement', 'long'),
                  (r'FIX8::Schedule', 'struct sched_m'), (r'FIX8::Timer<FIX8::Session>', 'struct timer_m'), (r'FIX8::TimerEvent<FIX8::Session>', 'struct tevent_m'),
                  (r'FIX8::ProcessModel', 'unsigned int'), (r'FIX8::RealmBase', 'void')],
        lazy_structs=[r'FIX8::Session', r'FIX8::LoginParameters'],
        calls_rx=[(r'FIX8::Field<std::basic_string<char>, (49|56|1137)>::Field|FIX8::(sender_comp_id|target_comp_id|default_appl_ver_id)::Field', 'fstr_ctor0'),
                  (r'(FIX8::Field<std::basic_string<char>, (49|56|1137)>|FIX8::(sender_comp_id|target_comp_id|default_appl_ver_id))::operator\(\)', dict(c='fstr_call', sig='const FIX8::f8String &() const')),
                  (r'FIX8::Field<int, 108>::Field|FIX8::heartbeat_interval::Field', 'fint_ctor0'),
                  (r'(FIX8::Field<int, 108>|FIX8::heartbeat_interval)::operator\(\)', dict(c='fint_call', sig='const int &() const')),
                  (r'(FIX8::Field<.*, 141>|FIX8::reset_seqnum_flag)::get', 'fbool_get'),
                  (r'std::unordered_map<std::basic_string<char>, std::tuple<.*>.*>::empty', 'clients_empty'), (r'std::unordered_map<std::basic_string<char>, std::tuple<.*>.*>::find', dict(c='clients_find', sig='iterator (const std::basic_string<char> &)')),
                  (r'std::unordered_map<std::basic_string<char>, std::tuple<.*>.*>::cend', 'clients_cend'),
                  (r'std::__detail::_Node_(const_)?iterator<.*>::operator->', 'citer_arrow')],
        calls={
            'FIX8::MessageBase::have': 'msg_have', 'FIX8::Message::Header': 'msg_Header',
            'FIX8::MessageBase::get': lambda em, n, args: (
                dict(c='msg_get_resetflag', sig='const FIX8::reset_seqnum_flag *() const') if not args else
                dict(c='hdr_get_sender', sig='bool (FIX8::sender_comp_id &) const') if ('sender_comp_id' in em.tstr(args[0]['type']) or ', 49>' in em.tstr(args[0]['type'])) else
                dict(c='hdr_get_target', sig='bool (FIX8::target_comp_id &) const') if ('target_comp_id' in em.tstr(args[0]['type']) or ', 56>' in em.tstr(args[0]['type'])) else
                dict(c='msg_get_davi', sig='bool (FIX8::default_appl_ver_id &) const') if ('default_appl_ver_id' in em.tstr(args[0]['type']) or ', 1137>' in em.tstr(args[0]['type'])) else
                dict(c='msg_get_hbi', sig='bool (FIX8::heartbeat_interval &) const')),
            'FIX8::SessionID::SessionID': 'sid_ctor3', 'operator!=': lambda em, n, args: 'sid_ne' if 'SessionID' in em.tstr(args[0]['type']) else 'ip_ne' if 'IPAddress' in em.tstr(args[0]['type']) else 'str_ne',
            'FIX8::SessionID::operator!=': 'sid_ne', 'operator%': 'str_ieq', 'Poco::Net::IPAddress::operator!=': 'ip_ne', 'operator==': 'citer_eq',
            'FIX8::SessionID::get_senderCompID': dict(c='sid_get_sender', sig='const FIX8::sender_comp_id &() const'),
            'FIX8::Connection::get_role': 'conn_get_role', 'FIX8::Connection::get_pmodel': 'conn_get_pmodel', 'FIX8::Connection::get_peer_socket_address': dict(c='conn_get_peer', sig='const Poco::Net::SocketAddress &() const'),
            'Poco::Net::SocketAddress::host': 'sockaddr_host', 'FIX8::Connection::set_hb_interval': 'conn_set_hb_interval', 'FIX8::Connection::get_hb_interval': 'conn_get_hb_interval',
            'get': lambda em, n, args: dict(c='client_get_ip', sig='const Poco::Net::IPAddress &(const FIX8::Client &)') if 'IPAddress' in em.tstr(n['type']) else dict(c='client_get_name', sig='const std::string &(const FIX8::Client &)'),
            'FIX8::Configuration::create_logger': 'sf_create_logger', 'FIX8::SessionConfig::create_logger': 'sf_create_logger', 'struct sf_m::create_logger': 'sf_create_logger',
            'FIX8::Configuration::create_persister': 'sf_create_persister', 'FIX8::SessionConfig::create_persister': 'sf_create_persister', 'struct sf_m::create_persister': 'sf_create_persister',
            SES + '::recover_seqnums': 'ses_recover_seqnums', SES + '::authenticate': dict(c='ses_authenticate', sig='bool (FIX8::SessionID &, const FIX8::Message *)'), SES + '::enforce': 'ses_enforce',
            SES + '::generate_logon': dict(c='ses_generate_logon', sig='FIX8::Message *(const unsigned int, const FIX8::f8String)'), SES + '::generate_reject': 'ses_generate_reject',
            SES + '::send': dict(c='ses_send', sig='bool (FIX8::Message *, bool, unsigned int, bool)'), SES + '::stop': 'ses_stop', SES + '::state_change': 'ses_state_change',
            SES + '::do_state_change': 'session_do_state_change',
            'std::atomic<FIX8::States::SessionStates>::exchange': 'atomic_exchange_u', 'FIX8::f8_atomic<FIX8::States::SessionStates>::exchange': 'atomic_exchange_u',
            'FIX8::Schedule::is_valid': 'sched_is_valid', 'FIX8::Schedule::test': 'sched_test', 'FIX8::Timer<FIX8::Session>::schedule': 'timer_schedule',
            'FIX8::Message::get_msgtype': dict(c='msg_get_msgtype', sig='const FIX8::f8String &() const'), 'FIX8::MessageBase::get_msgtype': dict(c='msg_get_msgtype', sig='const FIX8::f8String &() const'),
            'std::basic_string<char>::c_str': 'str_c_str',
        }),
    prelude=PRELUDE,
    force_fields={'FIX8::Session': [('_state', 'FIX8::States::SessionStates'), ('_ctx', 'FIX8::F8MetaCntx'), ('_connection', 'FIX8::Connection *'), ('_sid', 'FIX8::SessionID'),
                                    ('_loginParameters', 'FIX8::LoginParameters'), ('_sci', 'FIX8::sender_comp_id'), ('_sf', 'FIX8::SessionConfig *'), ('_logger', 'FIX8::Logger *'),
                                    ('_plogger', 'FIX8::Logger *'), ('_persist', 'FIX8::Persister *'), ('_next_send_seq', 'unsigned int'), ('_next_receive_seq', 'unsigned int'),
                                    ('_req_next_send_seq', 'unsigned int'), ('_req_next_receive_seq', 'unsigned int'), ('_timer', 'FIX8::Timer<FIX8::Session>'),
                                    ('_hb_processor', 'FIX8::TimerEvent<FIX8::Session>')],
                  'FIX8::LoginParameters': [('_enforce_compids', 'bool'), ('_clients', 'FIX8::Clients'), ('_login_schedule', 'FIX8::Schedule')]},
    functions=[
        dict(q='FIX8::Session::do_state_change', sig=None, cname='session_do_state_change'),
        dict(q='FIX8::Session::handle_logon', sig=None, cname='session_handle_logon'),
    ],
    postlude=POST,
    proofs=[
        dict(name='acceptor', harness='h_acceptor', properties=['C23'], solvers=['cadical', 'z3'], timeout=dict(quick=300, thorough=900), floor=8, level='proved-modular', object_bits=10),
        dict(name='initiator', harness='h_initiator', properties=['C23'], solvers=['cadical', 'z3'], timeout=dict(quick=300, thorough=900), floor=3, level='proved-modular', object_bits=10),
        dict(name='already', harness='h_already', properties=['C23'], solvers=['cadical', 'z3'], timeout=dict(quick=300, thorough=900), floor=1, level='proved-modular', object_bits=10),
    ],
    trusted_base=['ASSUMED: the inbound Logon is the ghost record its accessors return; SessionID is its three strings and operator!= is component inequality (K-sid proves that of the real operator); '
                  'the client list answers for the looked-up sender; Poco addresses compare by value; logger / persister creation, authenticate, the sequence gate (K-seq), send, stop, the schedule '
                  'and the timer are models (specs/k_logon.py); recover_seqnums is its K-send contract'],
    assumptions=['one call of handle_logon, sequential; the virtual authenticate() is a free boolean'],
)
