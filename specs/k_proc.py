"""K-proc (C19 / C20 / C16): Session::process -- the inbound path around the acceptance gate -- and Session::handle_sequence_reset
(runtime/session.cpp), bodies extracted from the clang AST.

process(): extracts MsgSeqNum from the raw text, builds the message (Message::factory), dispatches on MsgType to the handlers, then advances the
expected inbound number, persists the control record, and turns exceptions into a Reject (ordinary ones) or a shutdown (force_logoff ones).
The handlers other than handle_sequence_reset are ASSUMED models that apply the acceptance gate's proved contract (K-seq: enforce) and record
whether the application got the message; the gate model sets ghost flags `withheld` / `accepted_dup` / `in_sequence`.
Contract of one call (all session states, numbers, message types, decode outcomes, handler outcomes):
  C19  a message whose construction fails is never handed to a handler; an ordinary failure is answered by exactly one Reject and consumes the number;
       the number handed to the gate is the MsgSeqNum field of the message;
       a fatal protocol error (too low, CompID, bad sequence) shuts the session down, with a Logout;
  C20  the expected inbound number advances by exactly one for an in-sequence message, is set to NewSeqNo by a SequenceReset / GapFill,
       and does NOT advance for a withheld (too high) message nor for an accepted duplicate;
  C16  after every processed inbound message the control record equals the session numbers.
"""
PRE_STRUCTS = r'''
struct sv_m { const char *data; unsigned long size; };   /* std::string as a view: the raw inbound text, message types */
struct hdr_m { int dummy; };
struct msg_m { struct hdr_m hdr; struct sv_m msgtype; _Bool admin; };   /* the MessageBase part is the first member */
struct fseq_m { int _value; };                            /* Field<SeqNum, 36> NewSeqNo */
struct persist_m { int dummy; };
struct plog_m { int dummy; };
struct ctx_m { int dummy; };
'''
PRELUDE = r'''
#include <stdlib.h>
#define VACUITY_PROBE() __CPROVER_assert(0, "vacuity-probe")
long nondet_long(void); unsigned nondet_uint(void); _Bool nondet_bool(void); int nondet_int(void); unsigned long nondet_ulong(void);
/* exception kinds raised by models (the translated code adds EXC_<class> for its own throw expressions); class relation for the handlers -- ASSUMED table:
   every kind is a std::exception; kinds below 100 are f8Exception (MsgSequenceTooLow, InvalidMessage, ...); 100..199 Poco::Net::NetException; LogfileException is kind 90 */
#define KIND_F8_ORDINARY 50
#define KIND_F8_FATAL 51
#define KIND_LOGFILE 90
#define KIND_POCO_NET 100
#define KIND_STD 200
#define EXC_ISA_FIX8_LogfileException(k) ((k) == KIND_LOGFILE)
#define EXC_ISA_FIX8_f8Exception(k) ((k) >= 1 && (k) < 100)
#define EXC_ISA_Poco_Net_NetException(k) ((k) >= 100 && (k) < 200)
#define EXC_ISA_std_exception(k) ((k) >= 1)
extern int __exc;
/* ---- ghost: the inbound text and message ---- */
char g_raw[64]; unsigned long g_raw_size;               /* storage identity only: positions matter, bytes do not */
unsigned long g_first34;                                  /* first occurrence of the three bytes "34=" in the text (or npos) */
unsigned long g_field34;                                  /* where the MsgSeqNum field's "34=" is (after an SOH, or at the start) */
unsigned g_seq_field, g_seq_elsewhere;                    /* the number written in the field / whatever digits follow another "34=" */
struct msg_m g_msg; int g_factory_outcome;                /* 0 message, 1 null, 2 ordinary exception, 3 fatal exception */
_Bool g_possdup_ok;                                       /* the message carries PossDupFlag=Y with a plausible OrigSendingTime */
_Bool g_compid_ok;
int g_newseqno; _Bool g_has_newseqno;
/* ---- ghost: what happened ---- */
int g_handler; unsigned g_handler_seq; _Bool g_delivered, g_withheld, g_accepted_dup, g_in_sequence, g_gate_ran;
int g_rejects; _Bool g_stopped; int g_logouts; _Bool g_logout_no_increment; int g_resend_requests;
int g_put_ctrl_calls; unsigned g_put_ctrl_send, g_put_ctrl_recv; _Bool g_deleted;
unsigned g_handler_outcome;
enum { H_NONE, H_APP, H_HEARTBEAT, H_TESTREQ, H_RESEND, H_REJECT, H_SEQRESET, H_LOGOUT, H_LOGON };
/* ---- ASSUMED models: strings ---- */
unsigned long sv_find(const struct sv_m *s, const char *needle, unsigned long pos)
{
  /* the bare three bytes "34=" first occur at g_first34 (possibly inside an earlier value); preceded by the field separator they first occur where the MsgSeqNum field starts */
  if (needle[0] == '3' && needle[1] == '4' && needle[2] == '=' && needle[3] == 0) return g_first34;
  if (needle[0] == 1 && needle[1] == '3' && needle[2] == '4' && needle[3] == '=' && needle[4] == 0) return g_first34 == (unsigned long)-1 ? g_first34 : g_field34 - 1;
  __CPROVER_assert(0, "model: Session::process searches for the MsgSeqNum tag"); return (unsigned long)-1;
}
const char *sv_data(const struct sv_m *s) { return s->data; }
unsigned long sv_size(const struct sv_m *s) { return s->size; }
const char *sv_at(const struct sv_m *s, unsigned long i) { __CPROVER_assert(i < s->size, "model: operator[] inside the string"); return &s->data[i]; }
_Bool sv_ne(const struct sv_m *a, const struct sv_m *b) { return a->size != b->size || a->data[0] != b->data[0]; }      /* one-character message types compared here */
const char g_hb_text[2] = "0", g_sr_text[2] = "4";
struct sv_m g_str_heartbeat = { g_hb_text, 1 }, g_str_seqreset = { g_sr_text, 1 };
unsigned atoi_model(const char *p, char term) { return p == g_raw + g_field34 + 3 ? g_seq_field : g_seq_elsewhere; }
/* ---- ASSUMED models: message construction ---- */
struct msg_m *msg_factory(const struct ctx_m *ctx, const struct sv_m *from, _Bool no_chksum, _Bool permissive)
{
  if (g_factory_outcome == 1) return 0;
  if (g_factory_outcome == 2) { __exc = KIND_F8_ORDINARY; return 0; }
  if (g_factory_outcome == 3) { __exc = KIND_F8_FATAL; return 0; }
  return &g_msg;
}
const struct sv_m *msg_get_msgtype(const struct msg_m *m) { return &m->msgtype; }
const struct sv_m *hdr_get_msgtype(const struct hdr_m *h) { return &((const struct msg_m *)h)->msgtype; }
_Bool msg_is_admin(const struct msg_m *m) { return m->admin; }
void __verif_delete(void *p) { if (p) g_deleted = 1; }
_Bool plog_has_flag(struct plog_m *l, unsigned f) { return nondet_bool(); }
_Bool ses_plog(void *self, const struct sv_m *what, unsigned lev, unsigned dir) { return 1; }
/* ---- the acceptance gate: K-seq's proved contract of Session::enforce as a model (returns true = do not deliver) ---- */
struct FIX8_Session;
static _Bool gate(struct FIX8_Session *s, unsigned seqnum, const struct msg_m *msg);
_Bool ses_enforce(struct FIX8_Session *s, unsigned seqnum, const struct msg_m *msg) { return gate(s, seqnum, msg); }
static void note_handler(int h, unsigned seqnum) { __CPROVER_assert(g_handler == H_NONE, "C19.dispatch.at_most_one_handler_per_message"); g_handler = h; g_handler_seq = seqnum; }
_Bool ses_handle_admin(struct FIX8_Session *s, unsigned seqnum, const struct msg_m *m) { return nondet_bool(); }
_Bool g_activation_ok;
_Bool ses_activation_check(struct FIX8_Session *s, unsigned seqnum, const struct msg_m *m) { return g_activation_ok; }
_Bool ses_handle_application(struct FIX8_Session *s, unsigned seqnum, const struct msg_m **m)
{ note_handler(H_APP, seqnum); _Bool fails = gate(s, seqnum, *m); if (__exc) return 0; if (!fails) g_delivered = 1; return fails || nondet_bool(); }
#define ADMIN_HANDLER(name, H) _Bool name(struct FIX8_Session *s, unsigned seqnum, const struct msg_m *m) { note_handler(H, seqnum); gate(s, seqnum, m); if (__exc) return 0; return nondet_bool(); }
ADMIN_HANDLER(ses_handle_heartbeat, H_HEARTBEAT)
ADMIN_HANDLER(ses_handle_test_request, H_TESTREQ)
ADMIN_HANDLER(ses_handle_resend_request, H_RESEND)
ADMIN_HANDLER(ses_handle_reject, H_REJECT)
ADMIN_HANDLER(ses_handle_logout, H_LOGOUT)
_Bool ses_handle_logon(struct FIX8_Session *s, unsigned seqnum, const struct msg_m *m);   /* below: may set the numbers (acceptor) */
_Bool ses_handle_outbound_reject(struct FIX8_Session *s, unsigned seqnum, const struct msg_m *m, const char *why) { if (g_rejects < 100) g_rejects++; return 1; }
void ses_stop(struct FIX8_Session *s, _Bool clear_timer) { g_stopped = 1; }
struct msg_m g_logout_msg;
struct msg_m *ses_generate_logout(struct FIX8_Session *s, const char *why) { return &g_logout_msg; }
_Bool ses_send(struct FIX8_Session *s, struct msg_m *m, _Bool destroy, unsigned custom_seqnum, _Bool no_increment)
{ __CPROVER_assert(m == &g_logout_msg, "model: process() itself sends only the Logout it generated"); if (g_logouts < 100) g_logouts++; g_logout_no_increment = no_increment; return 1; }
void ses_state_change(void *self, unsigned before, unsigned after) { }
unsigned atomic_exchange_u(unsigned *a, unsigned v, int mo) { unsigned o = *a; *a = v; return o; }
_Bool persist_put_ctrl(struct persist_m *p, unsigned s, unsigned r) { g_put_ctrl_calls++; g_put_ctrl_send = s; g_put_ctrl_recv = r; return 1; }
unsigned conn_get_pmodel(void *c) { return nondet_uint() % 3; }
unsigned control_and(const unsigned *c, unsigned bit) { return *c & (1u << bit); }           /* ebitset_r::operator&(bit) */
const char *exc_what(const int *e) { return 0; }
_Bool exc_force_logoff(const int *e) { return *e == KIND_F8_FATAL || *e == EXC_FIX8_MsgSequenceTooLow; }   /* ASSUMED table: f8Exception(true) constructors; InvalidMessage is ordinary */
void fseq_ctor0(struct fseq_m *f) { f->_value = 0; }
_Bool msg_get_newseqno(const struct hdr_m *m, struct fseq_m *to) { if (g_has_newseqno) to->_value = g_newseqno; return g_has_newseqno; }
const int *fseq_call(const struct fseq_m *f) { return &f->_value; }
'''
SES = 'FIX8::Session'
POST_GATE = r'''
/* the gate model needs the session struct, so it follows the generated declarations */
static _Bool gate(struct FIX8_Session *s, unsigned seqnum, const struct msg_m *msg)
{
  g_gate_ran = 1;
  if (!(s->_state == E_FIX8_States_SessionStates_st_logon_received || s->_state == E_FIX8_States_SessionStates_st_continuous || s->_state == E_FIX8_States_SessionStates_st_resend_request_sent
        || s->_state == E_FIX8_States_SessionStates_st_test_request_sent || s->_state == E_FIX8_States_SessionStates_st_logoff_sent || s->_state == E_FIX8_States_SessionStates_st_sequence_reset_sent
        || s->_state == E_FIX8_States_SessionStates_st_resend_request_received || s->_state == E_FIX8_States_SessionStates_st_sequence_reset_received))
    return 1;                                                                  /* not established: nothing passes (K-seq: enforce) */
  if (s->_state != E_FIX8_States_SessionStates_st_logon_received && !g_compid_ok) { __exc = KIND_F8_FATAL; return 1; }
  if (msg->msgtype.size == 1 && msg->msgtype.data[0] == '4') return 1;        /* SequenceReset: no sequence check, never delivered */
  if (seqnum > s->_next_receive_seq)
  {
    if (s->_state == E_FIX8_States_SessionStates_st_continuous) { if (g_resend_requests < 100) g_resend_requests++; s->_state = E_FIX8_States_SessionStates_st_resend_request_sent; g_withheld = 1; return 1; }
    __exc = KIND_F8_FATAL; return 1;                                            /* the two C20 known findings of K-seq live here; not re-litigated in this unit */
  }
  if (seqnum < s->_next_receive_seq)
  {
    if (!g_possdup_ok) { __exc = KIND_F8_FATAL; return 1; }
    g_accepted_dup = 1; return 0;
  }
  g_in_sequence = 1; return 0;
}
_Bool ses_handle_logon(struct FIX8_Session *s, unsigned seqnum, const struct msg_m *m)
{ note_handler(H_LOGON, seqnum); if (nondet_bool()) { s->_next_receive_seq = nondet_uint(); s->_next_send_seq = nondet_uint(); } gate(s, seqnum, m); if (__exc) return 0; return nondet_bool(); }
'''
HARNESS = r'''
static void setup(struct FIX8_Session *s, struct persist_m *per, struct plog_m *pl, struct sv_m *from)
{
  s->_state = nondet_uint(); __CPROVER_assume(s->_state < K_st_num_states);
  s->_next_receive_seq = nondet_uint(); s->_next_send_seq = nondet_uint();
  __CPROVER_assume(s->_next_receive_seq >= 1 && s->_next_receive_seq < 4000000000u && s->_next_send_seq >= 1 && s->_next_send_seq < 4000000000u);
  s->_control = nondet_uint() & ~6u;                                        /* the two print flags off (console output only) */
  s->_persist = nondet_bool() ? per : 0; s->_plogger = nondet_bool() ? pl : 0; s->_connection = 0;
  s->_loginParameters._no_chksum_flag = nondet_bool(); s->_loginParameters._permissive_mode_flag = nondet_bool();
  s->_loginParameters._silent_disconnect = nondet_bool(); s->_loginParameters._reliable = nondet_bool();
  g_raw_size = nondet_ulong(); __CPROVER_assume(g_raw_size >= 20 && g_raw_size <= 40);
  from->data = g_raw; from->size = g_raw_size;
  g_field34 = nondet_ulong(); g_first34 = nondet_ulong();
  __CPROVER_assume(g_field34 >= 1 && g_field34 < 36 && g_field34 + 3 < g_raw_size && (g_first34 == (unsigned long)-1 || g_first34 <= g_field34));   /* positions inside the text; the field's own "34=" is an occurrence */
  g_seq_field = nondet_uint(); g_seq_elsewhere = nondet_uint(); __CPROVER_assume(g_seq_field >= 1 && g_seq_field < 4000000000u);
  g_factory_outcome = nondet_int(); __CPROVER_assume(g_factory_outcome >= 0 && g_factory_outcome <= 3);
  g_msg.admin = nondet_bool(); g_possdup_ok = nondet_bool(); g_compid_ok = nondet_bool(); g_has_newseqno = nondet_bool(); g_newseqno = nondet_int();
  g_activation_ok = nondet_bool();
  g_handler = H_NONE; g_delivered = g_withheld = g_accepted_dup = g_in_sequence = g_gate_ran = 0; g_rejects = 0; g_stopped = 0; g_logouts = 0; g_resend_requests = 0;
  g_put_ctrl_calls = 0; g_deleted = 0; __exc = 0;
}
static char g_mt[2];
static void msgtype1(char c) { g_mt[0] = c; g_mt[1] = 0; g_msg.msgtype.data = g_mt; g_msg.msgtype.size = 1; }
/* the number handed to the handlers */
void h_seqnum(void)
{
  struct FIX8_Session s; struct persist_m per; struct plog_m pl; struct sv_m from; setup(&s, &per, &pl, &from);
  __CPROVER_assume(g_field34 + 3 < g_raw_size);                              /* the message has a MsgSeqNum field */
  __CPROVER_assume(g_first34 <= g_field34);                                   /* the field's own "34=" is an occurrence of these three bytes */
  msgtype1(nondet_bool() ? 'D' : '0'); __CPROVER_assume(g_factory_outcome == 0);
  _Bool r = session_process(&s, &from);
  __CPROVER_assert(g_handler == H_NONE || g_first34 != g_field34 || g_handler_seq == g_seq_field, "C19.seqnum.handlers_get_the_msgseqnum_field_when_it_is_the_first_occurrence_of_34=");
  __CPROVER_assert(g_handler == H_NONE || g_handler_seq == g_seq_field, "C19.seqnum.handlers_get_the_msgseqnum_field_also_when_an_earlier_value_contains_34=");
  VACUITY_PROBE();
}
/* a message that cannot be constructed */
void h_decode_failure(void)
{
  struct FIX8_Session s; struct persist_m per; struct plog_m pl; struct sv_m from; setup(&s, &per, &pl, &from);
  __CPROVER_assume(g_first34 == (unsigned long)-1 || (g_first34 == g_field34 && g_field34 + 3 < g_raw_size));
  __CPROVER_assume(g_factory_outcome != 0 || g_first34 == (unsigned long)-1);
  msgtype1('D');
  unsigned e0 = s._next_receive_seq, st0 = s._state;
  _Bool r = session_process(&s, &from);
  _Bool fatal = g_first34 != (unsigned long)-1 && g_factory_outcome == 3;
  _Bool ordinary = g_first34 == (unsigned long)-1 || g_factory_outcome == 2;
  __CPROVER_assert(g_handler == H_NONE && !g_delivered && !g_gate_ran, "C19.decode_failure.no_handler_sees_the_message");
  __CPROVER_assert(!ordinary || (g_rejects == 1 && r && s._next_receive_seq == e0 + 1 && !g_stopped), "C19.decode_failure.ordinary_failure_is_answered_with_one_reject_and_consumes_the_number");
  __CPROVER_assert(ordinary || g_rejects == 0, "C19.decode_failure.no_reject_otherwise");
  __CPROVER_assert(!fatal || __exc || (g_stopped && !r), "C19.decode_failure.failure_that_forces_logout_stops_the_session");
  __CPROVER_assert(!(g_factory_outcome == 1 && g_first34 != (unsigned long)-1) || (!r && s._next_receive_seq == e0 && !g_stopped), "C19.decode_failure.no_message_built_returns_false_untouched");
  VACUITY_PROBE();
}
/* an application or ordinary admin message that was constructed */
void h_epilogue(void)
{
  struct FIX8_Session s; struct persist_m per; struct plog_m pl; struct sv_m from; setup(&s, &per, &pl, &from);
  __CPROVER_assume(g_first34 == g_field34 && g_field34 + 3 < g_raw_size && g_factory_outcome == 0);
  char c = nondet_bool() ? 'D' : nondet_bool() ? '0' : nondet_bool() ? '1' : nondet_bool() ? '2' : nondet_bool() ? '3' : '5';
  msgtype1(c); g_msg.admin = (c != 'D');
  unsigned e0 = s._next_receive_seq, ns0 = s._next_send_seq, st0 = s._state;
  _Bool r = session_process(&s, &from);
  _Bool normal = !__exc && !g_stopped && g_rejects == 0;                      /* no handler raised anything */
  __CPROVER_assert(!normal || g_handler == (c == 'D' ? (g_activation_ok ? H_APP : H_NONE) : c == '0' ? H_HEARTBEAT : c == '1' ? H_TESTREQ : c == '2' ? H_RESEND : c == '3' ? H_REJECT : H_LOGOUT),
                   "C19.dispatch.message_type_selects_the_handler");
  __CPROVER_assert(g_handler == H_NONE || g_handler_seq == g_seq_field, "C19.dispatch.handler_gets_the_extracted_number");
  __CPROVER_assert(!g_delivered || g_in_sequence || g_accepted_dup, "C19.delivery_only_through_the_gate");
  __CPROVER_assert(!(normal && g_in_sequence) || s._next_receive_seq == e0 + 1, "C20.expected_number_advances_by_one_for_an_in_sequence_message");
  __CPROVER_assert(!(normal && g_withheld) || s._next_receive_seq == e0, "C20.expected_number_does_not_advance_for_a_withheld_message");
  __CPROVER_assert(!(normal && g_accepted_dup) || s._next_receive_seq == e0, "C20.expected_number_does_not_advance_for_an_accepted_duplicate");
  __CPROVER_assert(!normal || s._next_send_seq == ns0, "C16.inbound.processing_does_not_touch_the_outbound_number");
  __CPROVER_assert(!(normal && s._persist) || (g_put_ctrl_calls == 1 && g_put_ctrl_send == s._next_send_seq && g_put_ctrl_recv == s._next_receive_seq), "C16.inbound.control_record_equals_session_numbers_after_a_processed_message");
  __CPROVER_assert(!normal || g_deleted, "C19.message_object_released");
  VACUITY_PROBE();
}
/* a fatal protocol error raised by the gate */
void h_fatal(void)
{
  struct FIX8_Session s; struct persist_m per; struct plog_m pl; struct sv_m from; setup(&s, &per, &pl, &from);
  __CPROVER_assume(g_first34 == g_field34 && g_field34 + 3 < g_raw_size && g_factory_outcome == 0);
  msgtype1('D'); g_msg.admin = 0;
  __CPROVER_assume(s._state == E_FIX8_States_SessionStates_st_continuous || s._state == E_FIX8_States_SessionStates_st_logon_received);
  __CPROVER_assume(g_seq_field < s._next_receive_seq && !g_possdup_ok && g_compid_ok);        /* too low, not a duplicate */
  __CPROVER_assume(!s._loginParameters._reliable && !s._loginParameters._silent_disconnect && g_activation_ok);
  unsigned st0 = s._state;
  _Bool r = session_process(&s, &from);
  __CPROVER_assert(!g_delivered, "C19.too_low.not_delivered");
  __CPROVER_assert(g_stopped && !r, "C19.too_low.session_is_shut_down");
  __CPROVER_assert(st0 != E_FIX8_States_SessionStates_st_logon_received || (g_logouts == 1 && g_logout_no_increment), "C19.too_low.logout_sent_during_logon");
  __CPROVER_assert(st0 != E_FIX8_States_SessionStates_st_continuous || g_logouts == 1, "C19.too_low.logout_sent_in_normal_operation");
  VACUITY_PROBE();
}
/* SequenceReset / GapFill */
void h_seqreset(void)
{
  struct FIX8_Session s; struct persist_m per; struct plog_m pl; struct sv_m from; setup(&s, &per, &pl, &from);
  __CPROVER_assume(g_first34 == g_field34 && g_field34 + 3 < g_raw_size && g_factory_outcome == 0);
  msgtype1('4'); g_msg.admin = 1;
  __CPROVER_assume(s._state == E_FIX8_States_SessionStates_st_continuous || s._state == E_FIX8_States_SessionStates_st_resend_request_sent);
  __CPROVER_assume(g_compid_ok && g_has_newseqno && g_newseqno >= 1 && g_newseqno < 2000000000 && s._next_receive_seq < 2000000000u);   /* the handler compares in int */
  unsigned e0 = s._next_receive_seq, st0 = s._state;
  _Bool r = session_process(&s, &from);
  _Bool normal = !__exc && !g_stopped && g_rejects == 0;
  __CPROVER_assert(!g_delivered, "C20.seqreset.never_delivered_to_the_application");
  __CPROVER_assert(!((unsigned)g_newseqno >= e0) || (normal && s._next_receive_seq == (unsigned)g_newseqno), "C20.seqreset.expected_number_becomes_newseqno");
  __CPROVER_assert(!((unsigned)g_newseqno >= e0) || s._state == E_FIX8_States_SessionStates_st_continuous, "C20.seqreset.recovery_state_returns_to_normal_operation");
  __CPROVER_assert(!((unsigned)g_newseqno < e0) || s._next_receive_seq == e0, "C20.seqreset.newseqno_below_expected_never_lowers_the_expected_number");
  __CPROVER_assert(!(normal && s._persist) || (g_put_ctrl_calls == 1 && g_put_ctrl_recv == s._next_receive_seq), "C16.inbound.control_record_after_a_sequence_reset");
  VACUITY_PROBE();
}
'''

def _split(text):
    """one copy of each multi-property harness per property: assertion lines are kept only when their label starts with that property's id"""
    import re
    out = []
    for chunk in re.split(r'(?m)^(?=/\* |static |void h_)', text):
        m = re.search(r'(?m)^void (h_\w+)\(void\)', chunk)
        props = sorted(set(re.findall(r'__CPROVER_assert\(.*"(C\d\d)\.', chunk)))
        if not m or len(props) < 2:
            out.append(chunk)
            continue
        for p in props:
            lines = []
            for ln in chunk.split('\n'):
                a = re.search(r'__CPROVER_assert\(.*"(C\d\d)\.', ln)
                if a and a.group(1) != p:
                    continue
                lines.append(ln.replace('void %s(void)' % m.group(1), 'void %s_%s(void)' % (m.group(1), p.lower())))
            out.append('\n'.join(lines))
    return ''.join(out)


UNIT = dict(
    name='k_proc', tu='tu/rt_session.cpp', no_follow=True,
    pre_structs=PRE_STRUCTS,
    probe={'K_MsgByte_HEARTBEAT': 'FIX8::Common_MsgByte_HEARTBEAT', 'K_MsgByte_TEST_REQUEST': 'FIX8::Common_MsgByte_TEST_REQUEST', 'K_MsgByte_RESEND_REQUEST': 'FIX8::Common_MsgByte_RESEND_REQUEST', 'K_MsgByte_REJECT': 'FIX8::Common_MsgByte_REJECT', 'K_MsgByte_SEQUENCE_RESET': 'FIX8::Common_MsgByte_SEQUENCE_RESET', 'K_MsgByte_LOGOUT': 'FIX8::Common_MsgByte_LOGOUT', 'K_MsgByte_LOGON': 'FIX8::Common_MsgByte_LOGON',
           'K_st_num_states': 'FIX8::States::st_num_states', 'E_FIX8_States_SessionStates_st_none': 'FIX8::States::st_none',
           'E_FIX8_States_SessionStates_st_continuous': 'FIX8::States::st_continuous', 'E_FIX8_States_SessionStates_st_resend_request_sent': 'FIX8::States::st_resend_request_sent',
           'E_FIX8_States_SessionStates_st_logon_received': 'FIX8::States::st_logon_received', 'E_FIX8_States_SessionStates_st_session_terminated': 'FIX8::States::st_session_terminated',
           'E_FIX8_States_SessionStates_st_wait_for_logon': 'FIX8::States::st_wait_for_logon', 'E_FIX8_States_SessionStates_st_not_logged_in': 'FIX8::States::st_not_logged_in',
           'E_FIX8_States_SessionStates_st_logon_sent': 'FIX8::States::st_logon_sent', 'E_FIX8_States_SessionStates_st_test_request_sent': 'FIX8::States::st_test_request_sent',
           'E_FIX8_States_SessionStates_st_logoff_sent': 'FIX8::States::st_logoff_sent', 'E_FIX8_States_SessionStates_st_sequence_reset_sent': 'FIX8::States::st_sequence_reset_sent',
           'E_FIX8_States_SessionStates_st_resend_request_received': 'FIX8::States::st_resend_request_received',
           'E_FIX8_States_SessionStates_st_sequence_reset_received': 'FIX8::States::st_sequence_reset_received'},
    emit=dict(
        exceptions=True, catch_dispatch=True,
        base_cast={('struct msg_m', 'struct hdr_m'): '((struct hdr_m *)(%s))'},
        may_throw={'msg_factory': True, 'ses_handle_application': True, 'ses_handle_heartbeat': True, 'ses_handle_test_request': True, 'ses_handle_resend_request': True, 'ses_handle_reject': True,
                   'ses_handle_logout': True, 'ses_handle_logon': True, 'session_handle_sequence_reset': True, 'ses_enforce': True, 'ses_handle_admin': True},
        pod=[r'std::basic_string<char>'],
        type_alias=[(r'std::basic_string<char>::const_reference', 'const char &'), (r'std::basic_string<char>::reference', 'char &')],
        constants={'Common_MsgType_HEARTBEAT': 'g_str_heartbeat', 'Common_MsgType_SEQUENCE_RESET': 'g_str_seqreset', 'default_field_separator': "((char)1)", 'npos': '((unsigned long)-1)',
                   'Common_MsgByte_HEARTBEAT': '((char)K_MsgByte_HEARTBEAT)', 'Common_MsgByte_TEST_REQUEST': '((char)K_MsgByte_TEST_REQUEST)', 'Common_MsgByte_RESEND_REQUEST': '((char)K_MsgByte_RESEND_REQUEST)', 'Common_MsgByte_REJECT': '((char)K_MsgByte_REJECT)', 'Common_MsgByte_SEQUENCE_RESET': '((char)K_MsgByte_SEQUENCE_RESET)', 'Common_MsgByte_LOGOUT': '((char)K_MsgByte_LOGOUT)', 'Common_MsgByte_LOGON': '((char)K_MsgByte_LOGON)'},
        default_args={'ses_plog': {2: '0u'}, 'ses_stop': {0: '1'}, 'ses_send': {1: '1', 2: '0u', 3: '0'}, 'atomic_exchange_u': {1: '5'}, 'sv_find': {1: '0ul'}},
        type_map=[(r'(std::basic_string<char>|std::string|FIX8::f8String)', 'struct sv_m'), (r'FIX8::States::SessionStates', 'unsigned int'),
                  (r'FIX8::f8_atomic<unsigned int>|std::atomic<unsigned int>|std::__atomic_base<unsigned int>', 'unsigned int'),
                  (r'FIX8::f8_atomic<FIX8::States::SessionStates>|std::atomic<FIX8::States::SessionStates>', 'unsigned int'),
                  (r'FIX8::ebitset_r<FIX8::Session::SessionControl>', 'unsigned int'), (r'FIX8::Session::SessionControl', 'unsigned int'), (r'FIX8::Message', 'struct msg_m'), (r'FIX8::MessageBase', 'struct hdr_m'), (r'FIX8::F8MetaCntx', 'struct ctx_m'),
                  (r'FIX8::new_seq_num|FIX8::Field<.*, 36>', 'struct fseq_m'),
                  (r'FIX8::Connection', 'void'), (r'FIX8::Persister', 'struct persist_m'), (r'FIX8::Logger', 'struct plog_m'), (r'FIX8::Logger::Level', 'unsigned int'),
                  (r'FIX8::Logger::Flags', 'unsigned int'), (r'FIX8::ProcessModel', 'unsigned int'),
                  (r'FIX8::f8Exception|FIX8::LogfileException|Poco::Net::NetException|std::exception', 'int'), (r'FIX8::RealmBase', 'void')],
        lazy_structs=[r'FIX8::Session', r'FIX8::LoginParameters'],
        calls_rx=[(r'FIX8::Field<.*, 36>::Field|FIX8::new_seq_num::Field', 'fseq_ctor0'), (r'(FIX8::Field<.*, 36>|FIX8::new_seq_num)::operator\(\)', dict(c='fseq_call', sig='const int &() const')),
                  (r'FIX8::fast_atoi', 'atoi_model')],
        calls={
            'std::basic_string<char>::find': 'sv_find', 'std::basic_string<char>::data': 'sv_data', 'std::basic_string<char>::size': 'sv_size',
            'std::basic_string<char>::operator[]': dict(c='sv_at', sig='const char &(unsigned long) const'),
            'FIX8::ebitset_r<FIX8::Session::SessionControl>::operator&': 'control_and',
            'operator!=': 'sv_ne', 'fast_atoi': 'atoi_model', 'factory': 'msg_factory',
            'FIX8::Message::factory': 'msg_factory', 'FIX8::Message::get_msgtype': dict(c='msg_get_msgtype', sig='const FIX8::f8String &() const'),
            'FIX8::MessageBase::get_msgtype': dict(c='hdr_get_msgtype', sig='const FIX8::f8String &() const'), 'FIX8::Message::is_admin': 'msg_is_admin',
            'FIX8::MessageBase::get': dict(c='msg_get_newseqno', sig='bool (FIX8::new_seq_num &) const'),
            'FIX8::Logger::has_flag': 'plog_has_flag', SES + '::plog': dict(c='ses_plog', sig='bool (const std::string &, FIX8::Logger::Level, const unsigned int) const'),
            SES + '::handle_admin': 'ses_handle_admin', SES + '::activation_check': 'ses_activation_check',
            SES + '::handle_application': dict(c='ses_handle_application', sig='bool (const unsigned int, const FIX8::Message *&)'),
            SES + '::handle_heartbeat': 'ses_handle_heartbeat', SES + '::handle_test_request': 'ses_handle_test_request', SES + '::handle_resend_request': 'ses_handle_resend_request',
            SES + '::handle_reject': 'ses_handle_reject', SES + '::handle_sequence_reset': 'session_handle_sequence_reset', SES + '::handle_logout': 'ses_handle_logout',
            SES + '::handle_logon': 'ses_handle_logon', SES + '::update_persist_seqnums': 'session_update_persist_seqnums', SES + '::stop': 'ses_stop',
            SES + '::handle_outbound_reject': 'ses_handle_outbound_reject', SES + '::generate_logout': 'ses_generate_logout',
            SES + '::send': dict(c='ses_send', sig='bool (FIX8::Message *, bool, unsigned int, bool)'), SES + '::do_state_change': 'session_do_state_change',
            SES + '::state_change': 'ses_state_change', SES + '::enforce': 'ses_enforce',
            'FIX8::f8Exception::what': 'exc_what', 'FIX8::f8Exception::force_logoff': 'exc_force_logoff', 'std::exception::what': 'exc_what', 'Poco::Exception::what': 'exc_what',
            'FIX8::Persister::put': dict(c='persist_put_ctrl', sig='bool (const unsigned int, const unsigned int)'), 'FIX8::Connection::get_pmodel': 'conn_get_pmodel',
            'std::atomic<FIX8::States::SessionStates>::exchange': 'atomic_exchange_u', 'FIX8::f8_atomic<FIX8::States::SessionStates>::exchange': 'atomic_exchange_u',
        }),
    prelude=PRELUDE,
    force_fields={'FIX8::Session': [('_state', 'FIX8::States::SessionStates'), ('_next_receive_seq', 'unsigned int'), ('_next_send_seq', 'unsigned int'),
                                    ('_loginParameters', 'FIX8::LoginParameters'), ('_persist', 'FIX8::Persister *'), ('_plogger', 'FIX8::Logger *'), ('_connection', 'FIX8::Connection *'), ('_control', 'FIX8::ebitset_r<FIX8::Session::SessionControl>')],
                  'FIX8::LoginParameters': [('_no_chksum_flag', 'bool'), ('_permissive_mode_flag', 'bool'), ('_silent_disconnect', 'bool'), ('_reliable', 'bool')]},
    functions=[
        dict(q='FIX8::Session::do_state_change', sig=None, cname='session_do_state_change'),
        dict(q='FIX8::Session::update_persist_seqnums', sig=None, cname='session_update_persist_seqnums'),
        dict(q='FIX8::Session::handle_sequence_reset', sig=None, cname='session_handle_sequence_reset'),
        dict(q='FIX8::Session::process', sig=None, cname='session_process'),
    ],
    postlude=POST_GATE + _split(HARNESS),
    proofs=[
        dict(name='seqnum', harness='h_seqnum', properties=['C19'], solvers=['cadical', 'z3'], timeout=dict(quick=300, thorough=900), floor=2, level='proved-modular', object_bits=10),
        dict(name='decode_failure', harness='h_decode_failure', properties=['C19'], solvers=['cadical', 'z3'], timeout=dict(quick=300, thorough=900), floor=4, level='proved-modular', object_bits=10),
        dict(name='epilogue_c19', harness='h_epilogue_c19', properties=['C19'], solvers=['cadical', 'z3'], timeout=dict(quick=300, thorough=900), floor=4, level='proved-modular', object_bits=10),
        dict(name='epilogue_c20', harness='h_epilogue_c20', properties=['C20'], solvers=['cadical', 'z3'], timeout=dict(quick=300, thorough=900), floor=3, level='proved-modular', object_bits=10),
        dict(name='epilogue_c16', harness='h_epilogue_c16', properties=['C16'], solvers=['cadical', 'z3'], timeout=dict(quick=300, thorough=900), floor=2, level='proved-modular', object_bits=10),
        dict(name='fatal', harness='h_fatal', properties=['C19'], solvers=['cadical', 'z3'], timeout=dict(quick=300, thorough=900), floor=3, level='proved-modular', object_bits=10),
        dict(name='seqreset_c20', harness='h_seqreset_c20', properties=['C20'], solvers=['cadical', 'z3'], timeout=dict(quick=300, thorough=900), floor=4, level='proved-modular', object_bits=10),
        dict(name='seqreset_c16', harness='h_seqreset_c16', properties=['C16'], solvers=['cadical', 'z3'], timeout=dict(quick=300, thorough=900), floor=1, level='proved-modular', object_bits=10),
    ],
    trusted_base=['ASSUMED: the handlers other than handle_sequence_reset apply the acceptance gate exactly as K-seq proves Session::enforce does (gate model in specs/k_proc.py) and otherwise do not '
                  'touch the expected inbound number (handle_logon may set both numbers before the gate); std::string find / data / size / operator[]; fast_atoi returns the number written at the '
                  'position it is given; Message::factory either yields a message, yields nothing, or raises; the class relation of exception kinds (table in the prelude); stop(), send(), '
                  'handle_outbound_reject and the persister log what they are asked to do'],
    assumptions=['one call of process, sequential; console printing flags off; message types are the one-character ones plus one application type'],
)
