"""K-sid (C23, identity conjunct): SessionID::operator== / operator!= / same_*_comp_id (session.hpp).

String model "identity": a CompID string is an integer id and std::string equality is id equality (ASSUMED: operator==/!= on std::string
are content equality / its negation; two equal ids = equal content).  Field<f8String, tag>::operator()() is translated from its real body.
"""
PRELUDE = r'''
#define VACUITY_PROBE() __CPROVER_assert(0, "vacuity-probe")
long nondet_long(void); _Bool nondet_bool(void);
/* ASSUMED: std::string comparison = content equality; content is the id */
_Bool str_eq(const long *a, const long *b) { return *a == *b; }
_Bool str_ne(const long *a, const long *b) { return *a != *b; }
'''
SID = 'struct FIX8_SessionID'
POST = r'''
static void mk(%(SID)s *s) { s->_beginString._value = nondet_long(); s->_senderCompID._value = nondet_long(); s->_targetCompID._value = nondet_long(); s->_id = nondet_long(); }
/* identities compare equal exactly when both CompIDs are equal, and unequal exactly when they are not equal */
void h_sid_eq(void)
{
  %(SID)s a, b; mk(&a); mk(&b);
  _Bool same_obj = nondet_bool();
  %(SID)s *pb = same_obj ? &a : &b;
  _Bool spec_eq = pb->_senderCompID._value == a._senderCompID._value && pb->_targetCompID._value == a._targetCompID._value;
  _Bool eq = sid_eq(&a, pb);
  _Bool ne = sid_ne(&a, pb);
  __CPROVER_assert(eq == spec_eq, "C23.sid.eq_is_compid_equality");
  __CPROVER_assert(ne == !eq, "C23.sid.ne_is_not_eq");
  __CPROVER_assert(!same_obj || (eq && !ne), "C23.sid.reflexive");
  VACUITY_PROBE();
}
/* the CompID cross-checks used by compid_check / handle_logon */
void h_sid_same(void)
{
  %(SID)s a; mk(&a);
  struct FIX8_Field_std_basic_string_char_56 t; t._value = nondet_long();
  struct FIX8_Field_std_basic_string_char_49 s; s._value = nondet_long();
  __CPROVER_assert(sid_same_sender(&a, &t) == (t._value == a._senderCompID._value), "C23.sid.same_sender_comp_id");
  __CPROVER_assert(sid_same_target(&a, &s) == (s._value == a._targetCompID._value), "C23.sid.same_target_comp_id");
  __CPROVER_assert(sid_same_side_target(&a, &t) == (t._value == a._targetCompID._value), "C23.sid.same_side_target_comp_id");
  __CPROVER_assert(sid_same_side_sender(&a, &s) == (s._value == a._senderCompID._value), "C23.sid.same_side_sender_comp_id");
  VACUITY_PROBE();
}
''' % dict(SID=SID)

UNIT = dict(
    name='k_sid', tu='tu/core.cpp', no_follow=True,
    force_fields={'FIX8::SessionID': [('_beginString', 'FIX8::Field<std::basic_string<char>, 8>'), ('_senderCompID', 'FIX8::Field<std::basic_string<char>, 49>'),
                                      ('_targetCompID', 'FIX8::Field<std::basic_string<char>, 56>'), ('_id', 'std::basic_string<char>')],
                  'FIX8::Field<std::basic_string<char>, 8>': [('_value', 'std::basic_string<char>')]},
    emit=dict(
        pod=[r'std::basic_string<char>'],
        type_map=[(r'(std::basic_string<char>|std::string|FIX8::f8String)', 'long')],
        type_alias=[(r'FIX8::(begin_string|sender_comp_id|target_comp_id)\b', None)],
        lazy_structs=[r'FIX8::SessionID', r'FIX8::Field<.*>'],
        calls={'operator==': 'str_eq', 'operator!=': 'str_ne',
               'FIX8::Field<std::basic_string<char>, 49>::operator()': 'field49_get', 'FIX8::Field<std::basic_string<char>, 56>::operator()': 'field56_get'}),
    prelude=PRELUDE,
    functions=[
        dict(q='FIX8::Field::operator()', filter='FIX8::Field', mangled='_ZNK4FIX85FieldINSt7__cxx1112basic_stringIcSt11char_traitsIcESaIcEEELt49EEclEv', cname='field49_get'),
        dict(q='FIX8::Field::operator()', filter='FIX8::Field', mangled='_ZNK4FIX85FieldINSt7__cxx1112basic_stringIcSt11char_traitsIcESaIcEEELt56EEclEv', cname='field56_get'),
        dict(q='FIX8::SessionID::operator==', sig=None, cname='sid_eq'),
        dict(q='FIX8::SessionID::operator!=', sig=None, cname='sid_ne'),
        dict(q='FIX8::SessionID::same_sender_comp_id', sig=None, cname='sid_same_sender'),
        dict(q='FIX8::SessionID::same_target_comp_id', sig=None, cname='sid_same_target'),
        dict(q='FIX8::SessionID::same_side_target_comp_id', sig=None, cname='sid_same_side_target'),
        dict(q='FIX8::SessionID::same_side_sender_comp_id', sig=None, cname='sid_same_side_sender'),
    ],
    postlude=POST,
    proofs=[
        dict(name='sid_eq', harness='h_sid_eq', properties=['C23'], solvers=['cadical', 'z3'], timeout=dict(quick=120, thorough=300), floor=3),
        dict(name='sid_same', harness='h_sid_same', properties=['C23'], solvers=['cadical', 'z3'], timeout=dict(quick=120, thorough=300), floor=4),
    ],
    trusted_base=['ASSUMED: std::string operator== / operator!= are content equality and its negation (identity string model: content = id)'],
    assumptions=[],
)
UNIT['emit']['type_alias'] = [(r'FIX8::begin_string\b', 'FIX8::Field<std::basic_string<char>, 8>'), (r'FIX8::sender_comp_id\b', 'FIX8::Field<std::basic_string<char>, 49>'), (r'FIX8::target_comp_id\b', 'FIX8::Field<std::basic_string<char>, 56>')]
