"""K-sched (C24): Schedule::test (session.hpp) with Tickval::in_range / is_errorval translated from their real bodies, and decode_dow
(runtime/f8utils.cpp) evaluated natively and exhaustively over every string of up to 3 bytes.

FIX8::Tickval is std::chrono based: it is modelled as {long ns} (nanoseconds since the epoch) and its operators as integer arithmetic
(ASSUMED, model bodies).  The clock read `Tickval now(true)` returns the ghost virtual clock g_now; get_tm().tm_wday is the weekday
of the (already utc-offset-adjusted) instant, (days since 1970-01-01 + 4) mod 7 (ASSUMED: gmtime_r).

Spec, written from the property: with local = now + utc_offset, tod = local mod 1 day, wd = weekday(local)
  daily  (start_day < 0):   active(t) <=> start <= tod <= end
  weekly (0 <= sd, ed <= 6): week position p = wd * day + tod, S = sd * day + start, E = ed * day + end
                            active(t) <=> S <= E ? (S <= p <= E) : (p >= S or p <= E)          (a window may wrap over the week end)
One-step lemma for "checked at least once a minute": for instants t0 < t1 <= t0 + 60 s,  test@t1(prev = active(t0)) == active(t1).
"""
import os, time

PRE_STRUCTS = r'''
#include <time.h>
struct Tickval_m { long ns; };   /* model of FIX8::Tickval: nanoseconds since the epoch */
'''

PRELUDE = r'''
#define VACUITY_PROBE() __CPROVER_assert(0, "vacuity-probe")
long nondet_long(void); int nondet_int(void); _Bool nondet_bool(void);
#define DAY 86400000000000L
#define MINUTE 60000000000L
/* ---------------- ASSUMED: Tickval (std::chrono) = nanoseconds, its operators = integer arithmetic ---------------- */
long g_now;                                  /* ghost: the virtual clock read by Tickval(true) */
static const long g_errorticks = 9223372036854775807L;
const long *Tickval_errorticks(void) { return &g_errorticks; }
void Tickval_ctor_bool(struct Tickval_m *self, _Bool now) { self->ns = now ? g_now : 0; }
void Tickval_ctor_ticks(struct Tickval_m *self, long t) { self->ns = t; }
long Tickval_get_ticks(struct Tickval_m *self) { return self->ns; }
struct Tickval_m *Tickval_adjust(struct Tickval_m *self, long by) { self->ns += by; return self; }
struct Tickval_m Tickval_plus(struct Tickval_m *a, struct Tickval_m *b) { struct Tickval_m r; r.ns = a->ns + b->ns; return r; }
_Bool Tickval_gt(struct Tickval_m *a, struct Tickval_m *b) { return a->ns > b->ns; }
_Bool Tickval_le(struct Tickval_m *a, struct Tickval_m *b) { return a->ns <= b->ns; }
struct tm Tickval_get_tm(struct Tickval_m *self)
{
  struct tm r;                               /* only tm_wday is meaningful in this model; the other fields stay nondeterministic */
  r.tm_wday = (int)(((self->ns / DAY) + 4) % 7);
  return r;
}
'''

POST = r'''
/* spec: is the schedule active at the local instant (day number d since 1970-01-01, time of day tod) ? */
static _Bool spec_active(const struct FIX8_Schedule *s, long d, long tod)
{
  long wd = (d + 4) % 7;
  if (s->_start_day < 0)
    return s->_start.ns <= tod && tod <= s->_end.ns;
  long p = wd * DAY + tod, S = (long)s->_start_day * DAY + s->_start.ns, E = (long)s->_end_day * DAY + s->_end.ns;
  return S <= E ? (S <= p && p <= E) : (p >= S || p <= E);
}
static void mk_schedule(struct FIX8_Schedule *s)
{
  s->_start.ns = nondet_long(); s->_end.ns = nondet_long(); s->_duration.ns = nondet_long();
  s->_utc_offset = nondet_int(); s->_start_day = nondet_int(); s->_end_day = nondet_int();
  __CPROVER_assume(-840 <= s->_utc_offset && s->_utc_offset <= 840);                 /* UTC-14h .. UTC+14h */
  s->_toffset = (long)s->_utc_offset * MINUTE;                                     /* as the constructor computes it */
  __CPROVER_assume(0 <= s->_start.ns && s->_start.ns < s->_end.ns && s->_end.ns < DAY);   /* times of day; create_schedule rejects end <= start */
}
#define D_LO 11574L    /* 2001-09-09 */
#define D_HI 46296L    /* 2096-10-02 */

/* the virtual clock reads UTC instant t; local = t + utc offset is formed exactly as the code forms it, and (day number, time of day) are the
   same quotient / remainder terms the code computes -- no second 64-bit division for the solver to relate */
#define LOCAL_INSTANT(d, tod, local) long t_utc = nondet_long(); __CPROVER_assume(D_LO * DAY <= t_utc && t_utc <= D_HI * DAY); g_now = t_utc; \
  long local = t_utc + s._toffset; long tod = local % DAY, d = local / DAY

/* daily schedule: active exactly when the local time of day is inside [start, end], whatever the previous state */
void h_daily(void)
{
  struct FIX8_Schedule s; mk_schedule(&s);
  __CPROVER_assume(s._start_day < 0);
  LOCAL_INSTANT(d, tod, local);
  _Bool prev = nondet_bool();
  _Bool r = schedule_test(&s, prev);
  __CPROVER_assert(r == spec_active(&s, d, tod), "C24.daily.active_iff_time_of_day_in_window");
  VACUITY_PROBE();
}

/* weekly schedule, one supervision step: the previous state was right one check ago (at most a minute) => the new state is right now.
   `shape`: 0 = start day before end day, 1 = same day, 2 = window wraps over the week end */
static void weekly_step(int shape)
{
  struct FIX8_Schedule s; mk_schedule(&s);
  __CPROVER_assume(0 <= s._start_day && s._start_day <= 6 && 0 <= s._end_day && s._end_day <= 6);
  __CPROVER_assume(shape == 0 || shape == 3 ? s._start_day < s._end_day : shape == 1 ? s._start_day == s._end_day : s._start_day > s._end_day);
  __CPROVER_assume(s._end.ns - s._start.ns >= MINUTE);                         /* a window shorter than the check period can be missed by any checker */
  if (shape == 3) __CPROVER_assume(s._start_day < s._end_day && s._end.ns >= DAY - MINUTE);   /* forward window ending in the last minute of its end day */
  else __CPROVER_assume(s._end.ns < DAY - MINUTE);                             /* the other shapes: the window does not end in the last minute of a day */
  LOCAL_INSTANT(d1, tod1, local1);
  long delta = nondet_long(); __CPROVER_assume(0 < delta && delta <= MINUTE);   /* the previous check was at most a minute earlier */
  long d0 = tod1 >= delta ? d1 : d1 - 1, tod0 = tod1 >= delta ? tod1 - delta : tod1 - delta + DAY;
  _Bool prev = spec_active(&s, d0, tod0);
  _Bool r = schedule_test(&s, prev);
  if (shape == 0) __CPROVER_assert(r == spec_active(&s, d1, tod1), "C24.weekly.forward_window_step");
  if (shape == 1) __CPROVER_assert(r == spec_active(&s, d1, tod1), "C24.weekly.same_day_window_step");
  if (shape == 2) __CPROVER_assert(r == spec_active(&s, d1, tod1), "C24.weekly.wraparound_window_step");
  if (shape == 3) __CPROVER_assert(r == spec_active(&s, d1, tod1), "C24.weekly.forward_window_ending_in_last_minute_step");
  VACUITY_PROBE();
}
void h_weekly_forward(void) { weekly_step(0); }
void h_weekly_same_day(void) { weekly_step(1); }
void h_weekly_wrap(void) { weekly_step(2); }
void h_weekly_forward_late_end(void) { weekly_step(3); }
'''


def _native_dow(wd, tier, seed):
    """decode_dow uses a static std::multimap and std::string: no C-expressible core.  Its quantifier (all strings of up to 3 characters) is a
    finite domain of 16.8 M strings, evaluated exhaustively on the real compiled function (ASan) against the property's table."""
    from vlib import replay as rp
    t0 = time.time()
    res = dict(id='C24.decode_dow.exhaustive_native', kind='exhaustive-native(all 16 843 009 byte strings of length 0..3 + 14 longer texts)', ok=False, cases=16843023)
    try:
        exe = rp.build_native(os.path.join(rp.VERIF, 'replay', 'k_dow.cpp'), os.path.join(wd, 'native_k_dow'), extra=[rp.astdump.REPO + '/runtime/f8utils.cpp'])
        rc, o = rp.run_native(exe, ['all'])
    except Exception as e:
        res.update(broken=True, detail=str(e)[-500:])
        return res
    res['time'] = round(time.time() - t0, 2)
    res['detail'] = o.strip()[-600:]
    if rc == 0 and '"mismatches":0' in o:
        res['ok'] = True
    elif rc != 1:
        res['broken'] = True
    return res


UNIT = dict(
    name='k_sched', tu='tu/core.cpp', no_follow=True,
    native=[dict(name='decode_dow_native', properties=['C24'], tier='quick', run=_native_dow)],
    emit=dict(
        pod=[r'FIX8::Tickval', r'tm'],
        calls={'FIX8::Tickval::Tickval|void (bool)': 'Tickval_ctor_bool', 'FIX8::Tickval::Tickval|void (FIX8::Tickval::ticks)': 'Tickval_ctor_ticks',
               'FIX8::Tickval::Tickval|void (long)': 'Tickval_ctor_ticks',
               'FIX8::Tickval::get_tm': 'Tickval_get_tm', 'FIX8::Tickval::get_ticks': 'Tickval_get_ticks', 'errorticks': 'Tickval_errorticks',
               'FIX8::Tickval::adjust': 'Tickval_adjust', 'FIX8::Tickval::in_range': dict(c='tickval_in_range', sig='bool (const FIX8::Tickval &, const FIX8::Tickval &) const'),
               'FIX8::Tickval::is_errorval': 'tickval_is_errorval',
               'operator+': 'Tickval_plus', 'operator>': 'Tickval_gt', 'operator<=': 'Tickval_le'},
        type_map=[(r'tm', 'struct tm'), (r'FIX8::Tickval', 'struct Tickval_m'), (r'(FIX8::)?Tickval::ticks', 'long')],
        lazy_structs=[r'FIX8::Schedule'],
        constants={'day': 'probe:FIX8::Tickval::day'}),
    pre_structs=PRE_STRUCTS,
    prelude=PRELUDE,
    force_fields={'FIX8::Schedule': [('_start', 'FIX8::Tickval'), ('_end', 'FIX8::Tickval'), ('_duration', 'FIX8::Tickval'), ('_utc_offset', 'int'),
                                     ('_start_day', 'int'), ('_end_day', 'int'), ('_toffset', 'long')]},
    functions=[
        dict(q='FIX8::Tickval::is_errorval', sig=None, cname='tickval_is_errorval'),
        dict(q='FIX8::Tickval::in_range', sig=None, cname='tickval_in_range'),
        dict(q='FIX8::Schedule::test', sig=None, cname='schedule_test'),
    ],
    postlude=POST,
    proofs=[
        dict(name='daily', harness='h_daily', properties=['C24'], solvers=['cvc5', 'z3', 'cadical'], timeout=dict(quick=600, thorough=1800), floor=1),
        dict(name='weekly_forward', harness='h_weekly_forward', properties=['C24'], solvers=['cvc5', 'z3', 'cadical'], timeout=dict(quick=600, thorough=1800), floor=1),
        dict(name='weekly_same_day', harness='h_weekly_same_day', properties=['C24'], solvers=['z3', 'cvc5', 'cadical'], timeout=dict(quick=300, thorough=1800), floor=1),
        dict(name='weekly_forward_late_end', harness='h_weekly_forward_late_end', properties=['C24'], solvers=['z3', 'cvc5', 'cadical'], timeout=dict(quick=300, thorough=1800), floor=1),
        dict(name='weekly_wrap', harness='h_weekly_wrap', properties=['C24'], solvers=['z3', 'cvc5', 'cadical'], timeout=dict(quick=300, thorough=1800), floor=1),
    ],
    trusted_base=['ASSUMED: Tickval (std::chrono) is a nanosecond count and its operators +, >, <=, adjust, get_ticks are integer arithmetic; Tickval(true) reads the virtual clock; '
                  'get_tm().tm_wday = (days since 1970-01-01 + 4) mod 7 (model bodies in specs/k_sched.py)'],
    assumptions=['utc offset within +-14 h; start < end as times of day (Configuration::create_schedule enforces it); instants 2001..2096',
                 'weekly one-step lemma: consecutive checks at most 60 s apart, window at least 60 s long and not ending in the last minute of a day'],
)
