"""K-timer (C31): Timer<Session>::operator() (one iteration as a contracted loop body), Timer::schedule, Timer::clear and
TimerEvent::operator< (timer.hpp), bodies extracted from the clang AST of the instantiation the session uses.

ASSUMED models: Tickval (std::chrono) = nanoseconds and integer arithmetic; Tickval::get_tickval() reads the ghost virtual clock;
std::priority_queue<TimerEvent> = {size, top element}: top() is a maximum w.r.t. operator< (ISO [priority.queue]), pop() removes it
(the next top is arbitrary), push() adds (ghost: count and last pushed element); the callback is invoked through a model that records
the invocation (which callback, at what virtual time) and returns an arbitrary result; other threads are not modelled.

Obligations sit where the events happen: in the callback model ("not before its due time", "the callback of the event that was top and
has been removed"), in push ("a repeating event is re-queued at now + interval, only if the callback returned true"), at the end of
the loop body ("... and it IS re-queued then"), and as postconditions of schedule / clear.
"""
PRE_STRUCTS = r'''
struct Tickval_m { long ns; };   /* model of FIX8::Tickval: nanoseconds since the epoch */
struct session_opaque { int dummy; };
struct pq_m { unsigned long size; };   /* model of std::priority_queue<TimerEvent>: its size; the maximum element is the ghost g_top */
'''
EV = 'struct FIX8_TimerEvent_FIX8_Session'
PRELUDE = r'''
#define VACUITY_PROBE() __CPROVER_assert(0, "vacuity-probe")
long nondet_long(void); unsigned nondet_uint(void); _Bool nondet_bool(void); unsigned long nondet_ulong(void);
#define MILLION 1000000L
typedef %(EV)s Ev;
/* ---- ASSUMED: Tickval = integer nanoseconds ---- */
long g_now;                      /* ghost: the virtual clock (non-decreasing between reads: only read once per iteration here) */
struct Tickval_m Tickval_now(void) { struct Tickval_m r; r.ns = g_now; return r; }
struct Tickval_m *Tickval_now_into(struct Tickval_m *t) { t->ns = g_now; return t; }
void Tickval_ctor0(struct Tickval_m *t, _Bool settonow) { t->ns = settonow ? g_now : 0; }
_Bool Tickval_not(struct Tickval_m *t) { return t->ns == 0; }
_Bool Tickval_le(struct Tickval_m *a, struct Tickval_m *b) { return a->ns <= b->ns; }
_Bool Tickval_gt(struct Tickval_m *a, struct Tickval_m *b) { return a->ns > b->ns; }
long Tickval_get_ticks(struct Tickval_m *t) { return t->ns; }
struct Tickval_m *Tickval_assign_ticks(struct Tickval_m *t, long v) { t->ns = v; return t; }
struct Tickval_m *Tickval_add_ticks(struct Tickval_m *t, long v) { t->ns += v; return t; }
/* ---- ASSUMED: std::priority_queue<TimerEvent> ---- */
Ev g_top;                                          /* ghost: the current maximum of the (single) event queue */
long g_pushes; Ev g_pushed;                       /* ghost: pushes and the last pushed element */
_Bool g_popped_this_iter, g_cb_this_iter, g_cb_result, g_pushed_this_iter; Ev g_due;   /* ghost: per-iteration record */
unsigned long pq_size(struct pq_m *q) { return q->size; }
Ev *pq_top(struct pq_m *q) { __CPROVER_assert(q->size > 0, "priority_queue::top on a non-empty queue"); return &g_top; }
Ev nondet_Ev(void);
void pq_pop(struct pq_m *q)
{
  __CPROVER_assert(q->size > 0, "priority_queue::pop on a non-empty queue");
  if (!g_popped_this_iter) g_due = g_top;        /* the event removed in this iteration */
  g_popped_this_iter = 1;
  q->size--; g_top = nondet_Ev();               /* the next maximum is arbitrary */
}
void pq_push(struct pq_m *q, Ev *e)
{
  __CPROVER_assume(q->size < 1000000000UL && g_pushes < 1000000000L);     /* ghost counters do not wrap */
  if (g_cb_this_iter) {                           /* a push from the timer loop: it must be the repeat of the event just run */
    __CPROVER_assert(g_cb_result && g_due._repeat, "C31.repeat.requeued_only_if_repeating_and_callback_true");
    __CPROVER_assert(e->_callback == g_due._callback && e->_repeat == g_due._repeat && e->_intervalMS == g_due._intervalMS, "C31.repeat.requeued_event_is_the_one_that_ran");
    __CPROVER_assert(e->_t.ns == g_now + (long)g_due._intervalMS * MILLION, "C31.repeat.next_run_is_interval_after_this_run");
    g_pushed_this_iter = 1;
  }
  q->size++; g_pushes++; g_pushed = *e;
  Ev other = nondet_Ev();                         /* the new maximum is the pushed element or an arbitrary other one that is not smaller */
  if (nondet_bool()) g_top = *e; else g_top = other;
}
/* ---- the callback: (monitor.*cb)() ---- */
_Bool callback_invoke(struct session_opaque *monitor, long cb)
{
  __CPROVER_assert(g_popped_this_iter && cb == g_due._callback, "C31.runs_the_event_that_was_due_and_removed");
  __CPROVER_assert(g_due._t.ns <= g_now, "C31.not_before_due_time");
  __CPROVER_assert(g_due._t.ns != 0, "C31.unset_events_are_not_run");
  g_cb_this_iter = 1; g_cb_result = nondet_bool();
  return g_cb_result;
}
_Bool token_not(void **tok) { return nondet_bool(); }              /* !token: the cancellation token is set by another thread at any time */
Ev *std_move(Ev *e) { return e; }
void hypersleep_ms(unsigned ms) { }
''' % dict(EV=EV)

POST = r'''
static void mk_timer(struct FIX8_Timer_FIX8_Session *t) { t->_event_queue.size = nondet_ulong(); g_top = nondet_Ev(); t->_granularity = nondet_uint(); }
/* the timer thread: every iteration of the loop obeys the contract (loop contract with the obligations inside the models) */
void h_timer_loop(void)
{
  struct FIX8_Timer_FIX8_Session t; mk_timer(&t);
  g_now = nondet_long(); __CPROVER_assume(0 < g_now && g_now < 4000000000000000000L);
  timer_run(&t);
  VACUITY_PROBE();
}
/* schedule(what, ms): the event is queued with due time now + ms (ms > 0) and remembers ms as its repeat interval */
void h_schedule(void)
{
  struct FIX8_Timer_FIX8_Session t; mk_timer(&t);
  g_now = nondet_long(); __CPROVER_assume(0 < g_now && g_now < 4000000000000000000L);
  Ev what = nondet_Ev(); unsigned ms = nondet_uint();
  unsigned long size0 = t._event_queue.size; long pushes0 = g_pushes;
  g_cb_this_iter = 0;
  _Bool r = timer_schedule(&t, what, ms);
  __CPROVER_assert(r && g_pushes == pushes0 + 1 && t._event_queue.size == size0 + 1, "C31.schedule.queues_exactly_one_event");
  __CPROVER_assert(ms == 0 || g_pushed._t.ns == g_now + (long)ms * MILLION, "C31.schedule.due_time_is_now_plus_delay");
  __CPROVER_assert(ms == 0 || g_pushed._intervalMS == ms, "C31.schedule.repeat_interval_is_the_delay");
  __CPROVER_assert(g_pushed._callback == what._callback && g_pushed._repeat == what._repeat, "C31.schedule.keeps_callback_and_repeat_flag");
  VACUITY_PROBE();
}
/* clear(): afterwards no event is pending; the return value is the number removed */
void h_clear(void)
{
  struct FIX8_Timer_FIX8_Session t; mk_timer(&t);
  __CPROVER_assume(t._event_queue.size <= 1000000000UL);
  unsigned long size0 = t._event_queue.size;
  unsigned long r = timer_clear(&t);
  __CPROVER_assert(t._event_queue.size == 0, "C31.clear.no_event_pending_afterwards");
  __CPROVER_assert(r == size0, "C31.clear.returns_number_removed");
  VACUITY_PROBE();
}
/* operator<: the queue's maximum is the event with the earliest due time */
void h_order(void)
{
  Ev a = nondet_Ev(), b = nondet_Ev();
  __CPROVER_assert(timerevent_less(&a, &b) == (a._t.ns > b._t.ns), "C31.due_order.less_is_later_due_time");
  VACUITY_PROBE();
}
'''

TM = '_ZN4FIX85TimerINS_7SessionEE'
TS = 'FIX8::Timer<FIX8::Session>'
TE = 'FIX8::TimerEvent<FIX8::Session>'
PQ = 'std::priority_queue<FIX8::TimerEvent<FIX8::Session>, std::vector<FIX8::TimerEvent<FIX8::Session>>, std::less<FIX8::TimerEvent<FIX8::Session>>>'

UNIT = dict(
    name='k_timer', tu='tu/timer.cpp', no_follow=True,
    emit=dict(
        pod=[r'FIX8::Tickval', r'FIX8::TimerEvent<FIX8::Session>', r'TimerEvent<FIX8::Session>'],
        ptr_to_member_call='callback_invoke',
        type_alias=[(r'(?<![:\w])TimerEvent<FIX8::Session>', 'FIX8::TimerEvent<FIX8::Session>')],
        type_map=[(r'FIX8::Tickval', 'struct Tickval_m'), (r'(FIX8::)?Tickval::ticks', 'long'), (r'bool \(FIX8::Session::\*\)\(\)', 'long'),
                  (r'std::priority_queue<FIX8::TimerEvent<FIX8::Session>.*>', 'struct pq_m'), (r'FIX8::Session', 'struct session_opaque'),
                  (r'FIX8::f8_thread_cancellation_token', 'void *')],
        lazy_structs=[r'FIX8::Timer<FIX8::Session>', r'FIX8::TimerEvent<FIX8::Session>'],
        constants={'million': 'probe:FIX8::Tickval::million'},
        default_args={'Tickval_ctor0': {0: '0'}},
        calls={PQ + '::size': 'pq_size', PQ + '::top': dict(c='pq_top', sig='const FIX8::TimerEvent<FIX8::Session> &() const'), PQ + '::pop': 'pq_pop',
               PQ + '::push': dict(c='pq_push', sig='void (FIX8::TimerEvent<FIX8::Session> &&)'),
               'get_tickval|FIX8::Tickval ()': 'Tickval_now', 'get_tickval|FIX8::Tickval &(FIX8::Tickval &)': 'Tickval_now_into',
               'FIX8::Tickval::Tickval|void (bool)': 'Tickval_ctor0',
               'FIX8::Tickval::operator!': 'Tickval_not', 'operator<=': 'Tickval_le', 'operator>': 'Tickval_gt',
               'FIX8::Tickval::get_ticks': 'Tickval_get_ticks', 'FIX8::Tickval::operator=|FIX8::Tickval &(FIX8::Tickval::ticks)': 'Tickval_assign_ticks',
               'operator+=': 'Tickval_add_ticks',
               'FIX8::f8_thread_cancellation_token::operator!': 'token_not',
               'hypersleep': 'hypersleep_ms', 'move': 'std_move',
               TE + '::set': dict(c='timerevent_set', sig='void (const FIX8::Tickval &)')}),
    pre_structs=PRE_STRUCTS,
    prelude=PRELUDE,
    force_fields={TE: [('_callback', 'bool (FIX8::Session::*)()'), ('_t', 'FIX8::Tickval'), ('_intervalMS', 'unsigned int'), ('_repeat', 'bool')],
                  TS: [('_event_queue', PQ), ('_granularity', 'unsigned int')]},
    functions=[
        dict(q='FIX8::TimerEvent::operator<', filter='FIX8::TimerEvent', mangled='_ZNK4FIX810TimerEventINS_7SessionEEltERKS2_', cname='timerevent_less'),
        dict(q='FIX8::TimerEvent::set', filter='FIX8::TimerEvent', mangled='_ZN4FIX810TimerEventINS_7SessionEE3setERKNS_7TickvalE', cname='timerevent_set'),
        dict(q='FIX8::Timer::schedule', filter='FIX8::Timer', mangled=TM + '8scheduleENS_10TimerEventIS1_EEj', cname='timer_schedule'),
        dict(q='FIX8::Timer::clear', filter='FIX8::Timer', mangled=TM + '5clearEv', cname='timer_clear',
             loops={0: dict(assigns='result, self->_event_queue, g_top, g_popped_this_iter, g_due', invariants=[('inv.count', 'result + self->_event_queue.size == CLEAR_SIZE0')], decreases='self->_event_queue.size')},
             ghost={'entry': '  unsigned long CLEAR_SIZE0 = self->_event_queue.size; /* ghost */'}),
        dict(q='FIX8::Timer::operator()', filter='FIX8::Timer', mangled=TM + 'clEv', cname='timer_run',
             ghost={'loop0.begin': '    g_popped_this_iter = 0; g_cb_this_iter = 0; g_pushed_this_iter = 0; g_cb_result = 0; /* ghost: per-iteration record */',
                    'loop0.end': '    __CPROVER_assert(!(g_cb_this_iter && g_cb_result && g_due._repeat) || g_pushed_this_iter, "C31.repeat.requeued_when_repeating_and_callback_true"); /* ghost */'},
             loops={0: dict(assigns='elapsed, self->_event_queue, g_top, g_pushes, g_pushed, g_popped_this_iter, g_cb_this_iter, g_cb_result, g_pushed_this_iter, g_due',
                            invariants=[('inv.trivial', 'self->_event_queue.size <= 1000000001UL || 1')])}),
    ],
    postlude=POST,
    proofs=[
        dict(name='timer_loop', harness='h_timer_loop', loop_contracts=True, properties=['C31'], solvers=['cadical', 'z3'], timeout=dict(quick=300, thorough=900), floor=6, level='proved-modular'),
        dict(name='schedule', harness='h_schedule', properties=['C31'], solvers=['cadical', 'z3'], timeout=dict(quick=300, thorough=900), floor=4, level='proved-modular'),
        dict(name='clear', harness='h_clear', loop_contracts=True, properties=['C31'], solvers=['cadical', 'z3'], timeout=dict(quick=300, thorough=900), floor=3, level='proved-modular'),
        dict(name='order', harness='h_order', properties=['C31'], solvers=['cadical', 'z3'], timeout=dict(quick=300, thorough=900), floor=1),
    ],
    trusted_base=['ASSUMED: std::priority_queue keeps a maximum w.r.t. operator< at top(); Tickval (std::chrono) is a nanosecond count read from a virtual clock; the callback returns an arbitrary '
                  'result; the cancellation token may be set at any time (model bodies in specs/k_timer.py)'],
    assumptions=['one timer thread, no concurrent schedule()/clear() during an iteration (the spin lock is dropped by the extraction); real-time lateness and thread scheduling are not modelled'],
)
