#!/usr/bin/env python3
"""developer helper: build a unit and run its proofs, printing raw results"""
import sys, os, importlib, time, json
sys.path.insert(0, os.path.dirname(os.path.abspath(__file__)))
from vlib import unit as U, runner as R
name = sys.argv[1]
only = sys.argv[2] if len(sys.argv) > 2 else None
wd = '/var/tmp/fv/dev_' + name
os.makedirs(wd, exist_ok=True)
spec = importlib.import_module('specs.' + name).UNIT
t0 = time.time()
b = U.build(spec, wd)
print('built', b['cfile'], 'in %.1fs' % (time.time() - t0), 'rules', b['rules'])
for ps in spec['proofs']:
    if only and ps['name'] != only:
        continue
    p = R.Proof(spec['name'], ps, b['cfile'], wd, b['line_labels'])
    t1 = time.time()
    try:
        p.compile()
    except R.ToolError as e:
        print('TOOL ERROR', e); open(wd + '/' + ps['name'] + '.log', 'w').write(p.log); continue
    p.loop_labels = b['loop_labels']
    r = p.run_split('quick') if not ps.get('nosplit') else p.run('quick')
    open(wd + '/' + ps['name'] + '.log', 'w').write(p.log)
    print(ps['name'], r['status'], 'cpu %.1fs' % r['time'], 'wall %.1fs' % (time.time()-t1), 'n=%d' % len(r['results']), 'undecided', len(r.get('undecided') or []), (r.get('undecided') or [])[:6])
    for g in r.get('per_group', []):
        if g['time'] > 5 or len(g['attempts']) > 1: print('   slow/fallback:', g)
    ids = {}
    for x in r['results']:
        ids.setdefault(p.obligation_id(x), []).append(x['res'])
    bad = {k: v for k, v in ids.items() if any(y != 'SUCCESS' for y in v)}
    print('  distinct obligations', len(ids), 'failed', len(bad))
    for k in bad:
        print('   FAIL', k)
    if '-v' in sys.argv:
        for k, v in ids.items():
            print('   ', k, len(v))
    for k, t in (r.get('traces') or {}).items():
        open(wd + '/' + ps['name'] + '.' + k + '.trace', 'w').write(t)
