"""clang-14 JSON AST driver: dump declarations of the real translation units by
qualified-name filter, cache within one run, find a function by signature."""
import json, os, subprocess, hashlib

REPO = os.environ.get('VERIF_REPO', '/repo')
CLANG = 'clang++-14'
BASE_FLAGS = ['-std=gnu++17', '-fsyntax-only', '-w', '-DHAVE_CONFIG_H',
              '-I' + REPO + '/include', '-I' + REPO, '-I' + REPO + '/runtime',
              '-I' + REPO + '/utests', '-I' + REPO + '/compiler']


class ExtractError(Exception):
    pass


def _split_docs(s):
    dec = json.JSONDecoder()
    i, out = 0, []
    n = len(s)
    while i < n:
        while i < n and s[i].isspace():
            i += 1
        if i >= n:
            break
        o, i = dec.raw_decode(s, i)
        out.append(o)
    return out


_STAMP = None


def tree_stamp():
    """hash of (path, mtime, size) of the repo sources, so cached ASTs never outlive an edit"""
    global _STAMP
    if _STAMP is None:
        h = hashlib.sha1()
        for sub in ('include/fix8', 'runtime', 'utests', 'compiler'):
            d = os.path.join(REPO, sub)
            for root, dirs, files in os.walk(d):
                dirs.sort()
                for fn in sorted(files):
                    if fn.endswith(('.hpp', '.cpp', '.c', '.h')):
                        st = os.stat(os.path.join(root, fn))
                        h.update(('%s|%d|%d;' % (os.path.join(root, fn), st.st_mtime_ns, st.st_size)).encode())
        _STAMP = h.hexdigest()[:12]
    return _STAMP


def dump(tu_path, name_filter, workdir, extra_flags=()):
    """Return the list of top-level JSON documents clang prints for declarations whose
    qualified name contains name_filter."""
    key = hashlib.sha1((tree_stamp() + tu_path + '|' + name_filter + '|' + ' '.join(extra_flags) + str(os.stat(tu_path).st_mtime_ns)).encode()).hexdigest()[:16]
    cache = os.path.join(workdir, 'ast_' + key + '.json')
    if not os.path.exists(cache):
        cmd = [CLANG] + BASE_FLAGS + list(extra_flags) + [
            '-Xclang', '-ast-dump=json', '-Xclang', '-ast-dump-filter=' + name_filter, tu_path]
        with open(cache + '.tmp', 'w') as f:
            p = subprocess.run(cmd, stdout=f, stderr=subprocess.PIPE, text=True)
        if p.returncode != 0:
            raise ExtractError('clang failed on %s filter %s:\n%s' % (tu_path, name_filter, p.stderr[-2000:]))
        os.rename(cache + '.tmp', cache)
    with open(cache) as f:
        return _split_docs(f.read())


FUNC_KINDS = ('FunctionDecl', 'CXXMethodDecl', 'CXXConstructorDecl', 'CXXDestructorDecl', 'CXXConversionDecl')


def _has_body(d):
    return any(isinstance(c, dict) and c.get('kind') in ('CompoundStmt', 'CXXTryStmt') for c in d.get('inner', []))


def _walk_funcs(node, out):
    k = node.get('kind')
    if k in FUNC_KINDS:
        out.append(node)
        return
    if k in ('FunctionTemplateDecl', 'ClassTemplateDecl', 'ClassTemplateSpecializationDecl', 'CXXRecordDecl',
             'NamespaceDecl', 'LinkageSpecDecl', 'ClassTemplatePartialSpecializationDecl'):
        for c in node.get('inner', []):
            if isinstance(c, dict):
                _walk_funcs(c, out)


def find_function(tu_path, qname, sig, workdir, extra_flags=(), mangled=None, dump_filter=None):
    """Find the definition (with body) of qname whose type.qualType == sig
    (or whose mangledName == mangled)."""
    docs = dump(tu_path, dump_filter or qname, workdir, extra_flags)
    short = qname.split('::')[-1]
    cands = []
    for d in docs:
        fs = []
        _walk_funcs(d, fs)
        for f in fs:
            if f.get('name') != short or not _has_body(f):
                continue
            if mangled is not None:
                if f.get('mangledName') == mangled:
                    cands.append(f)
            elif sig is None or f['type']['qualType'] == sig:
                cands.append(f)
    # de-duplicate identical definitions dumped twice (decl context + filter match)
    uniq = {}
    for f in cands:
        uniq[f.get('mangledName', f['id'])] = f
    cands = list(uniq.values())
    if len(cands) != 1:
        sigs = []
        for d in docs:
            fs = []
            _walk_funcs(d, fs)
            sigs += ['%s : %s body=%s' % (f.get('name'), f['type']['qualType'], _has_body(f)) for f in fs]
        raise ExtractError('function %s sig=%r: %d candidates. Seen:\n  %s' % (qname, sig, len(cands), '\n  '.join(sigs[:40])))
    return cands[0]


def find_record(tu_path, qname, workdir, extra_flags=()):
    docs = dump(tu_path, qname, workdir, extra_flags)
    short = qname.split('::')[-1]
    for d in docs:
        if d.get('kind') in ('CXXRecordDecl', 'ClassTemplateSpecializationDecl') and d.get('name') == short and d.get('completeDefinition'):
            return d
    raise ExtractError('record %s not found' % qname)


def show(n, d=0, out=None):
    """debug pretty-printer"""
    import sys
    out = out or sys.stdout
    if not isinstance(n, dict) or 'kind' not in n:
        out.write(' ' * d + repr(n) + '\n')
        return
    keys = {k: v for k, v in n.items() if k not in ('id', 'loc', 'range', 'inner', 'kind')}
    if 'type' in keys:
        t = keys['type']
        keys['type'] = t.get('qualType') + ('|' + t['desugaredQualType'] if 'desugaredQualType' in t else '')
    if 'referencedDecl' in keys:
        r = keys['referencedDecl']
        keys['referencedDecl'] = (r.get('kind'), r.get('name'), r.get('type', {}).get('qualType'))
    out.write(' ' * d + n['kind'] + ' ' + repr(keys) + '\n')
    for c in n.get('inner', []):
        show(c, d + 1, out)


if __name__ == '__main__':
    import sys
    tu, q = sys.argv[1], sys.argv[2]
    sig = sys.argv[3] if len(sys.argv) > 3 else None
    wd = '/var/tmp/fv'
    os.makedirs(wd, exist_ok=True)
    if sig == '--all':
        for d in dump(tu, q, wd):
            show(d)
    else:
        show(find_function(tu, q, sig, wd))
