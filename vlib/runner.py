"""goto-cc / goto-instrument --dfcc / cbmc orchestration with timeouts, memory caps,
log scans and per-obligation result parsing."""
import os, re, subprocess, time, resource, json, shutil

DEFAULT_MEM_GB = 8
SOLVER_FLAGS = {
    'minisat': [],
    'cadical': ['--sat-solver', 'cadical'],
    'kissat': ['--external-sat-solver', 'kissat'],
    'cvc5': ['--cvc5'],
    'z3': ['--z3'],
}


class ToolError(Exception):
    pass


def _limits(mem_gb):
    def f():
        b = int(mem_gb * (1 << 30))
        resource.setrlimit(resource.RLIMIT_AS, (b, b))
        os.setsid()
    return f


LIVE = set()      # process-group ids of running children (each child is its own session), for kill_all() on SIGTERM


STOP = False


def kill_all():
    global STOP
    STOP = True       # no new children from the worker threads
    for pid in list(LIVE):
        try:
            os.killpg(pid, 9)
        except (ProcessLookupError, PermissionError):
            pass


def sh(cmd, timeout, mem_gb=DEFAULT_MEM_GB, cwd=None, env=None):
    t0 = time.time()
    if STOP:
        return -9, '', 0.0, True
    p = subprocess.Popen(cmd, stdout=subprocess.PIPE, stderr=subprocess.STDOUT, text=True, cwd=cwd, env=env,
                         preexec_fn=_limits(mem_gb))
    LIVE.add(p.pid)
    if STOP:
        kill_all()
    try:
        out, _ = p.communicate(timeout=timeout)
        return p.returncode, out, time.time() - t0, False
    except subprocess.TimeoutExpired:
        try:
            os.killpg(p.pid, 9)
        except ProcessLookupError:
            pass
        out, _ = p.communicate()
        return -9, out, time.time() - t0, True
    finally:
        LIVE.discard(p.pid)


RES_RX = re.compile(r'^\[(?P<name>[^\]]+)\]\s+(?:line (?P<line>\d+)\s+)?(?P<desc>.*): (?P<res>SUCCESS|FAILURE|UNKNOWN|ERROR)$')
FILE_RX = re.compile(r'^(?P<file>\S+) function (?P<func>\S+)$')


def parse_results(out):
    """-> list of dict(name, func, file, line, desc, res)"""
    res = []
    cur_file, cur_func = None, None
    in_results = False
    for ln in out.splitlines():
        if ln.startswith('** Results:'):
            in_results = True
            continue
        if not in_results:
            continue
        m = FILE_RX.match(ln.strip())
        if m and not ln.startswith('['):
            cur_file, cur_func = m.group('file'), m.group('func')
            continue
        m = RES_RX.match(ln.strip())
        if m:
            res.append(dict(name=m.group('name'), func=cur_func, file=cur_file,
                            line=int(m.group('line')) if m.group('line') else None,
                            desc=m.group('desc'), res=m.group('res')))
        if ln.startswith('** ') and 'failed' in ln:
            pass
    return res


def parse_trace(out):
    """crude text-trace parser: returns list of (lhs, value_text) in order"""
    steps = []
    for m in re.finditer(r'^\s*([A-Za-z_$][\w$.\[\]!@:>\-]*)=(.*?)(?: \([01 ]+\))?$', out, re.M):
        steps.append((m.group(1), m.group(2)))
    return steps


class Proof:
    """one cbmc run = one harness with its enforce/replace configuration"""

    def __init__(self, unit_name, spec, cfile, workdir, line_labels):
        self.unit = unit_name
        self.s = spec
        self.cfile = cfile
        self.wd = workdir
        self.line_labels = line_labels
        self.name = spec['name']
        self.log = ''

    def compile(self, extra_defs=()):
        s = self.s
        base = os.path.join(self.wd, '%s__%s' % (self.unit.replace('/', '_'), self.name))
        gb0, gb1 = base + '.0.gb', base + '.1.gb'
        srcs = [self.cfile] + [x for x in s.get('extra_sources', [])]
        cmd = ['goto-cc', '-Wall', '--function', s['harness'], '-o', gb0] + list(s.get('cc_flags', [])) + list(extra_defs) + srcs
        rc, out, dt, to = sh(cmd, 300)
        self.log += '$ ' + ' '.join(cmd) + '\n' + out
        if rc != 0:
            raise ToolError('goto-cc failed:\n' + out[-3000:])
        if re.search(r"is not declared|implicit function declaration", out):
            raise ToolError('goto-cc: call to an undeclared function (implicit int declaration would change semantics):\n' + out[-2000:])
        cur = gb0
        if s.get('pre_unwindset'):
            gbp = base + '.p.gb'
            cmd = ['goto-instrument', '--unwindset', ','.join(s['pre_unwindset']), '--unwinding-assertions', cur, gbp]
            rc, out, dt, to = sh(cmd, 300)
            self.log += '$ ' + ' '.join(cmd) + '\n' + out
            if rc != 0:
                raise ToolError('goto-instrument pre-unwind failed:\n' + out[-3000:])
            cur = gbp
        if s.get('enforce') or s.get('replace') or s.get('loop_contracts'):
            cmd = ['goto-instrument', '--dfcc', s['harness']]
            for f in s.get('enforce', []):
                cmd += ['--enforce-contract', f]
            for f in s.get('replace', []):
                cmd += ['--replace-call-with-contract', f]
            if s.get('loop_contracts'):
                cmd += ['--apply-loop-contracts']
            cmd += list(s.get('gi_flags', []))
            cmd += [cur, gb1]
            rc, out, dt, to = sh(cmd, 600, mem_gb=s.get('mem_gb', DEFAULT_MEM_GB))
            self.log += '$ ' + ' '.join(cmd) + '\n' + out
            if rc != 0:
                raise ToolError('goto-instrument --dfcc failed:\n' + out[-3000:])
            cur = gb1
        gbd = base + '.d.gb'
        cmd = ['goto-instrument', '--drop-unused-functions', cur, gbd]
        rc, out, dt, to = sh(cmd, 300)
        self.log += '$ ' + ' '.join(cmd) + '\n' + out
        if rc == 0:
            cur = gbd
        self.gb = cur
        return cur

    def cbmc_cmd(self, solver, trace=False, props=None, show=False):
        s = self.s
        cmd = ['cbmc', self.gb, '--object-bits', str(s.get('object_bits', 8))]
        if not show:
            cmd.append('--slice-formula')
        for c in s.get('checks', ['bounds', 'pointer', 'signed-overflow', 'div-by-zero', 'undefined-shift', 'pointer-overflow']):
            cmd.append('--%s-check' % c)
        if s.get('unwindset'):
            cmd += ['--unwindset', ','.join(s['unwindset'])]
        if s.get('unwind'):
            cmd += ['--unwind', str(s['unwind'])]
        cmd += ['--unwinding-assertions']
        cmd += list(s.get('cbmc_flags', []))
        if show:
            return cmd + ['--show-properties', '--json-ui']
        cmd += SOLVER_FLAGS.get(solver, ['<solver flags>'])
        for p in (props or []):
            cmd += ['--property', p]
        if trace:
            cmd += ['--trace']
        return cmd

    KEY_CLASSES = ('postcondition', 'precondition', 'loop_invariant_base', 'loop_invariant_step', 'loop_decreases')

    def list_properties(self):
        rc, out, dt, to = sh(self.cbmc_cmd(None, show=True), 300, self.s.get('mem_gb', DEFAULT_MEM_GB), cwd=self.wd)
        try:
            doc = json.loads(out[out.index('['):])
        except Exception:
            raise ToolError('show-properties failed:\n' + out[-2000:])
        for x in doc:
            if isinstance(x, dict) and 'properties' in x:
                return x['properties']
        raise ToolError('no property list')

    def groups(self, props):
        """key obligations one per run; automatic checks chunked"""
        key, auto = [], []
        for p in props:
            f = p['sourceLocation'].get('file', '')
            user = not f.startswith('<builtin')
            if p['class'] in self.KEY_CLASSES or (p['class'] == 'assertion' and user):
                key.append([p['name']])
            else:
                auto.append(p['name'])
        n = max(1, self.s.get('auto_chunks', 2))
        chunks = [auto[i::n] for i in range(n)] if auto else []
        return key + [c for c in chunks if c]

    def run_group(self, names, tier):
        s = self.s
        timeout = s.get('timeout', {}).get(tier, 180) if isinstance(s.get('timeout'), dict) else s.get('timeout', 180)
        if os.environ.get('VERIF_TIMEOUT_CAP'):
            timeout = min(timeout, int(os.environ['VERIF_TIMEOUT_CAP']))
        mem = s.get('mem_gb', DEFAULT_MEM_GB)
        env = dict(os.environ, TMPDIR=self.wd)
        attempts = []
        solvers = list(s.get('solvers', ['cadical', 'z3']))
        if len(names) == 1 and getattr(self, 'props', None):
            pr = self.props.get(names[0], {})
            text = pr.get('class', '') + ' ' + pr.get('description', '') + ' ' + pr.get('expression', '')
            for rx, sv in s.get('solver_hints', []):
                if re.search(rx, text):
                    solvers = list(sv) + [x for x in solvers if x not in sv]
                    break
        for solver in solvers:
            cmd = self.cbmc_cmd(solver, props=names)
            rc, out, dt, to = sh(cmd, timeout, mem, cwd=self.wd, env=env)
            attempts.append(dict(solver=solver, time=round(dt, 2), timed_out=to))
            if to:
                continue
            if re.search(r'ignoring forall|Parse Error|SMT2 solver returned error|error running SMT2', out):
                attempts[-1]['note'] = 'quantifier/SMT problem'
                continue
            if 'VERIFICATION SUCCESSFUL' in out or 'VERIFICATION FAILED' in out:
                res = parse_results(out)
                got = {r['name'] for r in res}
                if not set(names) <= got:
                    attempts[-1]['note'] = 'missing results'
                    continue
                # unwinding assertions are generated during unwinding (they are not in --show-properties, so no group names them): a failed one
                # means the bound cut paths off, and a SUCCESS for the requested obligations is then worth nothing -> undecided, never a verdict
                cut = [r['name'] for r in res if re.search(r'\.unwind\.\d+$', r['name']) and r['res'] != 'SUCCESS']
                res = [r for r in res if r['name'] in set(names)]
                if cut and all(r['res'] == 'SUCCESS' for r in res):
                    attempts[-1]['note'] = 'unwinding assertion failed (%s): the unwind bound is too small for this harness' % ', '.join(cut[:3])
                    return dict(names=names, results=[], solver=None, time=sum(a['time'] for a in attempts), attempts=attempts, trace=None, decided=False)
                trace = None
                if any(r['res'] != 'SUCCESS' for r in res):
                    bad = [r['name'] for r in res if r['res'] != 'SUCCESS'][:1]
                    rc2, out2, dt2, to2 = sh(self.cbmc_cmd(solver, trace=True, props=bad), timeout, mem, cwd=self.wd, env=env)
                    trace = out2
                return dict(names=names, results=res, solver=solver, time=dt, attempts=attempts, trace=trace, decided=True)
            attempts[-1]['note'] = 'no verdict: ' + out[-300:].replace('\n', ' | ')
        return dict(names=names, results=[], solver=None, time=sum(a['time'] for a in attempts), attempts=attempts, trace=None, decided=False)

    def run_split(self, tier='quick', pool=None):
        """one cbmc process per key obligation, in parallel.  Returns the same shape as run()."""
        from concurrent.futures import ThreadPoolExecutor
        props = self.list_properties()
        self.props = {p['name']: p for p in props}
        groups = self.groups(props)
        own = pool is None
        pool = pool or ThreadPoolExecutor(max_workers=self.s.get('jobs', 8))
        futs = [pool.submit(self.run_group, g, tier) for g in groups]
        outs = [f.result() for f in futs]
        if own:
            pool.shutdown()
        results, undecided, traces = [], [], {}
        per = []
        for o in outs:
            per.append(dict(names=o['names'] if len(o['names']) == 1 else ['<%d automatic checks>' % len(o['names'])],
                            solver=o['solver'], time=round(o['time'], 2), attempts=o['attempts']))
            if not o['decided']:
                undecided += o['names']
                continue
            for r in o['results']:
                r['solver'] = o['solver']
                r['time'] = round(o['time'], 2)
                results.append(r)
                if r['res'] != 'SUCCESS' and o['trace']:
                    traces[r['name']] = o['trace']
        failed = [r for r in results if r['res'] != 'SUCCESS']
        status = 'undecided' if undecided else ('fail' if failed else 'ok')
        if failed and undecided:
            status = 'fail'
        return dict(status=status, results=results, undecided=undecided, per_group=per, traces=traces,
                    time=sum(o['time'] for o in outs), n_props=len(props),
                    cmd=' '.join(self.cbmc_cmd('<solver>', props=['<obligation>'])))

    def run(self, tier='quick', trace_on_fail=True):
        """-> dict(status: ok|fail|undecided, results=[...], solver=..., time=..., log=...)"""
        s = self.s
        timeout = s.get('timeout', {}).get(tier, 180) if isinstance(s.get('timeout'), dict) else s.get('timeout', 180)
        mem = s.get('mem_gb', DEFAULT_MEM_GB)
        attempts = []
        env = dict(os.environ, TMPDIR=self.wd)
        for solver in s.get('solvers', ['cadical', 'minisat']):
            cmd = self.cbmc_cmd(solver)
            rc, out, dt, to = sh(cmd, timeout, mem, cwd=self.wd, env=env)
            attempts.append(dict(solver=solver, rc=rc, time=round(dt, 2), timed_out=to))
            self.log += '$ ' + ' '.join(cmd) + '\n' + out[-200000:]
            if to:
                continue
            if re.search(r'ignoring forall|Parse Error|SMT2 solver returned error', out):
                attempts[-1]['note'] = 'quantifier/SMT problem in log'
                continue
            if 'VERIFICATION SUCCESSFUL' in out or 'VERIFICATION FAILED' in out:
                res = parse_results(out)
                failed = [r for r in res if r['res'] != 'SUCCESS']
                trace = None
                if failed and trace_on_fail:
                    rc2, out2, dt2, to2 = sh(self.cbmc_cmd(solver, trace=True) + ['--stop-on-fail'] if s.get('stop_on_fail_trace') else self.cbmc_cmd(solver, trace=True), timeout, mem, cwd=self.wd, env=env)
                    trace = out2
                return dict(status='fail' if failed else 'ok', results=res, solver=solver, time=dt, attempts=attempts, trace=trace,
                            cmd=' '.join(cmd))
            attempts[-1]['note'] = 'no verdict: ' + out[-300:].replace('\n', ' | ')
        return dict(status='undecided', results=[], solver=None, time=sum(a['time'] for a in attempts), attempts=attempts, trace=None,
                    cmd=' '.join(self.cbmc_cmd(s.get('solvers', ['cadical'])[0])))

    # ---- obligation identities
    def obligation_id(self, r):
        """stable id for a cbmc property"""
        nm = r['name']
        m = re.match(r'^(?P<f>[\w$]+)\.(?P<k>postcondition|precondition)\.(?P<n>\d+)$', nm)
        if m and r['line'] in self.line_labels:
            cname, kind, idx, label = self.line_labels[r['line']]
            if label:
                return label
        if m and r['line'] is not None:
            # precondition checked at a call site: line is that of the requires clause
            ll = self.line_labels.get(r['line'])
            if ll and ll[3]:
                return ll[3] + '@' + (r['func'] or '?')
        m2 = re.match(r'^(?P<f>[\w$]+)\.(?P<k>loop_invariant_base|loop_invariant_step)\.(?P<n>\d+)$', nm)
        if m2 and getattr(self, 'loop_labels', None):
            lab = self.loop_label(nm, r)
            if lab:
                return lab
        kind = re.sub(r'\.\d+$', '', nm)
        kind = kind.split('.', 1)[1] if '.' in kind else kind
        func = (r['func'] or nm.split('.')[0])
        desc = r['desc']
        return '%s:%s:%s' % (func, kind, desc)

    def loop_label(self, nm, r):
        """map loop_invariant_{base,step}.N to <cname>.loop<k>.<label>.<base|step> via clause order"""
        props = getattr(self, 'props', None)
        if not props:
            return None
        m = re.search(r'for loop ([\w$]+)\.(\d+)$', r['desc'])
        if not m:
            return None
        fn, k = m.group(1), int(m.group(2))
        cls = 'loop_invariant_base' if 'base' in nm else 'loop_invariant_step'
        same = sorted((int(p['name'].rsplit('.', 1)[1]), p['name']) for p in props.values()
                      if p['class'] == cls and p['description'].endswith('for loop %s.%d' % (fn, k)))
        names = [x[1] for x in same]
        labels = self.loop_labels.get((fn, k))
        if not labels or len(labels) != len(names) or nm not in names:
            return None
        return '%s.loop%d.%s.%s' % (fn, k, labels[names.index(nm)], 'base' if 'base' in nm else 'step')
