"""native replay support: compile a harness against /repo's real headers/sources with ASan+UBSan and run it"""
import os, subprocess, re, json
from . import astdump

VERIF = os.path.dirname(os.path.dirname(os.path.abspath(__file__)))


def build_native(src, out, extra=(), sanitize=True, timeout=600):
    cmd = ['g++', '-std=gnu++17', '-O1', '-g', '-w', '-DHAVE_CONFIG_H', '-I' + astdump.REPO + '/include', '-I' + astdump.REPO,
           '-I' + astdump.REPO + '/runtime', '-I' + astdump.REPO + '/utests']
    if sanitize:
        cmd += ['-fsanitize=address,undefined', '-fno-sanitize=alignment,vptr', '-fno-omit-frame-pointer', '-fno-sanitize-recover=undefined']
    cmd += [src, '-o', out] + list(extra) + ['-lPocoNet', '-lPocoUtil', '-lPocoFoundation', '-lpthread']
    p = subprocess.run(cmd, stdout=subprocess.PIPE, stderr=subprocess.STDOUT, text=True, timeout=timeout)
    if p.returncode != 0:
        raise RuntimeError('native build failed: ' + p.stdout[-1500:])
    return out


def run_native(exe, args, timeout=300):
    env = dict(os.environ, ASAN_OPTIONS='detect_leaks=0:abort_on_error=0', UBSAN_OPTIONS='print_stacktrace=1')
    p = subprocess.run([exe] + [str(a) for a in args], stdout=subprocess.PIPE, stderr=subprocess.STDOUT, text=True, timeout=timeout, env=env)
    return p.returncode, p.stdout


def num(v):
    """parse a cbmc trace value like '13ul', '-1', '4294967295u'"""
    m = re.match(r'^\(?\(?[a-z ]*\)?\s*(-?\d+)', v.strip())
    if not m:
        m = re.match(r'^(-?\d+)', v.strip())
    return int(m.group(1)) if m else None
