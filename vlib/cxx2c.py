"""AST -> C emitter.

Walks clang-14's JSON AST of a real fix8 function and pretty-prints it as C99 with
CBMC contract clauses spliced in at anchors given by the unit spec.  It is a
pretty-printer for a stated subset; every construct it has no rule for raises
Unsupported (the check then exits 2, never a verdict).  Each lowering rule that
fires is counted in self.rules so the evidence can list what extraction did.
"""
import re
from collections import OrderedDict, Counter


class Unsupported(Exception):
    pass


def ident(s):
    s = re.sub(r'\b(const|volatile|struct|class|enum|typename)\b', '', s)
    s = s.replace('unsigned ', 'u').replace('::', '_').replace('*', 'P').replace('&', 'R')
    s = re.sub(r'[^A-Za-z0-9_]+', '_', s).strip('_')
    s = re.sub(r'__+', '_', s)
    return s


def split_top(s, sep=','):
    out, depth, cur = [], 0, ''
    for ch in s:
        if ch in '<([':
            depth += 1
        elif ch in '>)]':
            depth -= 1
        if ch == sep and depth == 0:
            out.append(cur.strip())
            cur = ''
        else:
            cur += ch
    if cur.strip():
        out.append(cur.strip())
    return out


def fn_param_types(qual):
    """'R (A, B) const noexcept' -> (R, [A, B])"""
    depth = 0
    end = None
    # find the last top-level (...) group
    i = len(qual) - 1
    # strip trailing qualifiers
    m = re.search(r'\)(\s*(const|noexcept|volatile|&|&&|override|final|noexcept\([^)]*\)))*\s*$', qual)
    if not m:
        raise Unsupported('cannot parse function type %r' % qual)
    end = m.start()
    depth = 0
    j = end
    while j >= 0:
        if qual[j] == ')':
            depth += 1
        elif qual[j] == '(':
            depth -= 1
            if depth == 0:
                break
        j -= 1
    ret = qual[:j].strip()
    params = split_top(qual[j + 1:end])
    if params == ['void']:
        params = []
    return ret, params


BUILTIN = {'void', 'char', 'signed char', 'unsigned char', 'short', 'unsigned short', 'int', 'unsigned int',
           'long', 'unsigned long', 'long long', 'unsigned long long', 'float', 'double', 'long double',
           '_Bool', 'unsigned', '__int128', 'unsigned __int128'}


STD_TYPEDEFS = {'std::nullptr_t': 'void *', 'nullptr_t': 'void *', 'time_t': 'long', 'std::time_t': 'long', 'ssize_t': 'long', 'off_t': 'long', 'std::ptrdiff_t': 'long',
                'FIX8::fp_type': 'double', 'fp_type': 'double', 'std::streamsize': 'long'}


class Emitter:
    LOG_TYPES = re.compile(r'(std::(basic_)?ostream|std::basic_ostream<char>|FIX8::log_stream|FIX8::buffered_ostream|FIX8::null_insert|std::ostringstream|std::basic_ostringstream<char>)\b')

    def __init__(self, spec):
        self.spec = spec
        self.type_map = spec.get('type_map', [])       # list of (regex, ctype)
        self.aliases = spec.get('type_alias', [])      # list of (regex, C++ type text): member typedefs of template instantiations that clang leaves sugared
        self.lazy = spec.get('lazy_structs', [])        # list of regex of class names allowed as lazy structs
        self.calls = spec.get('calls', {})
        self.constants = spec.get('constants', {})      # short name -> C expression/text
        self.structs = OrderedDict()                    # cname -> OrderedDict(field -> declarator)
        self.struct_src = {}
        self.rules = Counter()
        self.used_constants = OrderedDict()             # name -> C++ qualified expr to probe
        self.enum_refs = OrderedDict()
        self.string_lits = 0
        self.protos = OrderedDict()

    # ------------------------------------------------------------------ types
    def tstr(self, t):
        if isinstance(t, dict):
            t = t.get('desugaredQualType') or t['qualType']
        for rx, rep in self.aliases:
            t = re.sub(rx, rep, t)
        return t

    def strip_cv(self, s):
        # cv-qualifiers are dropped at the top level only (template arguments keep theirs: <const char *, X> names a different class)
        out, depth, i = '', 0, 0
        for m in re.finditer(r'[<>]|\b(?:const|volatile)\b', s):
            out += s[i:m.start()]
            i = m.end()
            tok = m.group(0)
            if tok == '<':
                depth += 1
                out += tok
            elif tok == '>':
                depth -= 1
                out += tok
            elif depth > 0:
                out += tok
        s = out + s[i:]
        s = re.sub(r'\b(struct|class|enum)\s+', '', s)
        return re.sub(r'\s+', ' ', s).strip()

    def is_ref(self, t):
        s = self.tstr(t).strip()
        return s.endswith('&')

    def base_ctype(self, s):
        """map a non-pointer, non-array, non-reference type name to C"""
        s = self.strip_cv(s)
        if s == 'bool':
            return '_Bool'
        if s in BUILTIN:
            return s
        if s in ('size_t', 'std::size_t'):
            return 'unsigned long'
        m = re.fullmatch(r'(std::)?(u?int(8|16|32|64)_t|uintptr_t|intptr_t|ptrdiff_t)', s)
        if m:
            return m.group(2)
        if s in STD_TYPEDEFS:
            return STD_TYPEDEFS[s]
        if re.search(r'\(unnamed( enum)? at [^)]*\)$', s):
            return 'unsigned int'
        for rx, ct in self.type_map:
            if re.fullmatch(rx, s):
                return ct
        for rx in self.lazy:
            if re.fullmatch(rx, s):
                name = ident(s)
                self.structs.setdefault(name, OrderedDict())
                self.struct_src[name] = s
                return 'struct ' + name
        raise Unsupported('unmapped type %r' % s)

    def decl(self, t, name=''):
        """C declarator for clang type t and identifier name"""
        s = self.tstr(t).strip()
        return self._decl(s, name)

    def _decl(self, s, name):
        s = s.strip()
        for rx, rep in self.aliases:
            s = re.sub(rx, rep, s)
        # array suffix
        m = re.match(r'^(.*?)\s*((\[\d*\])+)$', s)
        if m and not m.group(1).rstrip().endswith(')'):
            return self._decl(m.group(1), name + m.group(2)) if name else self._decl(m.group(1), '') + m.group(2)
        # function pointer: R (*)(A,B)
        m = re.match(r'^(.*?)\(\*\)\s*\((.*)\)\s*(noexcept)?$', s)
        if m:
            ps = ', '.join(self._decl(p, '') for p in split_top(m.group(2))) or 'void'
            return '%s (*%s)(%s)' % (self._decl(m.group(1), ''), name, ps)
        s2 = re.sub(r'\s*\b(const|volatile|__restrict)\s*$', '', s)
        if s2 != s:
            return self._decl(s2, name)
        if s.endswith('&&'):
            self.rules['ref_to_pointer'] += 1
            return self._decl(s[:-2], '*' + name)
        if s.endswith('&'):
            self.rules['ref_to_pointer'] += 1
            return self._decl(s[:-1], '*' + name)
        if s.endswith('*'):
            return self._decl(s[:-1], '*' + name)
        b = self.base_ctype(s)
        return (b + ' ' + name).strip()

    def class_of(self, t):
        s = self.strip_cv(self.tstr(t))
        s = re.sub(r'[\s\*&]+$', '', s).strip()
        return s

    # ------------------------------------------------------------------ helpers
    def kids(self, n):
        return [c for c in n.get('inner', []) if isinstance(c, dict) and c.get('kind') not in
                ('FullComment', 'ParagraphComment', 'TextComment')]

    def unwrap(self, n):
        while n.get('kind') in ('ImplicitCastExpr', 'ParenExpr', 'ExprWithCleanups', 'MaterializeTemporaryExpr',
                                'CXXBindTemporaryExpr', 'ConstantExpr', 'SubstNonTypeTemplateParmExpr', 'CXXFunctionalCastExpr') and self.kids(n):
            n = self.kids(n)[0]
        return n

    def has_side_effect(self, n):
        k = n.get('kind')
        if k in ('CallExpr', 'CXXMemberCallExpr', 'CXXConstructExpr', 'CXXNewExpr', 'CXXDeleteExpr', 'CXXThrowExpr'):
            return True
        if k in ('CompoundAssignOperator',):
            return True
        if k == 'BinaryOperator' and n.get('opcode') in ('=',):
            return True
        if k == 'UnaryOperator' and n.get('opcode') in ('++', '--'):
            return True
        return any(self.has_side_effect(c) for c in self.kids(n))

    # ------------------------------------------------------------------ function
    def emit_function(self, fd, fspec):
        self.f = fspec
        self.fn = fd
        self.locals = {}
        self.refvars = set()
        self.loop_no = 0
        self.call_no = Counter()
        self.tmp_no = 0
        self.pre = None
        self.nohoist = 0
        self.labels_needed = set()
        self.ret_ref = False
        cname = fspec['cname']
        if not hasattr(self, 'fn_decls'):
            self.fn_decls = {}
        self.fn_decls[cname] = fd
        ret, ptypes = fn_param_types(fd['type']['qualType'])
        params = [c for c in self.kids(fd) if c['kind'] == 'ParmVarDecl']
        body = [c for c in self.kids(fd) if c['kind'] in ('CompoundStmt', 'CXXTryStmt')]
        if not body:
            raise Unsupported('no body for ' + cname)
        plist = []
        is_method = fd['kind'] in ('CXXMethodDecl', 'CXXConstructorDecl', 'CXXDestructorDecl', 'CXXConversionDecl')
        static = fd.get('storageClass') == 'static' or fspec.get('static', False)
        self.self_type = None
        if is_method and not static:
            st = fspec.get('self_type') or self._find_this_type(body[0])
            if st is None:
                st = 'void *'
                sdecl = 'void *self'
            else:
                sdecl = self.decl(st, 'self')
            self.self_type = st
            plist.append(sdecl)
            self.rules['method_to_function'] += 1
        for p in params:
            nm = p.get('name') or '__unnamed%d' % len(plist)
            self.locals[nm] = p['type']
            if self.is_ref(p['type']):
                self.refvars.add(nm)
            plist.append(self.decl(p['type'], nm))
        for g in fspec.get('ghost_params', []):
            plist.append(g)
        rett = fd['type'].get('desugaredQualType') and fn_param_types(fd['type']['desugaredQualType'])[0] or ret
        if fd['kind'] in ('CXXConstructorDecl', 'CXXDestructorDecl'):
            rdecl = 'void'
        else:
            self.ret_ref = rett.strip().endswith('&')
            rdecl = self._decl(rett, '')
        sig = '%s %s(%s)' % (rdecl, cname, ', '.join(plist) or 'void')
        self.protos[cname] = sig + ';'
        out = [sig]
        if fspec.get('contract'):
            out.append(fspec['contract'].rstrip())
        out.append('{')
        if self.ghost('entry'):
            out.append(self.ghost('entry'))
        if fd['kind'] == 'CXXConstructorDecl':
            out += self.ctor_inits(fd)
        b = body[0]
        if b['kind'] == 'CXXTryStmt':
            raise Unsupported('function-try-block')
        sel = fspec.get('select_stmts')
        if fspec.get('select_node'):
            # partial extraction of a nested block: the first statement (pre-order) that satisfies the spec's predicate is the whole body
            def find(x):
                if fspec['select_node'](x):
                    return x
                for c in self.kids(x):
                    r = find(c)
                    if r is not None:
                        return r
                return None
            hit = find(b)
            if hit is None:
                raise Unsupported('%s: select_node matched nothing' % cname)
            self.rules['nested_block_selected(%s)' % cname] += 1
            b = dict(kind='CompoundStmt', inner=[hit])
            sel = None
        if fspec.get('drop_stmts'):
            # deny-list form of partial extraction: every top-level statement is verified except the ones the spec's predicates name
            # (each predicate must match exactly one statement), so a statement added to the function lands in the verified text
            dropped = []
            for pred in fspec['drop_stmts']:
                hits = [i for i, st in enumerate(self.kids(b)) if pred(st)]
                if len(hits) != 1:
                    raise Unsupported('%s: a drop_stmts predicate matched %d top-level statements' % (cname, len(hits)))
                dropped += hits
            sel = [i for i in range(len(self.kids(b))) if i not in dropped]
        if sel is not None and any(callable(x) for x in sel):
            # predicates instead of ordinals: robust against statements added before the block of interest
            idx = []
            for pred in sel:
                hits = [i for i, st in enumerate(self.kids(b)) if (pred(st) if callable(pred) else i == pred)]
                if len(hits) != 1:
                    raise Unsupported('%s: a select_stmts predicate matched %d top-level statements' % (cname, len(hits)))
                idx += hits
            sel = idx
        for i, s in enumerate(self.kids(b)):
            if sel is not None and i not in sel:
                # partial extraction: only the selected top-level statements of the body are verified; the rest is listed as dropped
                self.rules['body_statement_not_selected(%s)' % cname] += 1
                continue
            self.top_level_stmt = s
            out += ['  ' + l for l in self.stmt(s)]
        self.top_level_stmt = None
        if sel is not None and max(sel) >= len(self.kids(b)):
            raise Unsupported('%s: select_stmts names statement %d but the body has %d' % (cname, max(sel), len(self.kids(b))))
        if '__unwind' in self.labels_needed:
            # exception lowering: the landing pad of a function that lets an exception escape (callers test __exc)
            self.rules['exception_unwind_epilogue'] += 1
            if rdecl.strip() == 'void':
                out = out + ['  return;', '  __unwind: return;']
            elif rdecl.startswith('struct ') and not rdecl.rstrip().endswith('*'):
                out = out + ['  __unwind: { %s __dummy = {0}; return __dummy; }' % rdecl]
            else:
                out = out + ['  __unwind: return (%s)0;' % rdecl]
        out.append('}')
        return '\n'.join(out)

    def ctor_inits(self, fd):
        out = []
        for c in fd.get('inner', []):
            if isinstance(c, dict) and c.get('kind') == 'CXXCtorInitializer':
                seli = self.f.get('select_inits')
                if seli is not None and 'anyInit' in c and c['anyInit']['name'] not in seli:
                    self.rules['ctor_initializer_not_selected(%s)' % self.f['cname']] += 1
                    continue
                if 'anyInit' in c:
                    fld = c['anyInit']
                    self.pre = []
                    init = self.kids(c)[0]
                    if init.get('kind') == 'CXXDefaultInitExpr':
                        # default member initialiser: the expression lives at the field's declaration (looked up by the unit builder)
                        init = (self.f.get('_nsdmi') or {}).get(fld['name'])
                        if init is None:
                            raise Unsupported('default member initialiser of %s not available' % fld['name'])
                        self.rules['default_member_initializer'] += 1
                    e = self.expr(init)
                    out += ['  ' + p for p in self.pre]
                    self.pre = None
                    self._note_field(self.self_type, fld['name'], fld['type'])
                    out.append('  self->%s = %s;' % (fld['name'], e))
                else:
                    raise Unsupported('base-class ctor initializer')
        return out

    def _find_this_type(self, n):
        if n.get('kind') == 'CXXThisExpr':
            return self.tstr(n['type'])
        for c in self.kids(n):
            r = self._find_this_type(c)
            if r:
                return r
        return None

    def ghost(self, anchor):
        g = self.f.get('ghost', {}).get(anchor)
        return g.rstrip() if g else None

    # ------------------------------------------------------------------ statements
    def with_pre(self, fn):
        """run fn() collecting hoisted pre-statements; returns (pre_lines, result)"""
        saved = self.pre
        self.pre = []
        try:
            r = fn()
            pre = self.pre
        finally:
            self.pre = saved
        return pre, r

    def is_log_stmt(self, n):
        t = n.get('type')
        if t and self.LOG_TYPES.search(self.tstr(t)):
            return True
        return False

    def check_droppable(self, n):
        """a dropped logging expression must not change verified state: allow only calls
        (operator<<, accessors) on things, no assignment / increment"""
        k = n.get('kind')
        if k in ('CompoundAssignOperator',) or (k == 'BinaryOperator' and n.get('opcode') == '=') or \
                (k == 'UnaryOperator' and n.get('opcode') in ('++', '--')) or k in ('CXXNewExpr', 'CXXDeleteExpr', 'CXXThrowExpr'):
            raise Unsupported('side effect inside dropped logging statement')
        for c in self.kids(n):
            self.check_droppable(c)

    def stmt(self, n):
        k = n['kind']
        if k == 'CompoundStmt':
            out = ['{']
            if not hasattr(self, 'block_guards'):
                self.block_guards = []
            self.block_guards.append([])
            for s in self.kids(n):
                out += ['  ' + l for l in self.stmt(s)]
            for rel in reversed(self.block_guards.pop()):
                out.append('  ' + rel)
            out.append('}')
            return out
        if k == 'DeclStmt':
            out = []
            for d in self.kids(n):
                out += self.vardecl(d)
            return out
        if k == 'NullStmt':
            return [';']
        if k == 'ReturnStmt':
            ks = self.kids(n)
            g = self.ghost('ret')
            gl = [g] if g else []
            if not ks:
                return gl + ['return;']
            pre, e = self.with_pre(lambda: self.expr(ks[0]))
            if self.ret_ref:
                e = '&(%s)' % e
            if gl:
                rt = self._decl(fn_param_types(self.fn['type'].get('desugaredQualType') or self.fn['type']['qualType'])[0], '__retv')
                return ['{'] + pre + [rt + ' = ' + e + ';'] + gl + ['return __retv;', '}']
            return self.blk(pre, ['return %s;' % e])
        if k == 'BreakStmt':
            return ['break;']
        if k == 'ContinueStmt':
            g = self.ghost('loop%d.continue' % self.cur_loop) if getattr(self, 'cur_loop', None) is not None else None
            return ([g] if g else []) + ['continue;']
        if k == 'GotoStmt':
            return ['goto %s;' % self.label_name(n)]
        if k == 'LabelStmt':
            out = ['%s: ;' % n['name']]
            for s in self.kids(n):
                out += self.stmt(s)
            return out
        if k == 'IfStmt':
            return self.ifstmt(n)
        if k == 'ForStmt':
            return self.forstmt(n)
        if k == 'WhileStmt':
            return self.whilestmt(n)
        if k == 'DoStmt':
            return self.dostmt(n)
        if k == 'SwitchStmt':
            return self.switchstmt(n)
        if k == 'CaseStmt':
            ks = self.kids(n)
            v = self.expr(ks[0])
            out = ['case %s:' % v]
            for s in ks[1:]:
                out += self.stmt(s)
            return out
        if k == 'DefaultStmt':
            out = ['default:']
            for s in self.kids(n):
                out += self.stmt(s)
            return out
        if k == 'CXXTryStmt':
            return self.trystmt(n)
        if k == 'CXXForRangeStmt':
            return self.rangefor(n)
        # expression statement
        if self.is_log_stmt(n) and not self.f.get('keep_logging'):
            self.check_droppable(n)
            self.rules['drop_logging_stmt'] += 1
            return ['/* logging statement dropped */;']
        pre, e = self.with_pre(lambda: self.expr(n, stmt=True))
        return self.blk(pre, [e + ';'] if e else [])

    def blk(self, pre, lines):
        if pre:
            return ['{'] + ['  ' + p for p in pre] + ['  ' + l for l in lines] + ['}']
        return lines

    def label_name(self, n):
        # GotoStmt has targetLabelDeclId only; need a map id->name
        tid = n.get('targetLabelDeclId')
        nm = self._labels().get(tid)
        if not nm:
            raise Unsupported('goto target not found')
        return nm

    def _labels(self):
        if not hasattr(self, '_label_cache') or self._label_cache[0] is not self.fn:
            m = {}

            def walk(x):
                if x.get('kind') == 'LabelStmt':
                    m[x.get('declId')] = x['name']
                for c in self.kids(x):
                    walk(c)
            walk(self.fn)
            self._label_cache = (self.fn, m)
        return self._label_cache[1]

    def vardecl(self, d):
        if d['kind'] in ('TypedefDecl', 'TypeAliasDecl', 'UsingDecl', 'StaticAssertDecl'):
            return []
        if d['kind'] == 'EnumDecl':
            # block-scope enum: its constants become literals (values in declaration order unless given), its type unsigned int
            self.rules['local_enum'] += 1
            if not hasattr(self, 'local_enums'):
                self.local_enums = {}
            nxt = 0
            for c in self.kids(d):
                if c.get('kind') == 'EnumConstantDecl':
                    ks = self.kids(c)
                    if ks:
                        v = self.unwrap(ks[0])
                        if 'value' not in v:
                            raise Unsupported('local enum constant with a non-literal value')
                        nxt = int(v['value'])
                    self.local_enums[c['name']] = nxt
                    nxt += 1
            return []
        if d['kind'] == 'CXXRecordDecl':
            raise Unsupported('local type declaration')
        if d['kind'] != 'VarDecl':
            raise Unsupported('decl kind ' + d['kind'])
        nm = d['name']
        t = d['type']
        if d.get('storageClass') == 'static' and not (self.f.get('allow_static_local') or re.match(r'^const\b', self.tstr(d['type']))):
            # a mutable function-local static of scalar type with a literal initialiser is the same thing in C
            u = self.kids(d)[0] if self.kids(d) else None
            while u is not None and u.get('kind') in ('ImplicitCastExpr', 'ExprWithCleanups', 'ConstantExpr') and self.kids(u):
                u = self.kids(u)[0]
            if u is not None and u.get('kind') == 'IntegerLiteral' and not self.is_struct_type(t) and not self.is_ref(t):
                self.locals[nm] = t
                self.rules['static_scalar_local'] += 1
                return ['static %s = %s;' % (self.decl(t, nm), self.expr(self.kids(d)[0]))]
            raise Unsupported('static local ' + nm)
        if d.get('storageClass') == 'static':
            self.rules['static_const_local_as_local'] += 1
        self.locals[nm] = t
        ks = self.kids(d)
        ts = self.tstr(t)
        cls = self.class_of(t)
        if self.is_guard_type(cls):
            gg = self.spec.get('guard_ghost')
            if gg:
                # lock discipline as ghost state: a scoped guard declared at the outermost level of the function body holds its lock from here to the end of
                # the function (that IS its scope), so `acquired` is recorded here and nothing has to be emitted at the returns; a guard in a nested scope is refused
                tl = getattr(self, 'top_level_stmt', None)
                nested = not (tl is not None and tl.get('kind') == 'DeclStmt' and d in self.kids(tl))
                if nested and not self.spec.get('guard_ghost_release'):
                    raise Unsupported('scoped guard %s in a nested scope (give guard_ghost_release to model its release at the end of the block)' % nm)
                u = ks[0] if ks else None
                while u is not None and u.get('kind') in ('ExprWithCleanups', 'CXXBindTemporaryExpr', 'MaterializeTemporaryExpr') and self.kids(u):
                    u = self.kids(u)[0]
                if u is None or u.get('kind') != 'CXXConstructExpr' or not self.kids(u):
                    raise Unsupported('scoped guard %s without a lock argument' % nm)
                self.rules['raii_guard_to_ghost_acquire'] += 1
                ga = self.kids(u)
                pre, e = self.with_pre(lambda: self.lvalue_addr(ga[0]))
                cond = ''
                if len(ga) >= 2 and ga[1].get('kind') != 'CXXDefaultArgExpr':
                    # f8_scoped_lock_impl(mutex, disable): the lock is taken only when `disable` is false
                    pre2, dis = self.with_pre(lambda: self.expr(ga[1]))
                    pre += pre2
                    cond = 'if (!(%s)) ' % dis
                if nested:
                    # released when control leaves the enclosing block by falling off its end (a `return` inside the block evaluates its expression while the lock is held)
                    self.block_guards[-1].append('%s(%s); /* scoped guard %s goes out of scope */' % (self.spec['guard_ghost_release'], e, nm))
                    return pre + ['%s%s(%s); /* scoped guard %s: held to the end of this block */' % (cond, gg, e, nm)]
                return pre + ['%s%s(%s); /* scoped guard %s: held until the function returns */' % (cond, gg, e, nm)]
            self.rules['drop_raii_guard'] += 1
            for c in ks:
                pass
            return ['/* RAII guard %s dropped */;' % nm]
        if self.is_ref(t):
            self.refvars.add(nm)
            if not ks:
                raise Unsupported('reference without init')
            pre, e = self.with_pre(lambda: self.lvalue_addr(ks[0]))
            return pre + ['%s = %s;' % (self.decl(t, nm), e)]
        dd = self.decl(t, nm)
        if not ks:
            return [dd + ';']
        init = ks[0]
        u = init
        while u.get('kind') in ('ExprWithCleanups', 'CXXBindTemporaryExpr', 'MaterializeTemporaryExpr') and self.kids(u):
            u = self.kids(u)[0]
        if u.get('kind') in ('CXXConstructExpr', 'CXXTemporaryObjectExpr'):
            pre, stmts = self.with_pre(lambda: self.construct_into(u, nm, t))
            return [dd + ';'] + pre + stmts
        if u.get('kind') == 'InitListExpr' and not self.kids(u):
            if re.search(r'\]$', ts) or self.is_struct_type(t):
                self.rules['value_init'] += 1
                return [dd + ' = {0};']
            return [dd + ' = 0;']
        pre, e = self.with_pre(lambda: self.expr(init))
        return pre + ['%s = %s;' % (dd, e)]

    def is_struct_type(self, t):
        try:
            return self._decl(self.tstr(t), '').startswith('struct ')
        except Unsupported:
            return False

    GUARDS = re.compile(r'(FIX8::)?(f8_scoped_lock_impl<.*>|f8_scoped_lock|f8_scoped_spin_lock|f8_spin_lock|std::lock_guard<.*>|std::unique_lock<.*>|FIX8::dthread_cancellation_token)$')

    def is_guard_type(self, cls):
        return bool(self.GUARDS.match(cls))

    def ifstmt(self, n):
        ks = n.get('inner', [])
        ks = [c for c in ks if isinstance(c, dict)]
        idx = 0
        out_pre = []
        if n.get('hasInit'):
            out_pre += self.stmt(ks[idx])
            idx += 1
        if n.get('hasVar'):
            # if (T x = e) ...: first child is DeclStmt for var, then cond refers to it
            out_pre += self.stmt(ks[idx])
            idx += 1
        cond = ks[idx]
        then = ks[idx + 1]
        els = ks[idx + 2] if len(ks) > idx + 2 else None
        # the `if (!is_loggable(..)) ; else log << ...` wrapper of the glout_/slout_ macros: dropped as a whole (the condition only reads the level mask)
        if els is not None and then.get('kind') == 'NullStmt' and self.is_log_stmt(els) and not self.f.get('keep_logging'):
            self.check_droppable(els)
            self.check_droppable(cond)
            self.rules['drop_logging_stmt'] += 1
            return ['/* logging statement dropped */;']
        pre, c = self.with_pre(lambda: self.expr(cond))
        out = list(pre)
        out.append('if (%s)' % c)
        out += self.as_block(then)
        if els is not None:
            out.append('else')
            out += self.as_block(els)
        if out_pre or pre:
            return ['{'] + ['  ' + l for l in out_pre + out] + ['}']
        return out

    def as_block(self, s):
        lines = self.stmt(s)
        if s['kind'] == 'CompoundStmt':
            return lines
        return ['{'] + ['  ' + l for l in lines] + ['}']

    def loop_contract(self, no):
        lc = self.f.get('loops', {}).get(no)
        return [lc.rstrip()] if lc else []

    def loop_body(self, body, no):
        saved = getattr(self, 'cur_loop', None)
        self.cur_loop = no
        gb = self.ghost('loop%d.begin' % no)
        ge = self.ghost('loop%d.end' % no)
        if body['kind'] == 'CompoundStmt':
            inner = []
            for s in self.kids(body):
                inner += ['  ' + l for l in self.stmt(s)]
        else:
            inner = ['  ' + l for l in self.stmt(body)]
        self.cur_loop = saved
        return ['{'] + (['  ' + gb] if gb else []) + inner + (['  ' + ge] if ge else []) + ['}']

    def forstmt(self, n):
        ks = n.get('inner', [])
        init, condvar, cond, inc, body = ks[0], ks[1], ks[2], ks[3], ks[4]
        no = self.loop_no
        self.loop_no += 1
        if condvar and condvar.get('kind'):
            raise Unsupported('for condition variable')
        out = []
        if init and init.get('kind'):
            out += self.stmt(init)
        self.nohoist += 1
        c = self.expr(cond) if cond and cond.get('kind') else '1'
        i = self.expr(inc, stmt=True) if inc and inc.get('kind') else ''
        self.nohoist -= 1
        gi = self.ghost('loop%d.inc' % no)
        if gi:
            i = (i + ', ' if i else '') + gi
        out.append('for (; %s; %s)' % (c, i))
        out += self.loop_contract(no)
        out += self.loop_body(body, no)
        ga = self.ghost('loop%d.after' % no)
        if ga:
            out.append(ga)
        return ['{'] + ['  ' + l for l in out] + ['}']

    def whilestmt(self, n):
        ks = [c for c in n.get('inner', []) if isinstance(c, dict)]
        no = self.loop_no
        self.loop_no += 1
        if n.get('hasVar'):
            raise Unsupported('while condition variable')
        cond, body = ks[0], ks[1]
        self.nohoist += 1
        c = self.expr(cond)
        self.nohoist -= 1
        out = ['while (%s)' % c] + self.loop_contract(no) + self.loop_body(body, no)
        ga = self.ghost('loop%d.after' % no)
        if ga:
            out.append(ga)
        return out

    def dostmt(self, n):
        ks = [c for c in n.get('inner', []) if isinstance(c, dict)]
        no = self.loop_no
        self.loop_no += 1
        body, cond = ks[0], ks[1]
        b = self.loop_body(body, no)
        self.nohoist += 1
        try:
            c = self.expr(cond)
        except Unsupported as ex:
            if 'hoisting is not possible' not in str(ex):
                raise
            c = None
        finally:
            self.nohoist -= 1
        if c is None:
            # the condition needs temporaries (e.g. `++itr != map.end()`): evaluate it at the end of the body into a flag;
            # a `continue` in the body would skip that evaluation, so it is refused
            def has_continue(x, depth=0):
                if not isinstance(x, dict):
                    return False
                if x.get('kind') == 'ContinueStmt':
                    return True
                if x.get('kind') in ('ForStmt', 'WhileStmt', 'DoStmt', 'CXXForRangeStmt') and depth > 0:
                    return False
                return any(has_continue(y, depth + 1) for y in x.get('inner', []))
            if has_continue(body):
                raise Unsupported('do-while whose condition needs temporaries and whose body has continue')
            pre, c2 = self.with_pre(lambda: self.expr(cond))
            flag = '__dc%d' % no
            assert b[-1] == '}'
            b = b[:-1] + ['  ' + l for l in pre] + ['  %s = %s;' % (flag, c2), '}']
            self.rules['do_while_condition_flag'] += 1
            lc = self.loop_contract(no)
            out = ['{', '  _Bool %s;' % flag, '  do'] + ['  ' + l for l in lc] + ['  ' + l for l in b] + ['  while (%s);' % flag]
            ga = self.ghost('loop%d.after' % no)
            if ga:
                out.append('  ' + ga)
            return out + ['}']
        lc = self.loop_contract(no)
        out = ['do'] + lc + b + ['while (%s);' % c]      # cbmc accepts loop contracts of a do-while only between `do` and the body
        ga = self.ghost('loop%d.after' % no)
        if ga:
            out.append(ga)
        return out

    def switchstmt(self, n):
        ks = [c for c in n.get('inner', []) if isinstance(c, dict)]
        if n.get('hasInit') or n.get('hasVar'):
            raise Unsupported('switch init/var')
        pre, c = self.with_pre(lambda: self.expr(ks[0]))
        out = pre + ['switch (%s)' % c] + self.as_block(ks[1])
        return self.blk([], out) if not pre else ['{'] + out + ['}']

    def trystmt(self, n):
        h = self.f.get('try_handler')
        if h:
            return h(self, n)
        if not self.spec.get('exceptions'):
            raise Unsupported('try statement (no exception lowering configured)')
        # generic lowering for handlers that only log: the protected block runs with its own landing pad; a pending exception is
        # swallowed there (that is what a logging-only handler does).  Any handler with an effect on verified state aborts the unit.
        ks = self.kids(n)
        body, handlers = ks[0], ks[1:]
        handler_ret = None
        if self.spec.get('catch_dispatch'):
            return self.try_dispatch(body, handlers)
        for hd in handlers:
            hb = [c for c in self.kids(hd) if c.get('kind') == 'CompoundStmt']
            sts = self.kids(hb[0]) if hb else []
            if sts and sts[-1].get('kind') == 'ReturnStmt':
                # handlers that log and then return a literal: every handler must return the same literal; the landing pad returns it
                rk = self.kids(sts[-1])
                lit = self.unwrap(rk[0]) if rk else None
                if lit is None or lit.get('kind') not in ('CXXBoolLiteralExpr', 'IntegerLiteral'):
                    raise Unsupported('catch handler returning a non-literal')
                val = self.expr(lit)
                if handler_ret not in (None, val):
                    raise Unsupported('catch handlers returning different values')
                handler_ret = val
                sts = sts[:-1]
            elif handler_ret is not None:
                raise Unsupported('catch handlers of one try block: some return, some fall through')
            for st in sts:
                if not (self.is_log_stmt(st) or (st.get('kind') == 'IfStmt' and self.is_log_stmt(([{}] + [c for c in st.get('inner', []) if isinstance(c, dict)])[-1]))):
                    raise Unsupported('catch handler with a non-logging statement')
                self.check_droppable(st)
        self.try_no = getattr(self, 'try_no', 0) + 1
        lab = '__catch_%d' % self.try_no
        if not hasattr(self, 'exc_stack') or self.exc_stack is None:
            self.exc_stack = []
        self.exc_stack.append(lab)
        try:
            inner = self.stmt(body)
        finally:
            self.exc_stack.pop()
        self.rules['try_with_logging_handlers'] += 1
        if handler_ret is not None:
            after = '__after_try_%d' % self.try_no
            return inner + ['goto %s;' % after, '%s: __exc = 0; return %s; /* handlers of this try block log and return this value */' % (lab, handler_ret), '%s: ;' % after]
        return inner + ['%s: __exc = 0; /* handlers of this try block only log: the exception is swallowed */' % lab]

    def try_dispatch(self, body, handlers):
        """general lowering (spec option catch_dispatch): the protected block runs with its own landing pad; there the pending exception kind is
        tested against each handler's class in order (EXC_ISA_<class>(kind) macros: the class hierarchy of the exception kinds is given by the
        spec and listed as an assumption); the matching handler's body is emitted through the ordinary rules with the exception object reduced to
        its kind; `throw;` re-raises the caught kind to the enclosing target; no match propagates."""
        self.try_no = getattr(self, 'try_no', 0) + 1
        no = self.try_no
        lab, after, caught = '__catch_%d' % no, '__after_try_%d' % no, '__caught_%d' % no
        if not hasattr(self, 'exc_stack') or self.exc_stack is None:
            self.exc_stack = []
        self.exc_stack.append(lab)
        try:
            inner = self.stmt(body)
        finally:
            self.exc_stack.pop()
        out = inner + ['goto %s;' % after, '%s: ;' % lab, '{', '  int %s = __exc; __exc = 0;' % caught]
        first = True
        for hd in handlers:
            hk = self.kids(hd)
            var = [c for c in hk if c.get('kind') == 'VarDecl']
            blk = [c for c in hk if c.get('kind') == 'CompoundStmt']
            if not blk:
                raise Unsupported('catch handler without a block')
            if var:
                cls = self.class_of(var[0]['type'])
                cond = 'EXC_ISA_%s(%s)' % (ident(re.sub(r'<.*>', '', cls)), caught)
            else:
                cond = '1'       # catch (...)
            out.append('  %sif (%s)' % ('' if first else 'else ', cond))
            first = False
            hl = ['{']
            if var and var[0].get('name'):
                nm = var[0]['name']
                self.locals[nm] = var[0]['type']
                hl.append('  int %s = %s; (void)%s; /* the exception object is reduced to its kind */' % (nm, caught, nm))
                self.exc_vars = getattr(self, 'exc_vars', set()) | {nm}
            saved = getattr(self, 'rethrow_kind', None)
            self.rethrow_kind = caught
            try:
                for st in self.kids(blk[0]):
                    hl += ['  ' + l for l in self.stmt(st)]
            finally:
                self.rethrow_kind = saved
            hl.append('}')
            out += ['  ' + l for l in hl]
        out.append('  %s{ __exc = %s; goto %s; } /* not caught here: propagate */' % ('' if first else 'else ', caught, self.exc_target()))
        out += ['}', '%s: ;' % after]
        self.rules['try_with_handler_dispatch'] += 1
        return out

    def rangefor(self, n):
        h = self.f.get('rangefor_handler')
        if h:
            return h(self, n)
        # generic lowering: clang spells a range-based for as  { init; auto&& __range = R; auto __begin = begin-expr; auto __end = end-expr;
        # for (; __begin != __end; ++__begin) { decl = *__begin; body } }  -- emit exactly those implicit statements through the ordinary rules
        ks = n.get('inner', [])
        if len(ks) != 8:
            raise Unsupported('range-for with %d children' % len(ks))
        init, rng, beg, end, cond, inc, var, body = ks
        no = self.loop_no
        self.loop_no += 1
        out = []
        for d in (init, rng, beg, end):
            if d and d.get('kind'):
                out += self.stmt(d)
        self.nohoist += 1
        c = self.expr(cond)
        i = self.expr(inc, stmt=True)
        self.nohoist -= 1
        gi = self.ghost('loop%d.inc' % no)
        if gi:
            i = (i + ', ' if i else '') + gi
        out.append('for (; %s; %s)' % (c, i))
        out += self.loop_contract(no)
        saved = getattr(self, 'cur_loop', None)
        self.cur_loop = no
        gb = self.ghost('loop%d.begin' % no)
        ge = self.ghost('loop%d.end' % no)
        inner = ['  ' + l for l in self.stmt(var)]
        for st in (self.kids(body) if body['kind'] == 'CompoundStmt' else [body]):
            inner += ['  ' + l for l in self.stmt(st)]
        self.cur_loop = saved
        out += ['{'] + (['  ' + gb] if gb else []) + inner + (['  ' + ge] if ge else []) + ['}']
        ga = self.ghost('loop%d.after' % no)
        if ga:
            out.append(ga)
        self.rules['range_for_to_iterator_loop'] += 1
        return ['{'] + ['  ' + l for l in out] + ['}']

    # ------------------------------------------------------------------ expressions
    def hoist(self, decl_line, *more):
        if self.pre is None or self.nohoist:
            raise Unsupported('temporary needed where hoisting is not possible')
        self.pre.append(decl_line)
        for m in more:
            self.pre.append(m)

    def newtmp(self):
        self.tmp_no += 1
        return '__t%d' % self.tmp_no

    def lvalue_addr(self, n):
        """address of the object designated by expression n (for reference binding)"""
        u = n
        while u.get('kind') in ('ExprWithCleanups', 'CXXBindTemporaryExpr') and self.kids(u):
            u = self.kids(u)[0]
        if u.get('kind') == 'MaterializeTemporaryExpr' or u.get('valueCategory') == 'prvalue':
            # bind reference to temporary -> hoist
            inner = self.kids(u)[0] if u.get('kind') == 'MaterializeTemporaryExpr' else u
            t = u['type']
            tmp = self.newtmp()
            self.rules['materialize_temporary'] += 1
            iu = inner
            while iu.get('kind') in ('CXXBindTemporaryExpr', 'ImplicitCastExpr') and iu.get('castKind', 'NoOp') in ('NoOp',) and self.kids(iu):
                iu = self.kids(iu)[0]
            if iu.get('kind') in ('CXXConstructExpr', 'CXXTemporaryObjectExpr'):
                self.hoist(self.decl(t, tmp) + ';')
                stmts = self.construct_into(iu, tmp, t)
                for s in stmts:
                    self.hoist(s)
            else:
                e = self.expr(inner)
                self.hoist('%s = %s;' % (self.decl(t, tmp), e))
            return '&' + tmp
        e = self.expr(u)
        if e.startswith('(*') and e.endswith(')') and self._balanced(e[2:-1]):
            return e[2:-1]
        return '&(%s)' % e

    @staticmethod
    def _balanced(s):
        d = 0
        for ch in s:
            if ch == '(':
                d += 1
            elif ch == ')':
                d -= 1
                if d < 0:
                    return False
        return d == 0

    def cast(self, t, e):
        return '((%s)(%s))' % (self.decl(t, ''), e)

    def expr(self, n, stmt=False):
        k = n['kind']
        m = getattr(self, 'e_' + k, None)
        if m is None:
            raise Unsupported('expression kind ' + k)
        return m(n) if k not in ('CallExpr', 'CXXMemberCallExpr', 'CXXOperatorCallExpr', 'ExprWithCleanups', 'ImplicitCastExpr') else m(n, stmt)

    def e_ParenExpr(self, n):
        return '(%s)' % self.expr(self.kids(n)[0])

    def e_ConstantExpr(self, n):
        return self.expr(self.kids(n)[0])

    e_SubstNonTypeTemplateParmExpr = e_ConstantExpr
    e_CXXBindTemporaryExpr = e_ConstantExpr

    def e_ExprWithCleanups(self, n, stmt=False):
        return self.expr(self.kids(n)[0], stmt)

    def e_MaterializeTemporaryExpr(self, n):
        # used as prvalue->xvalue/lvalue; when its address is needed lvalue_addr handles it.
        inner = self.kids(n)[0]
        if self.is_struct_type(n['type']) or True:
            a = self.lvalue_addr(n)
            return '(*%s)' % a if not a.startswith('&') else a[1:]

    def e_CXXDefaultArgExpr(self, n):
        ks = self.kids(n)
        if ks:
            return self.expr(ks[0])
        raise Unsupported('default argument without expression (clang-14 omits it): supply via spec default_args')

    def e_IntegerLiteral(self, n):
        t = self.tstr(n['type'])
        v = n['value']
        suf = {'int': '', 'unsigned int': 'u', 'long': 'l', 'unsigned long': 'ul', 'long long': 'll', 'unsigned long long': 'ull'}.get(t)
        if suf is None:
            return self.cast(n['type'], v)
        return v + suf

    def e_CharacterLiteral(self, n):
        return '((char)%d)' % n['value']

    def e_CXXBoolLiteralExpr(self, n):
        return '((_Bool)1)' if n['value'] else '((_Bool)0)'

    def e_CXXNullPtrLiteralExpr(self, n):
        return '((void*)0)'

    def e_GNUNullExpr(self, n):
        return '((void*)0)'

    def e_FloatingLiteral(self, n):
        v = n['value']
        if 'e' not in v and '.' not in v and 'inf' not in v:
            v += '.0'
        t = self.tstr(n['type'])
        return v + ('f' if t == 'float' else '')

    def e_StringLiteral(self, n):
        # cbmc's C front end reads octal escapes greedily ("\00134=" becomes the two bytes '\\' '='): end the literal piece after every
        # numeric escape (adjacent literals are concatenated by the language)
        v = n['value']
        v2 = re.sub(r'(\\(?:[0-7]{1,3}|x[0-9a-fA-F]+))(?=[0-9a-fA-F])', r'\1" "', v)
        if v2 != v:
            self.rules['string_literal_escape_split'] += 1
        return v2

    def e_ImplicitValueInitExpr(self, n):
        return '0'

    def e_CXXScalarValueInitExpr(self, n):
        return self.cast(n['type'], '0')

    def e_UnaryExprOrTypeTraitExpr(self, n):
        if n.get('name') != 'sizeof':
            raise Unsupported('type trait ' + str(n.get('name')))
        if 'argType' in n:
            return 'sizeof(%s)' % self.decl(n['argType'], '')
        return 'sizeof(%s)' % self.expr(self.kids(n)[0])

    def e_CXXThisExpr(self, n):
        return 'self'

    def e_DeclRefExpr(self, n):
        r = n['referencedDecl']
        nm = r['name']
        rk = r['kind']
        if rk in ('ParmVarDecl', 'VarDecl'):
            if nm in self.locals:
                return '(*%s)' % nm if nm in self.refvars else nm
            if nm in self.constants:
                self.rules['global_constant'] += 1
                self.used_constants[nm] = self.constants[nm]
                return self.constants[nm] if not self.constants[nm].startswith('probe:') else 'K_' + nm
            if nm in self.spec.get('globals', {}):
                return self.spec['globals'][nm]
            raise Unsupported('reference to non-local variable %s (type %s); add to spec constants/globals' % (nm, self.tstr(r['type'])))
        if rk == 'EnumConstantDecl' and nm in getattr(self, 'local_enums', {}):
            return '%du' % self.local_enums[nm]
        if rk == 'EnumConstantDecl':
            et = self.strip_cv(self.tstr(r['type']))
            if '(unnamed' in et or '(anonymous' in et:
                # enumerator of an unnamed enum: it is reachable as <enclosing scope>::<name>
                et = re.sub(r'::\((unnamed|anonymous)[^)]*\)$', '', et)
            key = et + '::' + nm
            cn = 'E_' + ident(key)
            self.enum_refs[cn] = key
            self.rules['enum_constant'] += 1
            return cn
        if rk in ('FunctionDecl', 'CXXMethodDecl'):
            return self.callee_name(nm, r['type']['qualType'], None)
        if rk == 'BindingDecl':
            raise Unsupported('structured binding')
        raise Unsupported('DeclRef to ' + rk)

    def e_ArraySubscriptExpr(self, n):
        a, b = self.kids(n)
        return '%s[%s]' % (self.expr(a), self.expr(b))

    def _note_field(self, cls_t, fname, ftype):
        """record a field use on a lazy struct"""
        ct = self._decl(self.class_of(cls_t), '')
        if ct.startswith('struct '):
            sn = ct[7:]
            if sn in self.structs and fname not in self.structs[sn] and not self.spec.get('full_structs', {}).get(sn):
                self.structs[sn][fname] = self.decl(ftype, fname)
                self.rules['lazy_struct_field'] += 1

    def e_MemberExpr(self, n):
        base = self.kids(n)[0]
        nm = n['name']
        bt = base['type']
        if self.tstr(n['type']) == '<bound member function type>':
            raise Unsupported('bound member function outside call')
        b = self.expr(base)
        fa = self.spec.get('field_access', {}).get(self.class_of(bt) + '::' + nm)
        if fa:
            self.rules['field_access_override'] += 1
            return fa % ((b if n.get('isArrow') else '(&%s)' % b),)
        self._note_field(bt, nm, n['type'])
        op = '->' if n.get('isArrow') else '.'
        if self.is_ref(n['type']):
            return '(*%s%s%s)' % (b, op, nm)
        return '%s%s%s' % (b, op, nm)

    def e_UnaryOperator(self, n):
        op = n['opcode']
        e = self.expr(self.kids(n)[0])
        if op in ('++', '--'):
            return '(%s%s)' % (e, op) if n.get('isPostfix') else '(%s%s)' % (op, e)
        if op == '*':
            return '(*%s)' % e
        if op == '&':
            if e.startswith('(*') and e.endswith(')') and self._balanced(e[2:-1]):
                return e[2:-1]
            return '(&%s)' % e
        if op in ('-', '+', '~', '!'):
            return '(%s%s)' % (op, e)
        if op == '__extension__':
            return e
        raise Unsupported('unary ' + op)

    def e_BinaryOperator(self, n):
        op = n['opcode']
        a, b = self.kids(n)
        if op in ('&&', '||'):
            ea = self.expr(a)
            saved_tmp = self.tmp_no
            self.nohoist += 1
            try:
                eb = self.expr(b)
                return '(%s %s %s)' % (ea, op, eb)
            except Unsupported as e:
                if 'hoisting is not possible' not in str(e) or self.nohoist > 1 or self.pre is None:
                    raise
            finally:
                self.nohoist -= 1
            # the right operand needs temporaries: keep the short circuit with an explicit if on a result temporary
            self.tmp_no = saved_tmp
            self.rules['short_circuit_to_if'] += 1
            res = self.newtmp()
            preb, eb = self.with_pre(lambda: self.expr(b))
            self.hoist('_Bool %s = (_Bool)(%s);' % (res, ea),
                       'if (%s%s) { %s %s = (_Bool)(%s); }' % ('' if op == '&&' else '!', res, ' '.join(preb), res, eb))
            return res
        if op == ',':
            return '(%s, %s)' % (self.expr(a), self.expr(b))
        if op in ('.*', '->*'):
            raise Unsupported('pointer to member')
        ea = self.expr(a)
        eb = self.expr(b)
        if op == '=' and self.is_struct_type(n['type']):
            self.rules['struct_assign'] += 1
        return '(%s %s %s)' % (ea, op, eb)

    def e_CompoundAssignOperator(self, n):
        a, b = self.kids(n)
        return '(%s %s %s)' % (self.expr(a), n['opcode'], self.expr(b))

    def e_ConditionalOperator(self, n):
        c, a, b = self.kids(n)
        ec = self.expr(c)
        saved_tmp = self.tmp_no
        self.nohoist += 1
        try:
            ea, eb = self.expr(a), self.expr(b)
            return '(%s ? %s : %s)' % (ec, ea, eb)
        except Unsupported as e:
            if 'hoisting is not possible' not in str(e) or self.nohoist > 1 or self.pre is None or n.get('valueCategory') != 'prvalue':
                raise
        finally:
            self.nohoist -= 1
        # a branch needs a temporary (e.g. a prvalue bound to a reference parameter): lower `c ? a : b` to an if/else on a result temporary,
        # so the branch's temporaries are still evaluated only when the branch is taken
        self.tmp_no = saved_tmp
        self.rules['conditional_to_if_else'] += 1
        res = self.newtmp()
        prea, ea = self.with_pre(lambda: self.expr(a))
        preb, eb = self.with_pre(lambda: self.expr(b))
        self.hoist(self.decl(n['type'], res) + ';',
                   'if (%s) { %s %s = %s; } else { %s %s = %s; }' % (ec, ' '.join(prea), res, ea, ' '.join(preb), res, eb))
        return res

    PASS_CASTS = ('LValueToRValue', 'NoOp', 'FunctionToPointerDecay', 'ArrayToPointerDecay', 'ConstructorConversion',
                  'UserDefinedConversion', 'BuiltinFnToFnPtr')
    VALUE_CASTS = ('IntegralCast', 'IntegralToBoolean', 'IntegralToFloating', 'FloatingToIntegral', 'FloatingCast',
                   'PointerToBoolean', 'BitCast', 'NullToPointer', 'IntegralToPointer', 'PointerToIntegral',
                   'FloatingToBoolean', 'BooleanToSignedIntegral')

    def e_ImplicitCastExpr(self, n, stmt=False):
        ck = n['castKind']
        inner = self.kids(n)[0]
        if ck in self.PASS_CASTS:
            return self.expr(inner, stmt) if inner['kind'] in ('CallExpr', 'CXXMemberCallExpr', 'CXXOperatorCallExpr') else self.expr(inner)
        if ck in self.VALUE_CASTS:
            if ck == 'NullToPointer':
                return '((void*)0)'
            return self.cast(n['type'], self.expr(inner))
        if ck == 'LValueBitCast':
            # reinterpret_cast<T&>(lvalue): the same object viewed through another type
            self.rules['lvalue_bitcast'] += 1
            e = self.expr(inner)
            return '(*(%s)(&%s))' % (self._decl(self.tstr(n['type']) + ' *', ''), e)
        if ck == 'ToVoid':
            return '((void)%s)' % self.expr(inner, stmt) if inner['kind'] in ('CallExpr', 'CXXMemberCallExpr', 'CXXOperatorCallExpr') else '((void)%s)' % self.expr(inner)
        if ck in ('DerivedToBase', 'UncheckedDerivedToBase'):
            self.rules['derived_to_base'] += 1
            e = self.expr(inner)
            src = self._decl(self.class_of(inner['type']), '')
            dst = self._decl(self.class_of(n['type']), '')
            if src == dst:
                return e
            conv = self.spec.get('base_cast', {}).get((src, dst))
            bases = self.spec.get('bases', {})
            scls = self.class_of(inner['type'])
            if conv is None and bases.get(scls) and self._decl(bases[scls], '') == dst and src.startswith('struct '):
                # single inheritance listed in the spec: the base subobject is the first member `__base` of the derived struct
                self.rules['base_subobject_member'] += 1
                self.structs[src[7:]].setdefault('__base', dst + ' __base')
                self.structs[src[7:]].move_to_end('__base', last=False)
                conv = '(&(%s)->__base)'
            if conv is None:
                raise Unsupported('derived-to-base cast %s -> %s (alias the classes in type_map or give base_cast)' % (src, dst))
            isptr = self.tstr(inner['type']).strip().endswith('*')
            return conv % (e if isptr else '(&%s)' % e) if isptr else '(*%s)' % (conv % ('(&%s)' % e))
        raise Unsupported('cast kind ' + ck)

    def e_CStyleCastExpr(self, n):
        return self.e_ImplicitCastExpr(n)

    e_CXXStaticCastExpr = e_CStyleCastExpr
    e_CXXReinterpretCastExpr = e_CStyleCastExpr
    e_CXXConstCastExpr = e_CStyleCastExpr

    def e_CXXFunctionalCastExpr(self, n):
        return self.e_ImplicitCastExpr(n)

    def e_InitListExpr(self, n):
        ks = self.kids(n)
        if len(ks) == 1 and not self.is_struct_type(n['type']) and not self.tstr(n['type']).endswith(']'):
            return self.expr(ks[0])
        if not ks:
            return '0' if not self.is_struct_type(n['type']) else '{0}'
        return '{' + ', '.join(self.expr(c) for c in ks) + '}'

    # ----- calls
    def rx_call(self, key):
        """fallback call table: (regex on the qualified callee name) -> model, for families of template instantiations"""
        for rx, tgt in self.spec.get('calls_rx', []):
            if re.fullmatch(rx, key):
                return tgt
        return None

    def callee_name(self, key, sig, cls, n=None, args=None):
        """resolve a callee to a C function name through the spec's call table"""
        r = self._callee_name(key, sig, cls)
        if callable(r):
            # overloaded free functions / operators: the spec chooses by the argument types
            if n is None:
                raise Unsupported('callable call-table entry for %s used where the call node is not available' % key)
            r = r(self, n, args or [])
        return r

    def _callee_name(self, key, sig, cls):
        full = (cls + '::' + key) if cls else key
        fc = self.f.get('calls', {})
        if full in fc:
            return fc[full]
        ent = self.calls.get(full + '|' + sig)
        if ent is None:
            ent = self.calls.get(full)
        if ent is None:
            ent = self.rx_call(full)
        if ent is None:
            raise Unsupported('unmodelled call: key=%r sig=%r' % (full, sig))
        return ent

    def default_arg(self, cname, i, callee_sig):
        d = self.spec.get('default_args', {}).get(cname, {}).get(i)
        if d is not None:
            return d
        fd = getattr(self, 'fn_decls', {}).get(cname)
        if fd is not None:
            ps = [c for c in self.kids(fd) if c['kind'] == 'ParmVarDecl']
            if i < len(ps) and self.kids(ps[i]):
                self.rules['default_argument_from_callee_decl'] += 1
                return self.expr(self.kids(ps[i])[0])
        raise Unsupported('defaulted argument %d of call to %s (%s) not materialised by clang; give default_args' % (i, cname, callee_sig))

    def args_for(self, callee_sig, args, cname=None):
        """emit args; reference parameters receive addresses"""
        try:
            _, ptypes = fn_param_types(callee_sig)
        except Unsupported:
            ptypes = []
        out = []
        for i, a in enumerate(args):
            if a.get('kind') == 'CXXDefaultArgExpr' and not self.kids(a):
                out.append(self.default_arg(cname, i, callee_sig))
                continue
            pt = ptypes[i] if i < len(ptypes) else None
            if pt and pt != '...' and pt.strip().endswith('&'):
                out.append(self.lvalue_addr(a))
            else:
                out.append(self.expr(a))
        return out

    def finish_call(self, cname, argl, n, stmt, sig):
        ord_ = self.call_no[cname]
        self.call_no[cname] += 1
        extra = self.f.get('ghost_args', {}).get('%s#%d' % (cname, ord_)) or self.f.get('ghost_args', {}).get(cname)
        if extra:
            argl = argl + ([extra] if isinstance(extra, str) else list(extra))
        call = '%s(%s)' % (cname, ', '.join(argl))
        gb = self.ghost('call:%s#%d.before' % (cname, ord_))
        ga = self.ghost('call:%s#%d.after' % (cname, ord_)) or self.ghost('call:%s.after' % cname)
        thr = self.spec.get('may_throw', {}).get(cname)
        rett = self.tstr(fn_param_types(sig)[0]) if sig else 'void'
        isref = rett.strip().endswith('&')
        if gb or ga or thr:
            # needs statement context
            isvoid = self.tstr(n['type']).strip() == 'void'
            post = []
            if ga:
                post.append(ga)
            if thr:
                post.append(self.exc_check())
            if gb:
                self.hoist(gb)
            if isvoid or stmt:
                self.hoist(call + ';', *post)
                return ''
            tmp = self.newtmp()
            self.hoist('%s = %s;' % (self._decl(rett if not isref else rett, tmp), call), *post)
            return '(*%s)' % tmp if isref else tmp
        return '(*%s)' % call if isref else call

    def exc_check(self):
        return 'if (__exc) goto %s;' % self.exc_target()

    def exc_target(self):
        t = getattr(self, 'exc_stack', None)
        if t:
            return t[-1]
        self.labels_needed.add('__unwind')
        return '__unwind'

    def e_CallExpr(self, n, stmt=False):
        ks = self.kids(n)
        callee = self.unwrap(ks[0])
        args = ks[1:]
        if callee['kind'] == 'DeclRefExpr':
            r = callee['referencedDecl']
            sig = r['type']['qualType']
            h = self.spec.get('call_handlers', {}).get(r['name'])
            if h:
                return h(self, n, args, stmt)
            cname = self.callee_name(r['name'], sig, None, n, args)
            if isinstance(cname, dict):
                sig = cname.get('sig', sig)
                cname = cname['c']
            return self.finish_call(cname, self.args_for(sig, args, cname), n, stmt, sig)
        if callee['kind'] == 'MemberExpr':
            return self.e_CXXMemberCallExpr(n, stmt)
        raise Unsupported('call through ' + callee['kind'])

    def e_CXXMemberCallExpr(self, n, stmt=False):
        ks = self.kids(n)
        me = self.unwrap(ks[0])
        if me['kind'] == 'BinaryOperator' and me.get('opcode') in ('.*', '->*') and self.spec.get('ptr_to_member_call'):
            # (obj.*pmf)(args): the callee is data; the spec names the model function that stands for "invoke the member function pmf on obj"
            self.rules['pointer_to_member_call'] += 1
            obj, pmf = self.kids(me)
            oe = self.expr(obj)
            oaddr = oe if me['opcode'] == '->*' else (oe[2:-1] if (oe.startswith('(*') and oe.endswith(')') and self._balanced(oe[2:-1])) else '&(%s)' % oe)
            pt = self.tstr(pmf['type'])
            mm = re.match(r'^(.*?)\((?:[\w:<>, ]+)::\*\)\s*\((.*)\)[^()]*$', pt)
            if mm and '&' in mm.group(2):
                # reference parameters of the pointed-to member function: pass addresses, exactly as for a direct call
                psig = '%s(%s)' % (mm.group(1), mm.group(2))
                argl = [oaddr, self.expr(pmf)] + self.args_for(psig, ks[1:], self.spec['ptr_to_member_call'])
            else:
                argl = [oaddr, self.expr(pmf)] + [self.expr(a) for a in ks[1:]]
            return self.finish_call(self.spec['ptr_to_member_call'], argl, n, stmt, self.tstr(n['type']) + ' ()')
        if me['kind'] != 'MemberExpr':
            raise Unsupported('member call through ' + me['kind'])
        base = self.kids(me)[0]
        cls = self.class_of(base['type'])
        nm = me['name']
        args = ks[1:]
        sig = self.f.get('member_sigs', {}).get(cls + '::' + nm) or self.spec.get('member_sigs', {}).get(cls + '::' + nm)
        h = self.spec.get('call_handlers', {}).get(cls + '::' + nm)
        if h:
            return h(self, n, args, stmt)
        if nm.startswith('operator ') and not self.calls.get(cls + '::' + nm):
            # conversion operator of a class the spec maps to a plain scalar (atomics as plain variables): the object itself
            try:
                if self.base_ctype(cls) in BUILTIN:
                    self.rules['scalar_wrapper_conversion'] += 1
                    return self.expr(base)
            except Unsupported:
                pass
        ent = (self.f.get('calls') or {}).get(cls + '::' + nm)      # per-function override (e.g. a callee replaced by its contract model in one caller only)
        if ent is None:
            ent = self.calls.get(cls + '::' + nm)
        if ent is None:
            ent = self.rx_call(cls + '::' + nm)
        if callable(ent):
            # overloaded / templated members: the spec chooses by the argument types
            ent = ent(self, n, args)
        if ent is None:
            raise Unsupported('unmodelled call: key=%r (member; give calls[key] and member_sigs[key] if it has reference params)' % (cls + '::' + nm))
        if isinstance(ent, dict):
            cname, sig = ent['c'], ent.get('sig', sig)
        else:
            cname = ent
        b = self.expr(base)
        if me.get('isArrow'):
            selfarg = b
        else:
            selfarg = b[2:-1] if (b.startswith('(*') and b.endswith(')') and self._balanced(b[2:-1])) else '&(%s)' % b
            if base.get('valueCategory') == 'prvalue' or base['kind'] in ('MaterializeTemporaryExpr',):
                selfarg = self.lvalue_addr(base)
        if sig:
            argl = self.args_for(sig, args, cname)
        else:
            argl = []
            for i, a in enumerate(args):
                if a.get('kind') == 'CXXDefaultArgExpr' and not self.kids(a):
                    argl.append(self.default_arg(cname, i, ''))
                    continue
                if self.is_struct_type(a['type']) and a.get('valueCategory') == 'lvalue':
                    raise Unsupported('member call %s::%s with class-typed lvalue arg needs member_sigs entry' % (cls, nm))
                argl.append(self.expr(a))
        rsig = sig or (self.tstr(n['type']) + ' ()')
        return self.finish_call(cname, [selfarg] + argl, n, stmt, rsig)

    def e_CXXOperatorCallExpr(self, n, stmt=False):
        ks = self.kids(n)
        callee = self.unwrap(ks[0])
        args = ks[1:]
        r = callee['referencedDecl']
        sig = r['type']['qualType']
        nm = r['name']
        if args and nm in ('operator==', 'operator!=', 'operator++', 'operator--', 'operator*', 'operator->', 'operator-', 'operator+', 'operator<', 'operator<=', 'operator>', 'operator>='):
            # iterator classes the spec maps to a plain C pointer (type_map target ends in '*'): the built-in pointer operators
            try:
                ptr_iter = self._decl(self.class_of(args[0]['type']), '').rstrip().endswith('*')
            except Unsupported:
                ptr_iter = False
            if ptr_iter:
                self.rules['pointer_iterator_operator'] += 1
                op = nm[len('operator'):]
                lhs = self.expr(args[0])
                if op in ('==', '!=', '<', '<=', '>', '>=') or (op in ('-', '+') and len(args) == 2):
                    return '(%s %s %s)' % (lhs, op, self.expr(args[1]))
                if op in ('++', '--'):
                    return '(%s%s)' % (lhs, op) if len(args) > 1 else '(%s%s)' % (op, lhs)
                if op == '*' and len(args) == 1:
                    return '(*%s)' % lhs
                if op == '->':
                    return lhs
        if r['kind'] == 'CXXMethodDecl':
            cls = self.class_of(args[0]['type'])
            key = cls + '::' + nm
            h = self.spec.get('call_handlers', {}).get(key)
            if h:
                return h(self, n, args, stmt)
            if nm in ('operator=', 'operator+=', 'operator-=', 'operator++', 'operator--', 'operator|=', 'operator&=') and not (self.calls.get(key + '|' + sig) or self.calls.get(key)):
                # operators of a class the spec maps to a plain scalar (atomics as plain variables): the C operator on the object itself
                try:
                    scalar = self.base_ctype(cls) in BUILTIN
                except Unsupported:
                    scalar = False
                if scalar:
                    self.rules['scalar_wrapper_operator'] += 1
                    op = nm[len('operator'):]
                    lhs = self.expr(args[0])
                    if op in ('++', '--'):
                        return '(%s%s)' % (lhs, op) if len(args) > 1 else '(%s%s)' % (op, lhs)     # postfix forms carry a dummy int argument
                    return '(%s %s %s)' % (lhs, op, self.expr(args[1]))
            if nm == 'operator=' and any(re.fullmatch(rx, cls) for rx in self.spec.get('pod', [])) and len(args) == 2 \
                    and self.class_of(args[1]['type']) == cls and not (self.calls.get(key + '|' + sig) or self.calls.get(key)):
                # copy assignment of a class the spec declares plain data: memberwise = struct assignment
                self.rules['pod_copy_assign'] += 1
                return '(%s = %s)' % (self.expr(args[0]), self.expr(args[1]))
            cname = self.callee_name(nm, sig, cls)
            if isinstance(cname, dict):
                cname = cname['c']
            selfarg = self.lvalue_addr(args[0])
            argl = [selfarg] + self.args_for(sig, args[1:], cname)
        else:
            h = self.spec.get('call_handlers', {}).get(nm + '|' + sig) or self.spec.get('call_handlers', {}).get(nm)
            if h:
                return h(self, n, args, stmt)
            cname = self.callee_name(nm, sig, None, n, args)
            if isinstance(cname, dict):
                sig = cname.get('sig', sig)
                cname = cname['c']
            argl = self.args_for(sig, args, cname)
        return self.finish_call(cname, argl, n, stmt, sig)

    def construct_into(self, ce, target, t):
        """statements constructing object `target` (an lvalue name) from CXXConstructExpr ce"""
        cls = self.class_of(ce['type'])
        args = self.kids(ce)
        ctype = ce.get('ctorType', {}).get('qualType', 'void ()')
        # constructor name = last top-level component of the class name without its template arguments
        depth, last = 0, 0
        for i, ch in enumerate(cls):
            if ch == '<':
                depth += 1
            elif ch == '>':
                depth -= 1
            elif ch == ':' and depth == 0 and cls[i - 1:i] == ':':
                last = i + 1
        key = cls + '::' + cls[last:].split('<')[0]
        h = self.spec.get('ctor_handlers', {}).get(cls)
        if h:
            return h(self, ce, target, args)
        _, pts = fn_param_types(ctype)
        pod = any(re.fullmatch(rx, cls) for rx in self.spec.get('pod', []))
        if pod:
            if len(args) == 0:
                if any(re.fullmatch(rx, cls) for rx in self.spec.get('zero_default', [])):
                    # classes whose default constructor yields the "empty" value the spec models as 0 (std::string as an id)
                    self.rules['zero_default_ctor'] += 1
                    return ['%s = %s;' % (target, '0' if not self._decl(cls, '').startswith('struct ') else '(%s){0}' % self._decl(cls, ''))]
                if ce.get('zeroing') or ce.get('list'):
                    return ['%s = (%s){0};' % (target, self._decl(cls, ''))]
                return []
            if len(args) == 1 and len(pts) == 1 and self.class_of(pts[0]) == cls:
                self.rules['pod_copy'] += 1
                return ['%s = %s;' % (target, self.expr(args[0]))]
        ent = self.calls.get(key + '|' + ctype) or self.calls.get(key) or self.rx_call(key + '|' + ctype) or self.rx_call(key)
        if ent is None and re.match(r'(std::)?pair<', cls) and len(args) == 1 and len(pts) == 1 and re.match(r'(const )?(std::)?pair<', pts[0].strip()):
            # std::pair converting copy/move constructor: memberwise
            self.rules['pair_converting_ctor'] += 1
            a = self.unwrap(args[0])
            tmp = self.newtmp()
            self.hoist('%s = %s;' % (self.decl(a['type'], tmp), self.expr(a)))
            return ['%s.first = %s.first;' % (target, tmp), '%s.second = %s.second;' % (target, tmp)]
        if ent is None:
            raise Unsupported('unmodelled constructor: key=%r sig=%r' % (key, ctype))
        argl = self.args_for(ctype, args, ent)
        s = self.finish_call(ent, ['&' + target] + argl, {'type': {'qualType': 'void'}}, True, 'void ' + ctype[ctype.index('('):])
        return [s + ';'] if s else []

    def e_CXXConstructExpr(self, n):
        # a class prvalue in expression position: hoist into a temporary
        t = n['type']
        tmp = self.newtmp()
        self.rules['class_temporary'] += 1
        self.hoist(self.decl(t, tmp) + ';')
        for s in self.construct_into(n, tmp, t):
            self.hoist(s)
        return tmp

    e_CXXTemporaryObjectExpr = e_CXXConstructExpr

    def e_CXXNewExpr(self, n):
        # new T[n] / new T for scalar, pointer and POD element types: storage only (no constructors to run)
        t = self.tstr(n['type']).strip()
        assert t.endswith('*')
        et = t[:-1].strip()
        for rx, model in self.spec.get('new_models', []):
            if re.fullmatch(rx, self.strip_cv(et)):
                # `new C(args)` of an opaque class: the spec's model allocates and initialises the abstract object
                self.rules['new_of_modelled_class'] += 1
                ce = [c for c in self.kids(n) if c.get('kind') in ('CXXConstructExpr', 'CXXTemporaryObjectExpr')]
                cargs = self.kids(ce[0]) if ce else []
                ctype = ce[0].get('ctorType', {}).get('qualType', 'void ()') if ce else 'void ()'
                argl = self.args_for(ctype, cargs, model) if cargs else []
                return '%s(%s)' % (model, ', '.join(argl))
        ed = self._decl(et, '')
        if ed.startswith('struct ') and not ed.rstrip().endswith('*') and not any(re.fullmatch(rx, self.strip_cv(et)) for rx in self.spec.get('pod', [])):
            raise Unsupported('new of non-POD class type ' + et)
        ks = self.kids(n)
        self.rules['new_to_malloc'] += 1
        if n.get('isArray'):
            cnt = self.expr(ks[0])
            return '((%s)__verif_new_array(%s, sizeof(%s)))' % (self._decl(t, ''), cnt, ed)
        if ks and ks[-1].get('kind') not in ('CXXConstructExpr',):
            raise Unsupported('new with initialiser')
        return '((%s)__verif_new_array(1, sizeof(%s)))' % (self._decl(t, ''), ed)

    def e_CXXDeleteExpr(self, n):
        self.rules['delete_to_free'] += 1
        return '__verif_delete(%s)' % self.expr(self.kids(n)[0])

    def e_CXXThrowExpr(self, n):
        h = self.spec.get('throw_handler')
        if h:
            return h(self, n)
        if not self.spec.get('exceptions'):
            raise Unsupported('throw (no exception lowering configured)')
        # generic lowering: exception object reduced to its kind; `throw X(args)` -> { __exc = EXC_X; goto <handler or __unwind>; }
        ks = self.kids(n)
        if not ks:
            if getattr(self, 'rethrow_kind', None):
                self.rules['rethrow_to_goto'] += 1
                return '{ __exc = %s; goto %s; }' % (self.rethrow_kind, self.exc_target())
            raise Unsupported('rethrow')
        cls = self.class_of(self.unwrap(ks[0])['type'])
        kind = 'EXC_' + ident(re.sub(r'<.*>', '', cls))
        self.exc_kinds = getattr(self, 'exc_kinds', OrderedDict())
        self.exc_kinds.setdefault(kind, cls)
        self.rules['throw_to_goto'] += 1
        # argument side effects are not modelled: refuse them
        for a in self.kids(self.unwrap(ks[0])):
            self.check_droppable(a)
        return '{ __exc = %s; goto %s; }' % (kind, self.exc_target())

    # ------------------------------------------------------------------ struct output
    def struct_defs(self):
        out = []
        for sn in self.structs:
            out.append('struct %s;' % sn)
        done = set()

        def emit(sn):
            if sn in done:
                return
            done.add(sn)
            fields = self.structs[sn]
            for f, d in fields.items():
                m = re.match(r'struct (\w+) (?!\*)', d)
                if m and m.group(1) in self.structs:
                    emit(m.group(1))
            body = ''.join('  %s;\n' % d for d in fields.values()) or '  char __empty;\n'
            out.append('struct %s { /* from %s */\n%s};' % (sn, self.struct_src.get(sn, '?'), body))
        for sn in list(self.structs):
            emit(sn)
        return '\n'.join(out)

    def full_struct(self, rec, cname):
        """emit a C struct with all fields of a CXXRecordDecl, in order (layout-preserving for PODs)"""
        fields = OrderedDict()
        for c in rec.get('inner', []):
            if isinstance(c, dict) and c.get('kind') == 'FieldDecl':
                fields[c['name']] = self.decl(c['type'], c['name']) + (' : %s' % self.expr(self.kids(c)[0]) if c.get('isBitfield') else '')
        self.structs[cname] = fields
        self.struct_src[cname] = rec.get('name', '?') + ' (all fields, declaration order)'
        self.spec.setdefault('full_structs', {})[cname] = True
