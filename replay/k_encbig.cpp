// native replay for C03 (encode side): Message::encode(f8String&) (runtime/message.cpp compiled from the working tree, ASan) with one long field value
// usage: k_encbig <length of the Text field>
#include <fix8/f8includes.hpp>
#include "utest_types.hpp"
#include "utest_router.hpp"
#include "utest_classes.hpp"
#include <cstdio>
#include <unistd.h>
using namespace FIX8; using namespace FIX8::UTEST;
int main(int argc, char **argv)
{
	const size_t n = argc > 1 ? atoi(argv[1]) : 10000;
	NewOrderSingle *m = new NewOrderSingle;
	*m << new Symbol("OC") << new ClOrdID("x") << new Side('1') << new HandlInst('1') << new OrdType('2') << new TransactTime << new OrderQty(50) << new Price(400.5) << new Text(std::string(n, 'x'));
	*m->Header() << new msg_seq_num(1) << new sender_comp_id("A") << new target_comp_id("B") << new sending_time;
	f8String out; const size_t r = m->encode(out);
	printf("encoded %zu bytes\n", r); fflush(stdout); _exit(0);
}
