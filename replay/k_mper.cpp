// native replay / contract-checking harness for the memory persister (runtime/persist.cpp compiled from the working tree, ASan)
// usage: k_mper search
//   every sequence of up to 5 operations over {put(k,text) k in 0..3, control-put, control-get, get(k), last, nearest} against a reference map
#include <precomp.hpp>
#include <fix8/f8includes.hpp>
#include <cstdio>
#include <map>
#include <string>
#include <vector>
using namespace FIX8;
using namespace std;
static int bad = 0;
#define REPORT(...) do { if (bad < 6) { printf(__VA_ARGS__); printf("\n"); } ++bad; } while (0)
static void run(const vector<int>& ops)
{
	MemoryPersister mp;
	map<unsigned, string> ref; bool have_ctrl = false; unsigned cs = 0, ct = 0;
	for (size_t i = 0; i < ops.size(); ++i)
	{
		const int op = ops[i];
		if (op < 4)	// put(k, text)
		{
			const unsigned k = op; const string text = "msg" + to_string(i) + "-" + to_string(k);
			const bool want = k != 0 && !ref.count(k), got = mp.put(k, text);
			if (want) ref[k] = text;
			if (got != want) REPORT("{\"step\":%zu,\"op\":\"put(%u)\",\"returned\":%d,\"expected\":%d}", i, k, (int)got, (int)want);
		}
		else if (op == 4)	// control put
		{
			cs = 100 + (unsigned)i; ct = 200 + (unsigned)i; have_ctrl = true;
			if (!mp.put(cs, ct)) REPORT("{\"step\":%zu,\"op\":\"control-put\",\"returned\":0}", i);
		}
		else if (op == 5)	// control get
		{
			unsigned s = 0, t = 0; const bool g = mp.get(s, t);
			if (g != have_ctrl || (g && (s != cs || t != ct))) REPORT("{\"step\":%zu,\"op\":\"control-get\",\"returned\":%d,\"pair\":[%u,%u],\"expected\":[%u,%u]}", i, (int)g, s, t, cs, ct);
		}
		for (unsigned k = 0; k < 5; ++k)
		{
			string out; const bool g = mp.get(k, out), want = k != 0 && ref.count(k);
			if (g != want || (g && out != ref[k])) REPORT("{\"step\":%zu,\"op\":\"get(%u)\",\"hit\":%d,\"expected\":%d}", i, k, (int)g, (int)want);
		}
		unsigned last = 0; mp.get_last_seqnum(last);
		const unsigned wl = ref.empty() ? 0 : ref.rbegin()->first;
		if (last != wl) REPORT("{\"step\":%zu,\"op\":\"last\",\"returned\":%u,\"expected\":%u}", i, last, wl);
		for (unsigned req = 1; req < 5; ++req)
		{
			unsigned wn = 0; for (auto& e : ref) if (e.first >= req && e.first <= wl) { wn = e.first; break; }
			const unsigned n = mp.find_nearest_highest_seqnum(req, last);
			if (n != wn) REPORT("{\"step\":%zu,\"op\":\"nearest(%u,%u)\",\"returned\":%u,\"expected\":%u}", i, req, last, n, wn);
		}
	}
}
int main()
{
	for (int len = 1; len <= 5; ++len)
	{
		vector<int> ops(len, 0);
		for (;;)
		{
			run(ops);
			int k = 0; while (k < len && ++ops[k] == 6) ops[k++] = 0;
			if (k == len) break;
		}
	}
	printf("{\"search_done\":true,\"mismatches\":%d}\n", bad);
	return bad ? 1 : 0;
}
