// native replay / contract-checking harness for the date/time codecs of field.hpp (real header, ASan+UBSan)
// usage: k_date one <ms since epoch> | k_date search
#include <fix8/f8includes.hpp>
#include <cstdio>
#include <cstdlib>
#include <cstring>
#include <ctime>
using namespace FIX8;
static int one(long long ms, bool quiet)
{
	const Tickval tv(static_cast<Tickval::ticks>(ms) * Tickval::million);
	const time_t secs(ms / 1000);
	tm g {};
	gmtime_r(&secs, &g);
	char want[32], *got = (char *)malloc(21);	// exactly the longest wire text: ASan traps any extra write
	snprintf(want, sizeof(want), "%04d%02d%02d-%02d:%02d:%02d.%03d", g.tm_year + 1900, g.tm_mon + 1, g.tm_mday, g.tm_hour, g.tm_min, g.tm_sec, (int)(ms % 1000));
	int bad = 0;
	const size_t n = date_time_format(tv, got, _with_ms);
	bad |= n != 21 || memcmp(got, want, 21);
	const long long back = date_time_parse(got, 21);
	bad |= back != ms * 1000000LL;
	const long long back_s = date_time_parse(got, 17);
	bad |= back_s != (ms / 1000) * 1000000000LL;
	const long long t = time_parse(want + 9, 12, true);
	bad |= t != (ms % 86400000LL) * 1000000LL;
	const long long d = date_parse(want, 8);
	bad |= d != (ms / 86400000LL) * 86400000000000LL;
	char my[8];
	size_t n2 = date_time_format(tv, got, _short_date_only);
	bad |= n2 != 6 || memcmp(got, want, 6);
	n2 = date_time_format(tv, got, _date_only);
	bad |= n2 != 8 || memcmp(got, want, 8);
	n2 = date_time_format(tv, got, _time_with_ms);
	bad |= n2 != 12 || memcmp(got, want + 9, 12);
	(void)my;
	if (!quiet || bad)
		printf("{\"ms\":%lld,\"want\":\"%s\",\"parsed_ns\":%lld,\"time_ns\":%lld,\"date_ns\":%lld,\"mismatch\":%s}\n", ms, want, back, t, d, bad ? "true" : "false");
	free(got);
	return bad;
}
int main(int argc, char **argv)
{
	if (argc >= 3 && !strcmp(argv[1], "one")) return one(strtoll(argv[2], 0, 10), false);
	if (argc >= 2 && !strcmp(argv[1], "search"))
	{
		int bad = 0;
		const long long day = 86400000LL, end = 4102444800000LL; // 2100-01-01
		// every day boundary 1970..2099 (first and last millisecond), plus a prime stride through the whole range
		for (long long d = 0; d < end && !bad; d += day)
			bad |= one(d, true) | one(d + day - 1, true) | one(d + 43200123, true);
		for (long long v = 0; v < end && !bad; v += 7919000017LL) bad |= one(v, true);
		printf("{\"search_done\":true,\"mismatch\":%s}\n", bad ? "true" : "false");
		return bad;
	}
	return 2;
}
