// native replay / contract-checking harness for RealmBase::get_rlm_idx / is_valid (real header, ASan+UBSan)
// usage: k_realm search [set|range_member|range_first|range_valid]
//   every strictly sorted int and char table over a small alphabet, every probe value; the optional class restricts
//   the verdict to one obligation family (range_member is the listed known finding, so the others must not inherit it)
#include <fix8/f8includes.hpp>
#include <cstdio>
#include <cstdlib>
#include <cstring>
#include <vector>
using namespace FIX8;
static const char *descs[] { "d0", "d1", "d2", "d3", "d4", "d5", "d6", "d7" };
template<typename T> static int check_set(const std::vector<T>& tab, T what, const char *tn)
{
	T *raw = (T *)malloc(tab.size() * sizeof(T));	// exact-size heap table: ASan traps reads outside
	memcpy(raw, tab.data(), tab.size() * sizeof(T));
	const RealmBase rb(raw, RealmBase::dt_set, FieldTrait::ft_int, (int)tab.size(), descs);
	const int idx = rb.get_rlm_idx<T>(what);
	int member = -1;
	for (size_t i = 0; i < tab.size(); ++i) if (tab[i] == what) member = (int)i;
	const bool valid = rb.is_valid<T>(what);
	const bool bad = idx != member || valid != (member >= 0);
	if (bad)
	{
		printf("{\"type\":\"%s\",\"realm\":\"set\",\"table\":[", tn);
		for (size_t i = 0; i < tab.size(); ++i) printf("%s%d", i ? "," : "", (int)tab[i]);
		printf("],\"what\":%d,\"get_rlm_idx\":%d,\"expected_idx\":%d,\"is_valid\":%s,\"mismatch\":true}\n", (int)what, idx, member, valid ? "true" : "false");
	}
	free(raw);
	return bad;
}
static int only = 0;	// 1 = set realms only, 2 = range realms only
static int range_class = 0;	// 0 all, 1 member (idx >= 0 => in range), 2 first (idx is -1 or 0), 3 valid (is_valid == in range)
template<typename T> static int check_range(T lo, T hi, T what, const char *tn)
{
	T *raw = (T *)malloc(2 * sizeof(T));
	raw[0] = lo; raw[1] = hi;
	const RealmBase rb(raw, RealmBase::dt_range, FieldTrait::ft_int, 2, descs);
	const int idx = rb.get_rlm_idx<T>(what);
	const bool in = lo <= what && what <= hi, valid = rb.is_valid<T>(what);
	const bool b1 = idx >= 0 && !in, b2 = idx != -1 && idx != 0, b3 = valid != in;
	const bool bad = range_class == 1 ? b1 : range_class == 2 ? b2 : range_class == 3 ? b3 : (b1 || b2 || b3);
	if (bad)
		printf("{\"type\":\"%s\",\"realm\":\"range\",\"lo\":%d,\"hi\":%d,\"what\":%d,\"get_rlm_idx\":%d,\"in_range\":%s,\"is_valid\":%s,\"mismatch\":true}\n",
			tn, (int)lo, (int)hi, (int)what, idx, in ? "true" : "false", valid ? "true" : "false");
	free(raw);
	return bad;
}
template<typename T> static void search(const char *tn, T base, int& bad_set, int& bad_range)
{
	for (unsigned mask = 1; mask < 256 && !bad_set && only != 2; ++mask)
	{
		std::vector<T> tab;
		for (int b = 0; b < 8; ++b) if (mask & (1u << b)) tab.push_back((T)(base + 2 * b));
		for (int w = -2; w <= 17 && !bad_set; ++w) bad_set |= check_set<T>(tab, (T)(base + w), tn);
	}
	for (int lo = 0; lo < 6 && !bad_range && only != 1; ++lo)
		for (int hi = lo; hi < 6 && !bad_range; ++hi)
			for (int w = -1; w <= 7 && !bad_range; ++w) bad_range |= check_range<T>((T)(base + lo), (T)(base + hi), (T)(base + w), tn);
}
// Field<T, tag>::get_rlm_idx() / is_valid(): the field's own value against its own realm (virtual overrides, real classes)
template<typename F, typename T, typename V> static int check_field(const std::vector<T>& tab, V value, T wire, const char *tn)
{
	T *raw = (T *)malloc(tab.size() * sizeof(T));
	memcpy(raw, tab.data(), tab.size() * sizeof(T));
	const RealmBase rb(raw, RealmBase::dt_set, FieldTrait::ft_int, (int)tab.size(), descs);
	F f(value, &rb);
	const BaseField& bf(f);
	const int idx = bf.get_rlm_idx();
	int member = -1;
	for (size_t i = 0; i < tab.size(); ++i) if (tab[i] == wire) member = (int)i;
	if (idx != member)
	{
		printf("{\"type\":\"Field<%s>\",\"table\":[", tn);
		for (size_t i = 0; i < tab.size(); ++i) printf("%s%d", i ? "," : "", (int)tab[i]);
		printf("],\"value_wire\":%d,\"get_rlm_idx\":%d,\"expected_idx\":%d,\"mismatch\":true}\n", (int)wire, idx, member);
	}
	free(raw);
	return idx != member;
}
static int search_fields()
{
	int bad = 0;
	for (unsigned mask = 1; mask < 64 && !bad; ++mask)
	{
		std::vector<int> ti; std::vector<char> tc, tb;
		for (int b = 0; b < 6; ++b) if (mask & (1u << b)) { ti.push_back(-3 + 2 * b); tc.push_back((char)('A' + 2 * b)); }
		static const char bl[] = { 'A', 'N', 'P', 'Y', 'Z', 'y' };
		for (int b = 0; b < 6; ++b) if (mask & (1u << b)) tb.push_back(bl[b]);
		for (int w = -5; w <= 9 && !bad; ++w) bad |= check_field<Field<int, 34>, int, int>(ti, -3 + w, -3 + w, "int");
		for (int w = -2; w <= 12 && !bad; ++w) bad |= check_field<Field<char, 54>, char, char>(tc, (char)('A' + w), (char)('A' + w), "char");
		bad |= check_field<Field<Boolean, 43>, char, char>(tb, 'Y', 'Y', "Boolean");
		bad |= check_field<Field<Boolean, 43>, char, char>(tb, 'N', 'N', "Boolean");
	}
	printf("{\"search_done\":true,\"class\":\"field\",\"mismatch\":%s}\n", bad ? "true" : "false");
	return bad;
}
int main(int argc, char **argv)
{
	if (argc < 2 || strcmp(argv[1], "search")) return 2;
	if (argc > 2 && !strcmp(argv[2], "field")) return search_fields();
	int bs = 0, br = 0;
	only = argc > 2 ? (!strcmp(argv[2], "set") ? 1 : 2) : 0;
	if (argc > 2) range_class = !strcmp(argv[2], "range_member") ? 1 : !strcmp(argv[2], "range_first") ? 2 : !strcmp(argv[2], "range_valid") ? 3 : 0;
	search<int>("int", -3, bs, br);
	int bs2 = 0, br2 = 0;
	search<char>("char", 'A', bs2, br2);
	const int set_bad = bs | bs2, range_bad = br | br2;
	printf("{\"search_done\":true,\"set_mismatch\":%s,\"range_mismatch\":%s}\n", set_bad ? "true" : "false", range_bad ? "true" : "false");
	return only == 1 ? set_bad : only == 2 ? range_bad : (set_bad | range_bad);
}
