// native replay for the default login parameters (C18 / C16): LoginParameters default-constructed into storage that held other data before
#include <fix8/f8includes.hpp>
#include <new>
#include <cstring>
#include <cstdio>
using namespace FIX8;
int main()
{
	alignas(LoginParameters) static unsigned char buf[sizeof(LoginParameters)];
	memset(buf, 0xff, sizeof(buf));
	LoginParameters *lp = new (buf) LoginParameters;
	unsigned char raw; memcpy(&raw, &lp->_always_seqnum_assign, 1);
	printf("{\"default_constructed_over_0xff_bytes\":{\"always_seqnum_assign_byte\":%u,\"reset_sequence_numbers\":%d,\"no_chksum_flag\":%d,\"permissive_mode_flag\":%d}}\n",
		(unsigned)raw, (int)lp->_reset_sequence_numbers, (int)lp->_no_chksum_flag, (int)lp->_permissive_mode_flag);
	return raw != 0 ? 1 : 0;
}
