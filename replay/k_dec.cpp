// native replay for C04 / C05: the real Message::factory / MessageBase::decode (runtime/message.cpp compiled from the working tree) on the generated FIX42 test classes
// usage: k_dec [strict_unknown|strict_misplaced|permissive_unknown|all]
#include <fix8/f8includes.hpp>
#include "utest_types.hpp"
#include "utest_router.hpp"
#include "utest_classes.hpp"
#include <cstdio>
#include <string>
#include <unistd.h>
using namespace FIX8;
using namespace FIX8::UTEST;
static int bad = 0;
#define REPORT(...) do { if (bad < 8) { printf(__VA_ARGS__); printf("\n"); } ++bad; } while (0)
// wrap a body (fields after MsgType, before CheckSum) into a complete message with correct BodyLength and CheckSum
static std::string frame(const std::string& msgtype, const std::string& rest)
{
	const std::string body("35=" + msgtype + "\001" + rest);
	std::string s("8=FIX.4.2\0019=" + std::to_string(body.size()) + "\001" + body);
	unsigned sum(0); for (unsigned char c : s) sum += c;
	char cks[16]; snprintf(cks, sizeof(cks), "10=%03u\001", sum % 256);
	return s + cks;
}
static const std::string hdr("49=A\00156=B\00134=7\00152=20240101-00:00:00\001");
// outcome of decoding: "throw:<what>" or the re-encoded text of the accepted message
static std::string decode(const std::string& wire, bool permissive, std::string *reencoded = nullptr)
{
	try
	{
		std::unique_ptr<Message> m(Message::factory(ctx(), wire, false, permissive));
		if (!m) return "null";
		f8String out; m->encode(out);
		if (reencoded) *reencoded = out;
		return "accepted";
	}
	catch (f8Exception& e) { return std::string("throw:") + e.what(); }
	catch (std::exception& e) { return std::string("throw(std):") + e.what(); }
}
static bool has(const std::string& s, const char *tok) { return s.find(std::string("\001") + tok + "\001") != std::string::npos; }
static void strict_unknown()
{
	// a conforming NewOrderSingle with an undefined tag (9999) in the middle of the body
	const std::string body("11=ord1\00121=1\00155=OC\0019999=zzz\00154=1\00160=20240101-00:00:00\00138=50\00140=2\00144=400.5\001");
	std::string re; const std::string r = decode(frame("D", hdr + body), false, &re);
	if (r == "accepted")
		REPORT("{\"scenario\":\"strict, undefined tag 9999 in the body\",\"outcome\":\"accepted\",\"fields_after_it_retained\":{\"54\":%d,\"38\":%d,\"40\":%d,\"44\":%d}}",
			(int)has(re, "54=1"), (int)has(re, "38=50"), (int)has(re, "40=2"), (int)has(re, "44=400.5"));
}
static void strict_misplaced()
{
	// a header field (SenderSubID 50) placed after body fields
	const std::string body("11=ord1\00121=1\00155=OC\00154=1\00150=desk\00160=20240101-00:00:00\00138=50\00140=2\00144=400.5\001");
	std::string re; const std::string r = decode(frame("D", hdr + body), false, &re);
	if (r == "accepted" && !(has(re, "38=50") && has(re, "40=2") && has(re, "50=desk")))
		REPORT("{\"scenario\":\"strict, header field 50 after body fields\",\"outcome\":\"accepted\",\"retained\":{\"50\":%d,\"38\":%d,\"40\":%d}}", (int)has(re, "50=desk"), (int)has(re, "38=50"), (int)has(re, "40=2"));
}
static void permissive_unknown()
{
	const std::string body("11=ord1\00121=1\00155=OC\0019999=zzz\00154=1\00160=20240101-00:00:00\00138=50\00140=2\00144=400.5\001");
	const std::string wire(frame("D", hdr + body));
	std::string re; const std::string r = decode(wire, true, &re);
	if (r != "accepted" || !(has(re, "54=1") && has(re, "38=50") && has(re, "40=2") && has(re, "44=400.5") && has(re, "9999=zzz")))
		REPORT("{\"scenario\":\"permissive, undefined tag 9999 in the body\",\"outcome\":\"%s\",\"retained\":{\"9999\":%d,\"54\":%d,\"38\":%d,\"40\":%d,\"44\":%d}}", r.substr(0, 60).c_str(),
			(int)has(re, "9999=zzz"), (int)has(re, "54=1"), (int)has(re, "38=50"), (int)has(re, "40=2"), (int)has(re, "44=400.5"));
	// reference: the same message without the unknown tag decodes to the same known fields in strict mode
	const std::string body0("11=ord1\00121=1\00155=OC\00154=1\00160=20240101-00:00:00\00138=50\00140=2\00144=400.5\001");
	std::string re0; const std::string r0 = decode(frame("D", hdr + body0), false, &re0);
	if (r0 != "accepted") REPORT("{\"scenario\":\"strict reference message\",\"outcome\":\"%s\"}", r0.substr(0, 80).c_str());
}
int main(int argc, char **argv)
{
	const std::string which(argc > 1 ? argv[1] : "all");
	if (which == "strict_unknown" || which == "all") strict_unknown();
	if (which == "strict_misplaced" || which == "all") strict_misplaced();
	if (which == "permissive_unknown" || which == "all") permissive_unknown();
	printf("{\"search_done\":true,\"class\":\"%s\",\"mismatches\":%d}\n", which.c_str(), bad);
	fflush(stdout);
	_exit(bad ? 1 : 0);
}
