// native replay for C04 / C05: the real Message::factory / MessageBase::decode (runtime/message.cpp compiled from the working tree) on the generated FIX42 test classes
// usage: k_dec [strict_unknown|strict_misplaced|permissive_unknown|permissive_plain|data_soh|all]
#include <fix8/f8includes.hpp>
#include "utest_types.hpp"
#include "utest_router.hpp"
#include "utest_classes.hpp"
#include <cstdio>
#include <string>
#include <unistd.h>
using namespace FIX8;
using namespace FIX8::UTEST;
static int bad = 0;
#define REPORT(...) do { if (bad < 8) { printf(__VA_ARGS__); printf("\n"); } ++bad; } while (0)
// wrap a body (fields after MsgType, before CheckSum) into a complete message with correct BodyLength and CheckSum
static std::string frame(const std::string& msgtype, const std::string& rest)
{
	const std::string body("35=" + msgtype + "\001" + rest);
	std::string s("8=FIX.4.2\0019=" + std::to_string(body.size()) + "\001" + body);
	unsigned sum(0); for (unsigned char c : s) sum += c;
	char cks[16]; snprintf(cks, sizeof(cks), "10=%03u\001", sum % 256);
	return s + cks;
}
static const std::string hdr("49=A\00156=B\00134=7\00152=20240101-00:00:00\001");
// outcome of decoding: "throw:<what>" or the re-encoded text of the accepted message
static std::string decode(const std::string& wire, bool permissive, std::string *reencoded = nullptr)
{
	try
	{
		std::unique_ptr<Message> m(Message::factory(ctx(), wire, false, permissive));
		if (!m) return "null";
		f8String out; m->encode(out);
		if (reencoded) *reencoded = out;
		return "accepted";
	}
	catch (f8Exception& e) { return std::string("throw:") + e.what(); }
	catch (std::exception& e) { return std::string("throw(std):") + e.what(); }
}
static bool has(const std::string& s, const char *tok) { return s.find(std::string("\001") + tok + "\001") != std::string::npos; }
static size_t count(const std::string& s, const std::string& what) { size_t n = 0; for (size_t p = s.find(what); p != std::string::npos; p = s.find(what, p + 1)) ++n; return n; }
static void strict_unknown()
{
	// a NewOrderSingle with all mandatory fields, then an undefined tag (29999), then two optional fields
	const std::string body("11=ord1\00121=1\00155=OC\00154=1\00160=20240101-00:00:00\00138=50\00140=2\00129999=zzz\00144=400.5\00158=hello\001");
	std::string re; const std::string r = decode(frame("D", hdr + body), false, &re);
	if (r == "accepted")
		REPORT("{\"scenario\":\"strict, undefined tag 29999 after the mandatory fields\",\"outcome\":\"accepted\",\"fields_after_it_retained\":{\"44\":%d,\"58\":%d},\"undefined_field_retained\":%d}",
			(int)(re.find("\00144=") != std::string::npos), (int)has(re, "58=hello"), (int)has(re, "29999=zzz"));
}
static void strict_misplaced()
{
	// a header field (SenderSubID 50) placed after body fields
	const std::string body("11=ord1\00121=1\00155=OC\00154=1\00150=desk\00160=20240101-00:00:00\00138=50\00140=2\00144=400.5\001");
	std::string re; const std::string r = decode(frame("D", hdr + body), false, &re);
	if (r == "accepted" && !(has(re, "38=50") && has(re, "40=2") && has(re, "50=desk")))
		REPORT("{\"scenario\":\"strict, header field 50 after body fields\",\"outcome\":\"accepted\",\"retained\":{\"50\":%d,\"38\":%d,\"40\":%d}}", (int)has(re, "50=desk"), (int)has(re, "38=50"), (int)has(re, "40=2"));
}
static void permissive_unknown()
{
	const std::string body("11=ord1\00121=1\00155=OC\00129999=zzz\00154=1\00160=20240101-00:00:00\00138=50\00140=2\00144=400.5\001");
	const std::string wire(frame("D", hdr + body));
	std::string re; const std::string r = decode(wire, true, &re);
	// re-encoding: every field once, the unknown one byte for byte, one checksum field
	if (r != "accepted" || count(re, "\00111=ord1\001") != 1 || count(re, "\00129999=zzz\001") != 1 || count(re, "\00110=") != 1 || count(re, "\00155=OC\001") != 1)
		REPORT("{\"scenario\":\"permissive, undefined tag 29999 in the body, decoded then re-encoded\",\"outcome\":\"%s\",\"occurrences_in_the_re_encoded_text\":{\"11=ord1\":%zu,\"55=OC\":%zu,\"29999=zzz\":%zu,\"10=\":%zu},\"re_encoded_length\":%zu,\"original_length\":%zu}",
			r.substr(0, 60).c_str(), count(re, "\00111=ord1\001"), count(re, "\00155=OC\001"), count(re, "\00129999=zzz\001"), count(re, "\00110="), re.size(), wire.size());
}
static void permissive_plain()
{
	// no unknown field at all: permissive decoding followed by re-encoding must give what strict decoding gives
	const std::string body("11=ord1\00121=1\00155=OC\00154=1\00160=20240101-00:00:00\00138=50\00140=2\00144=400.5\001");
	const std::string wire(frame("D", hdr + body));
	std::string rs, rp; const std::string a = decode(wire, false, &rs), b = decode(wire, true, &rp);
	if (a != "accepted" || b != "accepted" || rs != rp)
		REPORT("{\"scenario\":\"conforming message, strict vs permissive re-encoding\",\"strict\":\"%s\",\"permissive\":\"%s\",\"strict_length\":%zu,\"permissive_length\":%zu,\"checksum_fields_in_permissive\":%zu}",
			a.substr(0, 40).c_str(), b.substr(0, 40).c_str(), rs.size(), rp.size(), count(rp, "\00110="));
}
static void data_soh()
{
	// a Logon whose RawData (96, preceded by RawDataLength 95) contains the separator byte: the data value is the counted bytes
	const std::string data("ab\001cd=e\001f");
	const std::string body("98=0\001108=30\00195=" + std::to_string(data.size()) + "\00196=" + data + "\001");
	try
	{
		std::unique_ptr<Message> m(Message::factory(ctx(), frame("A", hdr + body), false, false));
		if (!m) { REPORT("{\"scenario\":\"strict, data field containing the separator\",\"outcome\":\"null\"}"); return; }
		RawData rd;
		const bool got(m->get(rd));
		if (!got || rd.get() != data)
			REPORT("{\"scenario\":\"strict, data field containing the separator\",\"outcome\":\"accepted\",\"data_field_present\":%d,\"decoded_length\":%zu,\"declared_length\":%zu}", (int)got, got ? rd.get().size() : (size_t)0, data.size());
	}
	catch (f8Exception& e) { REPORT("{\"scenario\":\"strict, data field containing the separator\",\"outcome\":\"throw:%s\"}", e.what()); }
}
int main(int argc, char **argv)
{
	const std::string which(argc > 1 ? argv[1] : "all");
	if (which == "strict_unknown" || which == "all") strict_unknown();
	if (which == "strict_misplaced" || which == "all") strict_misplaced();
	if (which == "permissive_unknown" || which == "all") permissive_unknown();
	if (which == "permissive_plain" || which == "all") permissive_plain();
	if (which == "data_soh" || which == "all") data_soh();
	printf("{\"search_done\":true,\"class\":\"%s\",\"mismatches\":%d}\n", which.c_str(), bad);
	fflush(stdout);
	_exit(bad ? 1 : 0);
}
