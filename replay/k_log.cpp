// native replay / contract-checking harness for C28's sequential conjuncts: the real FileLogger (runtime/logger.cpp compiled from the working tree, ASan)
// usage: k_log search <scratch dir>
//   every level mask (32) x every level (5): send() reports success, and the line reaches the file exactly when its level is enabled
#include <precomp.hpp>
#include <fix8/f8includes.hpp>
#include <cstdio>
#include <fstream>
#include <sstream>
#include <string>
#include <unistd.h>
#include <sys/stat.h>
using namespace FIX8;
using namespace std;
int main(int argc, char **argv)
{
	if (argc < 3) return 2;
	const string dir(argv[2]);
	mkdir(dir.c_str(), 0700);
	if (chdir(dir.c_str())) return 2;
	int bad = 0;
	for (unsigned mask = 0; mask < 32; ++mask)
	{
		const string fname(dir + "/lv.log");
		unlink(fname.c_str());
		bool ret[5];
		{
			FileLogger fl(fname, Logger::LogFlags() << Logger::level, Logger::Levels(mask), " ", Logger::LogPositions(), 0);
			for (int lev = 0; lev < 5; ++lev)
			{
				ostringstream o; o << "line-at-level-" << lev;
				ret[lev] = fl.send(o.str(), static_cast<Logger::Level>(lev));
			}
			hypersleep<h_milliseconds>(30);	// let the consumer drain before stop() (stop does not wait for queued lines: separate conjunct)
			fl.stop();
		}
		ifstream f(fname.c_str()); stringstream ss; ss << f.rdbuf(); const string content(ss.str());
		for (int lev = 0; lev < 5; ++lev)
		{
			ostringstream o; o << "line-at-level-" << lev;
			const bool enabled = mask & (1u << lev), present = content.find(o.str()) != string::npos;
			size_t cnt = 0; for (size_t p = content.find(o.str()); p != string::npos; p = content.find(o.str(), p + 1)) ++cnt;
			if (present != enabled || cnt > 1 || !ret[lev])
			{
				if (bad < 6) printf("{\"levels_mask\":%u,\"level\":%d,\"enabled\":%d,\"written_times\":%zu,\"send_returned\":%d}\n", mask, lev, (int)enabled, cnt, (int)ret[lev]);
				++bad;
			}
		}
		unlink(fname.c_str());
	}
	unlink((dir + "/global_filename_not_set.log").c_str());
	rmdir(dir.c_str());
	printf("{\"search_done\":true,\"mismatches\":%d}\n", bad);
	return bad ? 1 : 0;
}
