// native replay for C15: the real FIXReader::read (runtime/connection.cpp compiled from the working tree, ASan) fed through a loopback TCP connection
// usage: k_read [valid|long_tag|long_value]      (built with -fno-access-control: FIXReader::read is private)
#include <vector>
#include <string>
#include <map>
#include <set>
#include <thread>
#include <cstdio>
#include <unistd.h>
#include <fix8/f8config.h>
#include <errno.h>
#include <fix8/f8includes.hpp>
#include "utest_types.hpp"
#include "utest_router.hpp"
#include "utest_classes.hpp"
#include <Poco/Net/ServerSocket.h>
#include <Poco/Net/StreamSocket.h>
using namespace FIX8;
using namespace FIX8::UTEST;
class rd_session : public Session
{
public:
	rd_session() : Session(ctx(), SessionID("FIX.4.2:A->B")) { _timer.clear(); _timer.stop(); _timer.join(); }
	bool handle_application(const unsigned, const Message *&) { return true; }
};
static int bad = 0;
#define REPORT(...) do { if (bad < 6) { printf(__VA_ARGS__); printf("\n"); } ++bad; } while (0)
static std::string frame(const std::string& rest)
{
	const std::string body("35=0\001" + rest);
	std::string s("8=FIX.4.2\0019=" + std::to_string(body.size()) + "\001" + body);
	unsigned sum(0); for (unsigned char c : s) sum += c;
	char cks[16]; snprintf(cks, sizeof(cks), "10=%03u\001", sum % 256);
	return s + cks;
}
int main(int argc, char **argv)
{
	const std::string which(argc > 1 ? argv[1] : "valid");
	Poco::Net::ServerSocket srv(Poco::Net::SocketAddress("127.0.0.1", 0));
	Poco::Net::StreamSocket cli; cli.connect(srv.address());
	Poco::Net::StreamSocket acc = srv.acceptConnection();
	rd_session ses;
	FIXReader rd(&acc, ses, pm_thread);
	std::string stream;
	if (which == "valid") stream = frame("49=B\00156=A\00134=1\00152=20240101-00:00:00\001") + frame("49=B\00156=A\00134=2\00152=20240101-00:00:01\001");
	else if (which == "long_tag") stream = std::string(8400, '7');	// digits only: the tokeniser copies leading digits into the tag buffer until it meets '='
	else stream = "8=" + std::string(11, 'Y') + std::string(8300, '7');	// first token's value runs on for 8 KB
	std::thread feeder([&]{ for (size_t i = 0; i < stream.size(); i += 7) { cli.sendBytes(stream.data() + i, (int)std::min<size_t>(7, stream.size() - i)); } cli.shutdownSend(); });
	try
	{
		if (which == "valid")
		{
			f8String a, b; const bool ra = rd.read(a), rb = rd.read(b);
			if (!ra || !rb || a + b != stream) REPORT("{\"scenario\":\"two valid messages in 7-byte chunks\",\"read1\":%d,\"read2\":%d,\"byte_identical\":%d}", (int)ra, (int)rb, (int)(a + b == stream));
		}
		else
		{
			f8String a; const bool r = rd.read(a);
			REPORT("{\"scenario\":\"%s\",\"returned\":%d,\"expected\":\"a framing error\"}", which.c_str(), (int)r);
		}
	}
	catch (f8Exception& e) { printf("{\"scenario\":\"%s\",\"exception\":\"%s\"}\n", which.c_str(), std::string(e.what()).substr(0, 60).c_str()); }
	feeder.join();
	printf("{\"search_done\":true,\"class\":\"%s\",\"mismatches\":%d}\n", which.c_str(), bad);
	fflush(stdout);
	_exit(bad ? 1 : 0);
}
