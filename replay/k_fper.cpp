// native replay for the file persister (C26 file half, C27): runtime/filepersist.cpp compiled from the working tree, ASan
// usage: k_fper [ctrl_overwrite|dangling|long_record|all] <scratch dir>
#include <precomp.hpp>
#include <fix8/f8includes.hpp>
#include <cstdio>
#include <string>
#include <unistd.h>
#include <fcntl.h>
using namespace FIX8;
using namespace std;
static int bad = 0;
#define REPORT(...) do { if (bad < 6) { printf(__VA_ARGS__); printf("\n"); } ++bad; } while (0)
static string dir;
static void fresh(const char *name) { unlink((dir + "/" + name).c_str()); unlink((dir + "/" + name + ".idx").c_str()); }
// C27: "whatever the order of message and control stores, including a message stored before any control record"
static void ctrl_overwrite()
{
	fresh("co.db");
	{ FilePersister fp; if (!fp.initialise(dir, "co.db")) { REPORT("{\"scenario\":\"ctrl_overwrite\",\"initialise\":false}"); return; }
	  fp.put(1, "first-message"); fp.put(2, "second-message"); fp.put(10, 20); }	// messages first, then the control record
	{ FilePersister fp; fp.initialise(dir, "co.db");	// reopen
	  string a, b; const bool g1 = fp.get(1, a), g2 = fp.get(2, b); unsigned s = 0, t = 0; const bool gc = fp.get(s, t);
	  if (!g1 || a != "first-message" || !g2 || b != "second-message" || !gc || s != 10 || t != 20)
		REPORT("{\"scenario\":\"put(1,..) put(2,..) put(10,20) then reopen\",\"get(1)\":%d,\"text1_ok\":%d,\"get(2)\":%d,\"control\":[%d,%u,%u]}", (int)g1, (int)(a == "first-message"), (int)g2, (int)gc, s, t); }
}
// C27: the disk state a crash between the index write and the data write of put(2,"BBBB") leaves behind (K-fper proves that order on the real code), then reopen and store on
static void dangling()
{
	fresh("dg.db");
	off_t datalen = 0;
	{ FilePersister fp; fp.initialise(dir, "dg.db"); fp.put(7, 9); fp.put(1, "AAAA"); datalen = 4; }
	{ const int fd = open((dir + "/dg.db.idx").c_str(), O_WRONLY | O_APPEND); IPrec ip(2, datalen, 4); if (write(fd, &ip, sizeof(ip)) != (ssize_t)sizeof(ip)) REPORT("{\"scenario\":\"dangling\",\"setup\":false}"); close(fd); }
	{ FilePersister fp; fp.initialise(dir, "dg.db");
	  string before; const bool gb = fp.get(2, before);	// nothing was ever stored for 2
	  fp.put(3, "CCCC");
	  string after; const bool ga = fp.get(2, after);
	  if (gb || ga)
		REPORT("{\"scenario\":\"crash after the index write of put(2,BBBB), reopen, put(3,CCCC)\",\"get(2)_before\":%d,\"get(2)_after\":%d,\"bytes_returned_for_2\":\"%s\",\"ever_stored_for_2\":\"nothing completed\"}", (int)gb, (int)ga, after.c_str()); }
}
// C26: a stored text longer than FIX8_MAX_MSG_LENGTH
static void long_record()
{
	fresh("lr.db");
	FilePersister fp; fp.initialise(dir, "lr.db");
	const string big(FIX8_MAX_MSG_LENGTH + 3000, 'x');
	if (!fp.put(1, big)) { REPORT("{\"scenario\":\"long_record\",\"put\":false}"); return; }
	string out; const bool g = fp.get(1, out);	// ASan: stack-buffer-overflow in FilePersister::get when the record is longer than the stack buffer
	if (!g || out != big) REPORT("{\"scenario\":\"put then get of a %zu-byte text\",\"get\":%d,\"equal\":%d}", big.size(), (int)g, (int)(out == big));
}
int main(int argc, char **argv)
{
	const string which(argc > 1 ? argv[1] : "all"); dir = argc > 2 ? argv[2] : ".";
	if (which == "ctrl_overwrite" || which == "all") ctrl_overwrite();
	if (which == "dangling" || which == "all") dangling();
	if (which == "long_record") long_record();
	printf("{\"search_done\":true,\"class\":\"%s\",\"mismatches\":%d}\n", which.c_str(), bad);
	return bad ? 1 : 0;
}
