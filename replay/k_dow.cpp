// exhaustive native evaluation of decode_dow (runtime/f8utils.cpp, compiled from the working tree, ASan) over every string of up to 3 bytes
// usage: k_dow all|short      (short = lengths 0..2 only)
// reference (from the property): case-insensitive; a single digit 0-6 is that day; otherwise the day whose name starts with the unique
// one-letter prefix (m, w, f) or two-letter prefix (su, sa, tu, th) of the text; everything else is -1
#include <precomp.hpp>
#include <fix8/f8includes.hpp>
#include <cstdio>
#include <cctype>
#include <string>
using namespace FIX8;
static int ref(const std::string& in)
{
	if (in.empty()) return -1;
	const int c0 = tolower((unsigned char)in[0]), c1 = in.size() > 1 ? tolower((unsigned char)in[1]) : -1;
	if (in.size() == 1 && c0 >= '0' && c0 <= '6') return c0 - '0';
	switch (c0)
	{
	case 'm': return 1;
	case 'w': return 3;
	case 'f': return 5;
	case 's': return c1 == 'u' ? 0 : c1 == 'a' ? 6 : -1;
	case 't': return c1 == 'u' ? 2 : c1 == 'h' ? 4 : -1;
	default: return -1;
	}
}
int main(int argc, char **argv)
{
	const bool full = argc > 1 && std::string(argv[1]) == "all";
	long cases = 0, bad = 0;
	auto one = [&](const std::string& s)
	{
		++cases;
		const int got = decode_dow(s), want = ref(s);
		if (got != want)
		{
			if (bad < 5)
			{
				printf("{\"text_bytes\":[");
				for (size_t i = 0; i < s.size(); ++i) printf("%s%d", i ? "," : "", (unsigned char)s[i]);
				printf("],\"decode_dow\":%d,\"expected\":%d}\n", got, want);
			}
			++bad;
		}
	};
	one(std::string());
	for (int a = 0; a < 256; ++a)
	{
		one(std::string(1, (char)a));
		for (int b = 0; b < 256; ++b)
		{
			one(std::string(1, (char)a) + (char)b);
			if (full)
				for (int c = 0; c < 256; ++c)
					one(std::string(1, (char)a) + (char)b + (char)c);
		}
	}
	// full weekday names and a few longer texts
	for (const char *w : { "sunday", "Monday", "TUESDAY", "wednesday", "Thursday", "friday", "Saturday", "sunny", "thx", "tux", "monkey", "10", "66", "  mo" }) one(w);
	printf("{\"cases\":%ld,\"mismatches\":%ld}\n", cases, bad);
	return bad ? 1 : 0;
}
