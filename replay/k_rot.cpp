// native replay / contract-checking harness for C29 (rotation): the real FileLogger::rotate and FilePersister::initialise(purge),
// compiled from /repo's runtime sources with ASan and _GLIBCXX_ASSERTIONS (std::vector subscripts are bounds-checked).
// usage: k_rot search [logger|persister] <scratch dir>
//   for rotation counts {0,1,2,3,5,9,1023,1024,1025,1100} and several pre-existing generation sets: after the call name.k holds what
//   name.(k-1) held (k <= min(count,1024)), a gap stays a gap one step further, an unrelated sibling file is untouched;
//   append-mode logs are rotated only when forced, and a forced rotation does not change later unforced calls.
#include <precomp.hpp>
#include <fix8/f8includes.hpp>
#include <cstdio>
#include <cstdlib>
#include <string>
#include <vector>
#include <map>
#include <fstream>
#include <sstream>
#include <sys/stat.h>
#include <dirent.h>
#include <unistd.h>
using namespace FIX8;
using namespace std;

static int bad = 0;
#define REPORT(...) do { if (bad < 6) { printf(__VA_ARGS__); printf("\n"); } ++bad; } while (0)

static string slurp(const string& p) { ifstream f(p.c_str(), ios::binary); if (!f) return "<absent>"; stringstream ss; ss << f.rdbuf(); return ss.str(); }
static void spit(const string& p, const string& c) { ofstream f(p.c_str(), ios::binary); f << c; }
static void clean(const string& dir)
{
	if (dir.empty() || dir == "/") return;
	if (DIR *d = opendir(dir.c_str()))
	{
		while (dirent *e = readdir(d)) { const string n(e->d_name); if (n != "." && n != "..") unlink((dir + "/" + n).c_str()); }
		closedir(d);
	}
}
static string gen(const string& base, unsigned k, const string& suffix = "") { ostringstream o; o << base; if (k) o << '.' << k; o << suffix; return o.str(); }

// expected state after one rotation of `base` with `count`: generation k (1..n) gets old k-1, the live file is recreated (not checked here)
static void check_shift(const char *what, const string& base, const string& suffix, unsigned count, const map<unsigned, string>& before, const string& sibling)
{
	const unsigned n = count < 1024 ? count : 1024;
	for (unsigned k = 1; k <= n; ++k)
	{
		if (k > 12 && k != n) continue;		// the low generations and the last kept one
		// name.k gets what name.(k-1) held; where name.(k-1) did not exist the rename fails, so name.k is gone (its old content moved up to
		// k+1) -- except for the last kept generation, which nothing moves away
		auto it(before.find(k - 1));
		auto self(before.find(k));
		const string want(it != before.end() ? it->second : (k == n && self != before.end()) ? self->second : string("<absent>")), got(slurp(gen(base, k, suffix)));
		if (got != want)
			REPORT("{\"unit\":\"%s\",\"count\":%u,\"generation\":%u,\"holds\":\"%s\",\"expected\":\"%s\"}", what, count, k, got.c_str(), want.c_str());
	}
	// generations above the kept range that existed before are not given new content from below (they may only be overwritten by their own predecessor)
	if (slurp(sibling) != "sibling")
		REPORT("{\"unit\":\"%s\",\"count\":%u,\"sibling_file_touched\":true}", what, count);
}

static const unsigned counts[] { 0, 1, 2, 3, 5, 9, 1023, 1024, 1025, 1100 };
static const unsigned sets[][4] { { 0, 0, 0, 0 }, { 1, 0, 0, 0 }, { 1, 2, 0, 0 }, { 2, 3, 0, 0 }, { 1, 3, 4, 0 }, { 1, 1022, 1023, 0 } };   // existing generations besides the live file (0 = none)

static int search_logger(const string& dir)
{
	for (unsigned count : counts)
		for (auto& st : sets)
			for (int mode = 0; mode < 3; ++mode)	// 0 = truncate mode, 1 = append mode unforced, 2 = append mode forced then unforced
			{
				clean(dir);
				const string base(dir + "/app.log"), sibling(dir + "/app.log.keep");
				map<unsigned, string> before;
				spit(base, "gen0"); before[0] = "gen0";
				for (unsigned g : st) if (g) { ostringstream c; c << "gen" << g; spit(gen(base, g), c.str()); before[g] = c.str(); }
				spit(sibling, "sibling");
				Logger::LogFlags flags; flags << Logger::timestamp; if (mode) flags << Logger::append;
				{
					FileLogger fl("", flags, Logger::Levels(Logger::All), " ", Logger::LogPositions(), count);
					// the constructor does not rotate when the name is empty; use the public rotate() on a named logger instead
				}
				FileLogger *fl = new FileLogger(base, flags, Logger::Levels(Logger::All), " ", Logger::LogPositions(), count);   // ctor calls rotate()
				if (mode == 0)
					check_shift("FileLogger::rotate", base, "", count, before, sibling);
				else
				{
					if (slurp(gen(base, 1)) != (before.count(1) ? before[1] : string("<absent>")) && count)
						REPORT("{\"unit\":\"FileLogger::rotate\",\"count\":%u,\"append_mode_rotated_without_force\":true}", count);
					if (mode == 2)
					{
						map<unsigned, string> b2;
						for (unsigned g = 0; g <= 1030; ++g) { const string c(slurp(gen(base, g))); if (c != "<absent>") b2[g] = c; }
						fl->rotate(true);
						check_shift("FileLogger::rotate(force)", base, "", count, b2, sibling);
						map<unsigned, string> b3;
						for (unsigned g = 0; g <= 1030; ++g) { const string c(slurp(gen(base, g))); if (c != "<absent>") b3[g] = c; }
						fl->rotate();	// unforced again: append mode must be left alone
						for (unsigned g = 1; g <= 12; ++g)
							if (slurp(gen(base, g)) != (b3.count(g) ? b3[g] : string("<absent>")))
							{
								REPORT("{\"unit\":\"FileLogger::rotate\",\"count\":%u,\"unforced_call_after_forced_one_rotated_an_append_log\":true,\"generation\":%u}", count, g);
								break;
							}
					}
				}
				fl->stop();
				delete fl;
			}
	clean(dir);
	return bad;
}

static int search_persister(const string& dir)
{
	for (unsigned count : counts)
		for (auto& st : sets)
		{
			clean(dir);
			const string base(dir + "/st"), sibling(dir + "/st.keep");
			map<unsigned, string> before, ibefore;
			spit(base, "d0"); before[0] = "d0"; spit(base + ".idx", "i0"); ibefore[0] = "i0";
			for (unsigned g : st) if (g)
			{
				ostringstream c, ci; c << "d" << g; ci << "i" << g;
				spit(gen(base, g), c.str()); before[g] = c.str();
				spit(gen(base, g, ".idx"), ci.str()); ibefore[g] = ci.str();
			}
			spit(sibling, "sibling");
			{
				FilePersister fp(count);
				fp.initialise(dir, "st", true);
				check_shift("FilePersister::initialise(purge) data", base, "", count, before, sibling);
				check_shift("FilePersister::initialise(purge) index", base, ".idx", count, ibefore, sibling);
			}
		}
	clean(dir);
	return bad;
}

int main(int argc, char **argv)
{
	if (argc < 4) return 2;
	const string which(argv[2]), dir(argv[3]);
	mkdir(dir.c_str(), 0700);
	if (chdir(dir.c_str())) return 2;	// the global logger of the library drops its default file into the current directory
	if (which == "logger" || which == "all") search_logger(dir);
	if (which == "persister" || which == "all") search_persister(dir);
	clean(dir); rmdir(dir.c_str());
	printf("{\"class\":\"%s\",\"mismatches\":%d}\n", which.c_str(), bad);
	return bad ? 1 : 0;
}
