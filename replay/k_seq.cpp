// native replay for the session acceptance gate (C19 / C20): the real Session::process / enforce / sequence_check (runtime/session.cpp compiled from the
// working tree with the utests' mock connection; generated FIX42 test classes and the rest of the runtime from the repository's built libraries)
// usage: k_seq search [gate|second_gap|logon_gap]
#define F8MOCK_CONNECTION 1   /* before any fix8 header: the utests' mock connection replaces the socket layer */
#include <fix8/f8config.h>
#include <errno.h>
#include <fix8/f8includes.hpp>
#include "utest_types.hpp"
#include "utest_router.hpp"
#include "utest_classes.hpp"
#include <session.cpp>
#include <cstdio>
#include <unistd.h>
using namespace FIX8;
using namespace FIX8::UTEST;

class test_session : public FIX8::Session
{
	utest_Router _router;
public:
	unsigned delivered = 0, last_delivered_seq = 0;
	test_session(const F8MetaCntx& ctx, const SessionID& sid, Persister *persist) : Session(ctx, sid, persist, 0, 0) { _timer.clear(); _timer.stop(); _timer.join(); }
	bool handle_application(const unsigned seqnum, const Message *&msg)
	{
		const bool fails = enforce(seqnum, msg);
		if (!fails) { ++delivered; last_delivered_seq = seqnum; }
		return fails || msg->process(_router);
	}
	States::SessionStates getState() { return _state; }
	unsigned expected() { return _next_receive_seq; }
	void set_last_received(const Tickval& v) { _last_received = v; }
	void set_last_sent(const Tickval& v) { _last_sent = v; }
	void set_state(States::SessionStates st) { _state = st; }
	void tick() { heartbeat_service(); }
};
struct Fx
{
	MemoryPersister *per; test_session *ss; ClientConnection *conn;
	Fx()
	{
		per = new MemoryPersister;
		ss = new test_session(ctx(), SessionID("FIX.4.2:A12345B->COMPARO"), per);
		Poco::Net::SocketAddress addr("127.0.0.1:80");
		conn = new ClientConnection(0, addr, *ss, pm_thread, false);
		conn->connect();
		ss->start(conn, false);
	}
	~Fx() { ss->stop(); }	// objects are leaked on purpose (the session destructor reads its connection)
	void hdr(MessageBase *h, unsigned seq, bool possdup = false)
	{
		*h << new msg_seq_num(seq) << new sender_comp_id("COMPARO") << new sending_time() << new target_comp_id("A12345B");
		if (possdup) *h << new poss_dup_flag(true) << new orig_sending_time();
	}
	void logon(unsigned seq)
	{
		Logon m; hdr(m.Header(), seq); m << new HeartBtInt(conn->get_hb_interval()) << new EncryptMethod(0);
		f8String s; m.encode(s); ss->update_received(); ss->process(s);
	}
	void order(unsigned seq, bool possdup = false)
	{
		NewOrderSingle m; hdr(m.Header(), seq, possdup);
		m << new TransactTime << new ClOrdID("4") << new HandlInst('1') << new OrdType('2') << new Side('1') << new Symbol("OC") << new OrderQty(50) << new Price(400.5);
		f8String s; m.encode(s); ss->update_received(); ss->process(s);
	}
	bool sent(const char *what) { for (auto& o : conn->_output) if (o.find(what) != f8String::npos) return true; return false; }
};
static int bad = 0;
#define REPORT(...) do { if (bad < 6) { printf(__VA_ARGS__); printf("\n"); } ++bad; } while (0)

static void gate()
{
	Fx f; f.logon(1);
	if (f.ss->getState() != States::st_continuous) REPORT("{\"scenario\":\"gate\",\"after_logon_state\":%d}", (int)f.ss->getState());
	f.order(2);
	if (f.ss->delivered != 1 || f.ss->last_delivered_seq != 2) REPORT("{\"scenario\":\"gate\",\"in_sequence_message_delivered\":%u}", f.ss->delivered);
	f.conn->_output.clear();
	f.order(5);	// gap
	if (f.ss->delivered != 1) REPORT("{\"scenario\":\"gate\",\"gap_message_delivered\":true}");
	if (!f.sent("35=2") || !f.sent("\0017=3\001")) REPORT("{\"scenario\":\"gate\",\"resend_request_from_expected_3_sent\":false}");
	if (f.ss->getState() != States::st_resend_request_sent) REPORT("{\"scenario\":\"gate\",\"state_after_gap\":%d}", (int)f.ss->getState());
}
static void second_gap()
{
	Fx f; f.logon(1); f.order(2); f.order(5);
	f.order(6);	// the counterparty keeps sending while the resend is pending: conformant
	const States::SessionStates st = f.ss->getState();
	if (st == States::st_session_terminated || st == States::st_logoff_sent || f.ss->is_shutdown())
		REPORT("{\"scenario\":\"second_gap\",\"history\":\"Logon 1, order 2, order 5 (gap), order 6\",\"state\":%d,\"session_shut_down\":%d}", (int)st, (int)f.ss->is_shutdown());
}
static void logon_gap()
{
	Fx f; f.logon(4);	// Logon reply with a number above the expected 1
	const States::SessionStates st = f.ss->getState();
	if (st == States::st_session_terminated || st == States::st_logoff_sent || f.ss->is_shutdown())
		REPORT("{\"scenario\":\"logon_gap\",\"history\":\"Logon reply with MsgSeqNum 4, expected 1\",\"state\":%d,\"session_shut_down\":%d}", (int)st, (int)f.ss->is_shutdown());
}
// C22: one supervision tick for each combination of idle / silent seconds around the thresholds (H = 30 s, margin 36 s) and both test-request states
static void heartbeat_ticks()
{
	for (int idle : { 28, 31 }) for (int silent : { 35, 38 }) for (int pending = 0; pending < 2; ++pending)
	{
		Fx f; f.logon(1);
		f.conn->set_hb_interval(30);
		f.conn->_output.clear();
		Tickval now(true);
		f.ss->set_last_sent(Tickval(now.get_ticks() - idle * Tickval::second));
		f.ss->set_last_received(Tickval(now.get_ticks() - silent * Tickval::second));
		f.ss->set_state(pending ? States::st_test_request_sent : States::st_continuous);
		f.ss->tick();
		const bool hb = f.sent("35=0"), tr = f.sent("35=1"), lo = f.sent("35=5");
		const bool want_hb = idle >= 30, want_tr = silent > 36 && !pending, want_lo = silent > 36 && pending;
		if (hb != want_hb || tr != want_tr || lo != want_lo)
			REPORT("{\"scenario\":\"tick\",\"idle_s\":%d,\"silent_s\":%d,\"test_request_pending\":%d,\"heartbeat\":%d,\"test_request\":%d,\"logout\":%d}", idle, silent, pending, (int)hb, (int)tr, (int)lo);
		if (want_tr && f.ss->getState() != States::st_test_request_sent) REPORT("{\"scenario\":\"tick\",\"state_after_test_request\":%d}", (int)f.ss->getState());
		if (want_lo && f.ss->getState() != States::st_session_terminated) REPORT("{\"scenario\":\"tick\",\"state_after_logout\":%d}", (int)f.ss->getState());
	}
}
int main(int argc, char **argv)
{
	const std::string which(argc > 2 ? argv[2] : "all");
	if (which == "gate" || which == "all") gate();
	if (which == "second_gap" || which == "all") second_gap();
	if (which == "logon_gap" || which == "all") logon_gap();
	if (which == "tick" || which == "all") heartbeat_ticks();
	printf("{\"search_done\":true,\"class\":\"%s\",\"mismatches\":%d}\n", which.c_str(), bad);
	fflush(stdout);
	_exit(bad ? 1 : 0);	// skip static destructors: session.cpp is compiled into this program and also lives in libfix8 (duplicate statics)
}
