// native replay for the session acceptance gate (C19 / C20): the real Session::process / enforce / sequence_check (runtime/session.cpp compiled from the
// working tree with the utests' mock connection; generated FIX42 test classes and the rest of the runtime from the repository's built libraries)
// usage: k_seq search [gate|second_gap|logon_gap]
#define F8MOCK_CONNECTION 1   /* before any fix8 header: the utests' mock connection replaces the socket layer */
#include <fix8/f8config.h>
#include <errno.h>
#include <fix8/f8includes.hpp>
#include "utest_types.hpp"
#include "utest_router.hpp"
#include "utest_classes.hpp"
#include <session.cpp>
#include <cstdio>
#include <vector>
#include <string>
#include <unistd.h>
using namespace FIX8;
using namespace FIX8::UTEST;

class test_session : public FIX8::Session
{
	utest_Router _router;
public:
	unsigned delivered = 0, last_delivered_seq = 0;
	test_session(const F8MetaCntx& ctx, const SessionID& sid, Persister *persist) : Session(ctx, sid, persist, 0, 0) { _timer.clear(); _timer.stop(); _timer.join(); }
	bool handle_application(const unsigned seqnum, const Message *&msg)
	{
		const bool fails = enforce(seqnum, msg);
		if (!fails) { ++delivered; last_delivered_seq = seqnum; }
		return fails || msg->process(_router);
	}
	States::SessionStates getState() { return _state; }
	unsigned expected() { return _next_receive_seq; }
	void set_last_received(const Tickval& v) { _last_received = v; }
	void set_last_sent(const Tickval& v) { _last_sent = v; }
	void set_state(States::SessionStates st) { _state = st; }
	void tick() { heartbeat_service(); }
};
// outbound messages go through the real Session::send_process (numbering, PossDup/OrigSendingTime, persistence); the encoded bytes land in the
// mock's _output through Connection::send(const char *, size_t)
class seq_connection : public ClientConnection
{
public:
	seq_connection(Poco::Net::SocketAddress& addr, Session& session) : ClientConnection(0, addr, session, pm_thread, false) {}
	bool write(Message *from, bool destroy) override
	{
		const bool result(_session.send_process(from));
		if (destroy) delete from;
		return result;
	}
};
struct Fx
{
	MemoryPersister *per; test_session *ss; ClientConnection *conn;
	Fx()
	{
		per = new MemoryPersister;
		ss = new test_session(ctx(), SessionID("FIX.4.2:A12345B->COMPARO"), per);
		Poco::Net::SocketAddress addr("127.0.0.1:80");
		conn = new seq_connection(addr, *ss);
		conn->connect();
		ss->start(conn, false);
	}
	~Fx() { ss->stop(); }	// objects are leaked on purpose (the session destructor reads its connection)
	void hdr(MessageBase *h, unsigned seq, bool possdup = false)
	{
		*h << new msg_seq_num(seq) << new sender_comp_id("COMPARO") << new sending_time() << new target_comp_id("A12345B");
		if (possdup) *h << new poss_dup_flag(true) << new orig_sending_time();
	}
	void logon(unsigned seq)
	{
		Logon m; hdr(m.Header(), seq); m << new HeartBtInt(conn->get_hb_interval()) << new EncryptMethod(0);
		f8String s; m.encode(s); ss->update_received(); ss->process(s);
	}
	void order(unsigned seq, bool possdup = false)
	{
		NewOrderSingle m; hdr(m.Header(), seq, possdup);
		m << new TransactTime << new ClOrdID("4") << new HandlInst('1') << new OrdType('2') << new Side('1') << new Symbol("OC") << new OrderQty(50) << new Price(400.5);
		f8String s; m.encode(s); ss->update_received(); ss->process(s);
	}
	bool sent(const char *what) { for (auto& o : conn->_output) if (o.find(what) != f8String::npos) return true; return false; }
};
static int bad = 0;
#define REPORT(...) do { if (bad < 6) { printf(__VA_ARGS__); printf("\n"); } ++bad; } while (0)

static void gate()
{
	Fx f; f.logon(1);
	if (f.ss->getState() != States::st_continuous) REPORT("{\"scenario\":\"gate\",\"after_logon_state\":%d}", (int)f.ss->getState());
	f.order(2);
	if (f.ss->delivered != 1 || f.ss->last_delivered_seq != 2) REPORT("{\"scenario\":\"gate\",\"in_sequence_message_delivered\":%u}", f.ss->delivered);
	f.conn->_output.clear();
	f.order(5);	// gap
	if (f.ss->delivered != 1) REPORT("{\"scenario\":\"gate\",\"gap_message_delivered\":true}");
	if (!f.sent("35=2") || !f.sent("\0017=3\001")) REPORT("{\"scenario\":\"gate\",\"resend_request_from_expected_3_sent\":false}");
	if (f.ss->getState() != States::st_resend_request_sent) REPORT("{\"scenario\":\"gate\",\"state_after_gap\":%d}", (int)f.ss->getState());
}
static void second_gap()
{
	Fx f; f.logon(1); f.order(2); f.order(5);
	f.order(6);	// the counterparty keeps sending while the resend is pending: conformant
	const States::SessionStates st = f.ss->getState();
	if (st == States::st_session_terminated || st == States::st_logoff_sent || f.ss->is_shutdown())
		REPORT("{\"scenario\":\"second_gap\",\"history\":\"Logon 1, order 2, order 5 (gap), order 6\",\"state\":%d,\"session_shut_down\":%d}", (int)st, (int)f.ss->is_shutdown());
}
static void logon_gap()
{
	Fx f; f.logon(4);	// Logon reply with a number above the expected 1
	const States::SessionStates st = f.ss->getState();
	if (st == States::st_session_terminated || st == States::st_logoff_sent || f.ss->is_shutdown())
		REPORT("{\"scenario\":\"logon_gap\",\"history\":\"Logon reply with MsgSeqNum 4, expected 1\",\"state\":%d,\"session_shut_down\":%d}", (int)st, (int)f.ss->is_shutdown());
}
// C20: a whole recovery: gap, then the counterparty replays the missing application messages (PossDup) and continues normally
static void recovery()
{
	{
		Fx f; f.logon(1); f.order(2); f.order(5);	// 3 and 4 lost; 5 withheld, ResendRequest(3, 0) sent
		f.order(3, true); f.order(4, true); f.order(5, true);	// conformant replay
		f.order(6);	// and normal traffic
		const States::SessionStates st = f.ss->getState();
		if (st == States::st_session_terminated || st == States::st_logoff_sent || f.ss->is_shutdown() || f.ss->expected() != 7 || f.ss->delivered < 5)
			REPORT("{\"scenario\":\"recovery by replay\",\"history\":\"Logon 1, order 2, order 5 (gap), replay 3 4 5 with PossDup, order 6\",\"state\":%d,\"shut_down\":%d,\"expected_inbound\":%u,\"want_expected\":7,\"delivered\":%u}",
				(int)st, (int)f.ss->is_shutdown(), f.ss->expected(), f.ss->delivered);
	}
	{
		Fx f; f.logon(1); f.order(2); f.order(3);
		f.order(3, true);	// a duplicate of 3, flagged PossDup (conformant: e.g. the answer to a ResendRequest the counterparty saw twice)
		f.order(4);
		const States::SessionStates st = f.ss->getState();
		if (st == States::st_session_terminated || st == States::st_logoff_sent || f.ss->is_shutdown() || f.ss->expected() != 5)
			REPORT("{\"scenario\":\"duplicate with PossDup then normal traffic\",\"history\":\"Logon 1, order 2, order 3, order 3 with PossDup, order 4\",\"state\":%d,\"shut_down\":%d,\"expected_inbound\":%u,\"want_expected\":5}",
				(int)st, (int)f.ss->is_shutdown(), f.ss->expected());
	}
	{
		Fx f; f.logon(1); f.order(2); f.order(5);
		SequenceReset m; f.hdr(m.Header(), 3, true); m << new NewSeqNo(6) << new GapFillFlag(true);	// conformant gap fill 3..5
		f8String s; m.encode(s); f.ss->update_received(); f.ss->process(s);
		f.order(6);
		const States::SessionStates st = f.ss->getState();
		if (st == States::st_session_terminated || st == States::st_logoff_sent || f.ss->is_shutdown() || f.ss->expected() != 7)
			REPORT("{\"scenario\":\"recovery by gap fill\",\"history\":\"Logon 1, order 2, order 5 (gap), GapFill 3->6, order 6\",\"state\":%d,\"shut_down\":%d,\"expected_inbound\":%u,\"want_expected\":7}",
				(int)st, (int)f.ss->is_shutdown(), f.ss->expected());
	}
}
// C19: a lower number without PossDupFlag ends the session with a Logout and no delivery
static void too_low()
{
	Fx f; f.logon(1); f.order(2); f.order(3); f.conn->_output.clear();
	const unsigned d0 = f.ss->delivered;
	f.order(2);
	const bool ended = f.ss->is_shutdown() || f.ss->getState() == States::st_session_terminated || f.ss->getState() == States::st_logoff_sent;
	if (f.ss->delivered != d0 || !ended || !f.sent("35=5"))
		REPORT("{\"scenario\":\"too low\",\"history\":\"Logon 1, order 2, order 3, order 2 without PossDup\",\"delivered_again\":%d,\"session_ended\":%d,\"logout_sent\":%d,\"state\":%d}",
			(int)(f.ss->delivered != d0), (int)ended, (int)f.sent("35=5"), (int)f.ss->getState());
}
// C19: the number handed to the gate is the MsgSeqNum field, also when an earlier header value contains the text "34="
static void seqnum_text()
{
	Fx f; f.logon(1); f.order(2);
	const unsigned d0 = f.ss->delivered;
	NewOrderSingle m; f.hdr(m.Header(), 3); *m.Header() << new OnBehalfOfCompID("X34=9");
	m << new TransactTime << new ClOrdID("4") << new HandlInst('1') << new OrdType('2') << new Side('1') << new Symbol("OC") << new OrderQty(50) << new Price(400.5);
	f8String s; m.encode(s); f.conn->_output.clear(); f.ss->update_received(); f.ss->process(s);
	const bool before = s.find("34=9") < s.find("\00134=3");
	if (f.ss->delivered != d0 + 1 || f.sent("35=2"))
		REPORT("{\"scenario\":\"seqnum text\",\"history\":\"Logon 1, order 2, order 3 whose OnBehalfOfCompID is X34=9\",\"value_precedes_field\":%d,\"delivered\":%d,\"resend_request_sent\":%d,\"state\":%d}",
			(int)before, (int)(f.ss->delivered == d0 + 1), (int)f.sent("35=2"), (int)f.ss->getState());
}
// C18: answer to a ResendRequest: dump what goes on the wire (MsgType, MsgSeqNum, NewSeqNo, PossDup) so that the caller can compare with the specification
static void dump_wire(Fx& f, const char *scenario)
{
	for (auto& o : f.conn->_output)
	{
		auto fld = [&](const char *tag) { std::string k(std::string("\001") + tag + "="); size_t p = o.find(k); if (p == std::string::npos) return std::string("-"); p += k.size(); return o.substr(p, o.find('\001', p) - p); };
		printf("{\"scenario\":\"%s\",\"35\":\"%s\",\"34\":\"%s\",\"36\":\"%s\",\"43\":\"%s\",\"123\":\"%s\"}\n", scenario, fld("35").c_str(), fld("34").c_str(), fld("36").c_str(), fld("43").c_str(), fld("123").c_str());
	}
}
static void send_orders(Fx& f, int n)
{
	for (int i = 0; i < n; ++i)
	{
		NewOrderSingle *m = new NewOrderSingle;
		*m << new TransactTime << new ClOrdID("4") << new HandlInst('1') << new OrdType('2') << new Side('1') << new Symbol("OC") << new OrderQty(50) << new Price(400.5);
		f.ss->send(m);
	}
}
static void resend(Fx& f, unsigned seq, unsigned b, unsigned e)
{
	ResendRequest m; f.hdr(m.Header(), seq); m << new BeginSeqNo(b) << new EndSeqNo(e);
	f8String s; m.encode(s); f.ss->update_received(); f.ss->process(s);
}
// compare the wire answer with the specification: stored numbers replayed in ascending order with PossDup, every gap announced by a GapFill whose
// MsgSeqNum is the first number of the gap and whose NewSeqNo is the number after it; a final GapFill from the first uncovered number
static void check_answer(Fx& f, const char *scenario, const std::vector<unsigned>& stored, unsigned b, unsigned e, unsigned next_before)
{
	std::vector<std::string> want;
	unsigned cov = b;
	for (unsigned s : stored)
	{
		if (s < b || (e && s > e)) continue;
		if (s > cov) want.push_back("4:" + std::to_string(cov) + ":" + std::to_string(s));
		want.push_back("D:" + std::to_string(s) + ":Y");
		cov = s + 1;
	}
	std::vector<std::string> got;
	for (auto& o : f.conn->_output)
	{
		auto fld = [&](const char *tag) { std::string k(std::string("\001") + tag + "="); size_t p = o.find(k); if (p == std::string::npos) return std::string("-"); p += k.size(); return o.substr(p, o.find('\001', p) - p); };
		got.push_back(fld("35") == "4" ? "4:" + fld("34") + ":" + fld("36") : fld("35") + ":" + fld("34") + ":" + fld("43"));
	}
	bool ok = got.size() == want.size() + 1;
	for (size_t i = 0; ok && i < want.size(); ++i) ok = got[i] == want[i];
	if (ok) { const std::string& last = got.back(); ok = last.rfind("4:" + std::to_string(cov) + ":", 0) == 0; }	// final GapFill starts at the first uncovered number
	if (ok) ok = f.ss->get_next_send_seq() >= next_before;
	if (!ok)
	{
		std::string g, w; for (auto& x : got) g += x + " "; for (auto& x : want) w += x + " ";
		REPORT("{\"scenario\":\"%s\",\"request\":[%u,%u],\"wire(type:MsgSeqNum:NewSeqNo|PossDup)\":\"%s\",\"expected_prefix\":\"%s\",\"then\":\"4:%u:*\"}", scenario, b, e, g.c_str(), w.c_str(), cov);
	}
}
static void resend_scenarios(const std::string& which)
{
	if (which == "resend_bounded" || which == "resend")
	{
		Fx f; f.logon(1); send_orders(f, 9);	// our Logon was 1, orders are 2..10
		const unsigned nb = f.ss->get_next_send_seq();
		f.conn->_output.clear();
		resend(f, 2, 3, 5);
		check_answer(f, "bounded range of a full store", { 2, 3, 4, 5, 6, 7, 8, 9, 10 }, 3, 5, nb);
	}
	if (which == "resend_gap" || which == "resend")
	{
		Fx f; f.logon(1); send_orders(f, 2);	// 2, 3 stored
		f.ss->send(new Heartbeat); f.ss->send(new Heartbeat);	// 4, 5: admin, not stored
		send_orders(f, 2);	// 6, 7 stored
		const unsigned nb = f.ss->get_next_send_seq();
		f.conn->_output.clear();
		resend(f, 2, 2, 0);
		check_answer(f, "open range over a store with a gap (4, 5 were admin messages)", { 2, 3, 6, 7 }, 2, 0, nb);
	}
	if (which == "resend_last" || which == "resend")
	{
		Fx f; f.logon(1); send_orders(f, 4);	// 2..5 stored
		const unsigned nb = f.ss->get_next_send_seq();
		f.conn->_output.clear();
		resend(f, 2, 5, 0);
		check_answer(f, "open range starting at the newest stored record", { 2, 3, 4, 5 }, 5, 0, nb);
	}
	if (which == "resend_single" || which == "resend")
	{
		Fx f; f.logon(1); send_orders(f, 4);	// 2..5 stored
		const unsigned nb = f.ss->get_next_send_seq();
		f.conn->_output.clear();
		resend(f, 2, 3, 3);
		check_answer(f, "range of exactly one stored record", { 2, 3, 4, 5 }, 3, 3, nb);
	}
	if (which == "resend_late_start" || which == "resend")
	{
		Fx f; f.logon(1); f.ss->send(new Heartbeat); f.ss->send(new Heartbeat);	// 2, 3: admin
		send_orders(f, 2);	// 4, 5 stored
		const unsigned nb = f.ss->get_next_send_seq();
		f.conn->_output.clear();
		resend(f, 2, 2, 0);
		check_answer(f, "open range whose first stored record is after the start (2, 3 were admin messages)", { 4, 5 }, 2, 0, nb);
	}
}
// C16 / C17: the real Session::send_process with a persister attached: numbering on the wire, what the store and the control record hold afterwards
static NewOrderSingle *new_order(const char *clid)
{
	NewOrderSingle *m = new NewOrderSingle;
	*m << new TransactTime << new ClOrdID(clid) << new HandlInst('1') << new OrdType('2') << new Side('1') << new Symbol("OC") << new OrderQty(50) << new Price(400.5);
	return m;
}
static std::string wire_field(const std::string& o, const char *tag)
{
	std::string k(std::string("\001") + tag + "="); size_t p = o.find(k); if (p == std::string::npos) return std::string("-"); p += k.size(); return o.substr(p, o.find('\001', p) - p);
}
static void control_check(Fx& f, const char *scenario)
{
	unsigned snd = 0, rcv = 0;
	f.per->get(snd, rcv);
	if (snd != f.ss->get_next_send_seq() || rcv != f.ss->expected())
		REPORT("{\"scenario\":\"%s\",\"control_record\":[%u,%u],\"session_next_send\":%u,\"session_next_receive\":%u}", scenario, snd, rcv, f.ss->get_next_send_seq(), f.ss->expected());
}
static void send_scenarios(const std::string& which)
{
	if (which == "send_plain" || which == "send")
	{
		Fx f; f.logon(1); f.conn->_output.clear();
		const unsigned n0 = f.ss->get_next_send_seq();
		for (int i = 0; i < 4; ++i)
		{
			if (i == 2) f.ss->send(new Heartbeat); else f.ss->send(new_order("7"));
			control_check(f, "plain sends: control record after each send");
		}
		for (unsigned i = 0; i < f.conn->_output.size(); ++i)
		{
			const std::string& o = f.conn->_output[i];
			if (wire_field(o, "34") != std::to_string(n0 + i)) REPORT("{\"scenario\":\"plain sends\",\"index\":%u,\"wire_34\":\"%s\",\"want\":%u}", i, wire_field(o, "34").c_str(), n0 + i);
			f8String st; const bool have = f.per->get(n0 + i, st);
			if (i == 2 ? (have && !st.empty()) : (!have || st != o)) REPORT("{\"scenario\":\"plain sends\",\"index\":%u,\"stored_equals_wire\":false,\"admin\":%d}", i, (int)(i == 2));
		}
	}
	if (which == "send_uncounted" || which == "send")
	{
		{ Fx f; f.logon(1); f.ss->send(new_order("7")); f.ss->send(new Heartbeat, true, 0, true);	// no_increment
		  control_check(f, "a send that does not consume a number (no_increment)"); }
		{ Fx f; f.logon(1); f.ss->send(new_order("7"));
		  SequenceReset *sr = new SequenceReset; *sr << new NewSeqNo(f.ss->get_next_send_seq()) << new GapFillFlag(true); f.ss->send(sr, true, 2);	// custom number
		  control_check(f, "a gap fill sent under a custom number"); }
	}
	if (which == "send_custom" || which == "send")
	{
		Fx f; f.logon(1); f.ss->send(new_order("7")); f.conn->_output.clear();
		f.ss->send(new_order("8"), true, 77);
		const std::string o = f.conn->_output.empty() ? std::string() : f.conn->_output.back();
		f8String st; const bool have = f.per->get(77, st);
		if (wire_field(o, "34") != "77" || !have || st != o)
			REPORT("{\"scenario\":\"application message sent under the custom number 77\",\"wire_34\":\"%s\",\"stored_under_77\":%d,\"stored_equals_wire\":%d}", wire_field(o, "34").c_str(), (int)have, (int)(have && st == o));
	}
	if (which == "send_batch" || which == "send")
	{
		Fx f; f.logon(1); f.conn->_output.clear();
		const unsigned n0 = f.ss->get_next_send_seq();
		std::vector<Message *> msgs { new_order("b1"), new_order("b2"), new_order("b3") };
		for (size_t i = 0; i < msgs.size(); ++i)	// what FIXWriter::write_batch does in the threaded and coroutine models
		{
			msgs[i]->set_end_of_batch(i + 1 == msgs.size());
			f.ss->send_process(msgs[i]);
		}
		std::string wire; for (auto& o : f.conn->_output) wire += o;
		for (unsigned i = 0; i < 3; ++i)
		{
			f8String st; const bool have = f.per->get(n0 + i, st);
			const std::string clid = "\00111=b" + std::to_string(i + 1) + "\001", num = "\00134=" + std::to_string(n0 + i) + "\001";
			const bool ok = have && st.find(clid) != std::string::npos && st.find(num) != std::string::npos && wire.find(st) != std::string::npos && st.compare(0, 2, "8=") == 0
				&& st.find("\00110=") + 8 == st.size();
			if (!ok) REPORT("{\"scenario\":\"batch of three application messages\",\"index\":%u,\"number\":%u,\"stored\":%d,\"stored_length\":%zu,\"stored_is_exactly_this_message\":false}", i, n0 + i, (int)have, st.size());
		}
		control_check(f, "batch of three application messages");
	}
	if (which == "send_big")
	{
		// C03: a field value longer than the encode buffer of send_process (no sanitizer in this harness: the overflow shows as a crash or as a corrupted frame)
		Fx f; f.logon(1); f.conn->_output.clear();
		NewOrderSingle *m = new_order("big"); *m << new Text(std::string(20000, 'x'));
		printf("{\"scenario\":\"order with a 20000-byte Text through the real send_process\",\"about_to_send\":true}\n"); fflush(stdout);
		const bool r = f.ss->send(m);
		const size_t n = f.conn->_output.empty() ? 0 : f.conn->_output.back().size();
		if (!(r && n > 20000)) REPORT("{\"scenario\":\"order with a 20000-byte Text\",\"returned\":%d,\"bytes_on_the_wire\":%zu}", (int)r, n);
	}
	if (which == "send_renumber" || which == "send")
	{
		Fx f; f.logon(1);
		LoginParameters lp; lp._always_seqnum_assign = true; f.ss->set_login_parameters(lp);
		f.conn->_output.clear();
		NewOrderSingle *m = new_order("r1");
		*m->Header() << new msg_seq_num(1) << new poss_dup_flag(true) << new sending_time;	// an application re-sends a message it built earlier
		f.ss->send(m); f.ss->send(new_order("r2"));
		if (f.conn->_output.size() == 2 && wire_field(f.conn->_output[0], "43") == "-" && wire_field(f.conn->_output[0], "34") == wire_field(f.conn->_output[1], "34"))
			REPORT("{\"scenario\":\"renumbering mode: two new messages on the wire\",\"first_34\":\"%s\",\"second_34\":\"%s\"}", wire_field(f.conn->_output[0], "34").c_str(), wire_field(f.conn->_output[1], "34").c_str());
	}
}
// C22: one supervision tick for each combination of idle / silent seconds around the thresholds (H = 30 s, margin 36 s) and both test-request states
static void heartbeat_ticks()
{
	for (int idle : { 28, 31 }) for (int silent : { 35, 38 }) for (int pending = 0; pending < 2; ++pending)
	{
		Fx f; f.logon(1);
		f.conn->set_hb_interval(30);
		f.conn->_output.clear();
		Tickval now(true);
		f.ss->set_last_sent(Tickval(now.get_ticks() - idle * Tickval::second));
		f.ss->set_last_received(Tickval(now.get_ticks() - silent * Tickval::second));
		f.ss->set_state(pending ? States::st_test_request_sent : States::st_continuous);
		f.ss->tick();
		const bool hb = f.sent("35=0"), tr = f.sent("35=1"), lo = f.sent("35=5");
		const bool want_hb = idle >= 30, want_tr = silent > 36 && !pending, want_lo = silent > 36 && pending;
		if (hb != want_hb || tr != want_tr || lo != want_lo)
			REPORT("{\"scenario\":\"tick\",\"idle_s\":%d,\"silent_s\":%d,\"test_request_pending\":%d,\"heartbeat\":%d,\"test_request\":%d,\"logout\":%d}", idle, silent, pending, (int)hb, (int)tr, (int)lo);
		if (want_tr && f.ss->getState() != States::st_test_request_sent) REPORT("{\"scenario\":\"tick\",\"state_after_test_request\":%d}", (int)f.ss->getState());
		if (want_lo && f.ss->getState() != States::st_session_terminated) REPORT("{\"scenario\":\"tick\",\"state_after_logout\":%d}", (int)f.ss->getState());
	}
}
int main(int argc, char **argv)
{
	const std::string which(argc > 2 ? argv[2] : "all");
	if (which == "gate" || which == "all") gate();
	if (which == "second_gap" || which == "all") second_gap();
	if (which == "logon_gap" || which == "all") logon_gap();
	if (which == "tick" || which == "all") heartbeat_ticks();
	if (which == "recovery") recovery();
	if (which == "too_low") too_low();
	if (which == "seqnum_text") seqnum_text();
	if (which.rfind("resend", 0) == 0) resend_scenarios(which);
	if (which.rfind("send", 0) == 0) send_scenarios(which);
	printf("{\"search_done\":true,\"class\":\"%s\",\"mismatches\":%d}\n", which.c_str(), bad);
	fflush(stdout);
	_exit(bad ? 1 : 0);	// skip static destructors: session.cpp is compiled into this program and also lives in libfix8 (duplicate statics)
}
