// native replay for C28 (stop drains): real FileLogger (runtime/logger.cpp compiled from the working tree): submit N lines as fast as possible, stop(), count the lines in the file
// usage: k_logstop <N> <scratch dir>
#include <precomp.hpp>
#include <fix8/f8includes.hpp>
#include <cstdio>
#include <fstream>
#include <unistd.h>
using namespace FIX8;
int main(int argc, char **argv)
{
	const int n = argc > 1 ? atoi(argv[1]) : 20000; int bad = 0;
	for (int round = 0; round < 5; ++round)
	{
		const std::string path(std::string(argc > 2 ? argv[2] : ".") + "/stop_" + std::to_string(round) + ".log"); unlink(path.c_str());
		int accepted = 0;
		{
			Logger::LogFlags flags; flags << Logger::timestamp << Logger::sequence;
			FileLogger fl(path, flags, Logger::Levels(Logger::All));
			for (int i = 0; i < n; ++i) if (fl.send("line " + std::to_string(i))) ++accepted;
			fl.stop();
		}
		std::ifstream in(path); std::string l; int lines = 0; while (std::getline(in, l)) ++lines;
		printf("{\"round\":%d,\"accepted\":%d,\"lines_in_file_after_stop\":%d}\n", round, accepted, lines);
		if (lines != accepted) ++bad;
	}
	return bad ? 1 : 0;
}
