// native replay / contract-checking harness for SessionID comparisons (real header): every pair of identities over 3 values per CompID
// usage: k_sid search
#include <fix8/f8includes.hpp>
#include <cstdio>
using namespace FIX8;
int main(int argc, char **argv)
{
	static const char *v[] { "A", "B", "A->B" };
	int bad = 0;
	for (int s1 = 0; s1 < 3; ++s1) for (int t1 = 0; t1 < 3; ++t1) for (int s2 = 0; s2 < 3; ++s2) for (int t2 = 0; t2 < 3; ++t2)
		for (int b2 = 0; b2 < 2; ++b2)
		{
			SessionID a(f8String("FIX.4.2"), f8String(v[s1]), f8String(v[t1])), b(f8String(b2 ? "FIX.4.4" : "FIX.4.2"), f8String(v[s2]), f8String(v[t2]));
			const bool spec = s1 == s2 && t1 == t2, eq = a == b, ne = a != b;
			if (eq != spec || ne == eq)
			{
				if (bad < 5)
					printf("{\"a\":[\"%s\",\"%s\"],\"b\":[\"%s\",\"%s\"],\"eq\":%d,\"ne\":%d,\"expected_eq\":%d}\n", v[s1], v[t1], v[s2], v[t2], (int)eq, (int)ne, (int)spec);
				++bad;
			}
			if (a.same_sender_comp_id(target_comp_id(v[s2])) != (s1 == s2) || a.same_target_comp_id(sender_comp_id(v[t2])) != (t1 == t2)
				|| a.same_side_target_comp_id(target_comp_id(v[t2])) != (t1 == t2) || a.same_side_sender_comp_id(sender_comp_id(v[s2])) != (s1 == s2))
			{
				if (bad < 5) printf("{\"same_comp_id_mismatch\":true,\"a\":[\"%s\",\"%s\"],\"probe\":[\"%s\",\"%s\"]}\n", v[s1], v[t1], v[s2], v[t2]);
				++bad;
			}
		}
	SessionID c(f8String("FIX.4.2"), f8String("A"), f8String("B"));
	if (!(c == c) || (c != c)) { ++bad; printf("{\"reflexive\":false}\n"); }
	printf("{\"search_done\":true,\"mismatches\":%d}\n", bad);
	return bad ? 1 : 0;
}
