// native replay / contract-checking harness for the C12 lookup tables (real headers, ASan+UBSan)
// usage: k_tab search [gt|ftha|pset|findbe]
//   gt     every strictly sorted table over a small alphabet (unsigned keys and C-string keys), every probe: GeneratedTable lookups
//   ftha   every strictly sorted trait table over tags 0..9: FieldTrait_Hash_Array + Presence::find for every tag 0..12
//   pset   every sequence of <= 6 inserts / clears over 5 tags, reserves {1,2,30}: Presence against std::set, returned iterators dereferenced
//   findbe F8MetaCntx::find_be for every tag after construction from small field tables
#include <fix8/f8includes.hpp>
#include <cstdio>
#include <cstdlib>
#include <cstring>
#include <vector>
#include <set>
#include <string>
using namespace FIX8;

static int bad = 0;
#define REPORT(...) do { if (bad < 5) { printf(__VA_ARGS__); printf("\n"); } ++bad; } while (0)

// ---------------------------------------------------------------- GeneratedTable
static void gt_uint(const std::vector<unsigned>& keys, unsigned probe)
{
	using T = GeneratedTable<unsigned, int>;
	T::Pair *raw = (T::Pair *)malloc((keys.size() ? keys.size() : 1) * sizeof(T::Pair));
	for (size_t i = 0; i < keys.size(); ++i) { raw[i]._key = keys[i]; raw[i]._value = 100 + (int)i; }
	const T gt(raw, keys.size());
	int member = -1;
	for (size_t i = 0; i < keys.size(); ++i) if (keys[i] == probe) member = (int)i;
	const int *v = gt.find_ptr(probe);
	const T::Pair *pp = gt.find_pair_ptr(probe);
	bool threw = false; int rv = -1;
	try { rv = gt.find_ref(probe); } catch (f8Exception&) { threw = true; }
	const bool ok = member >= 0 ? (v == &raw[member]._value && pp == &raw[member] && !threw && rv == 100 + member) : (v == nullptr && pp == nullptr && threw);
	if (!ok)
		REPORT("{\"table\":\"GeneratedTable<unsigned>\",\"size\":%zu,\"probe\":%u,\"expected_index\":%d,\"find_ptr_index\":%ld,\"threw\":%d}", keys.size(), probe, member,
			v ? (long)((const T::Pair *)((const char *)v - offsetof(T::Pair, _value)) - raw) : -1L, (int)threw);
	for (size_t idx = 0; idx < keys.size() + 2; ++idx)
		if (gt.at(idx) != (idx < keys.size() ? raw + idx : nullptr))
			REPORT("{\"table\":\"GeneratedTable<unsigned>\",\"at\":%zu,\"size\":%zu,\"mismatch\":true}", idx, keys.size());
	free(raw);
}

static const char *names[] = { "0", "8", "A", "AE", "B", "D", "header", "trailer" };	// strcmp-sorted
static void gt_cstr(const std::vector<int>& keys, int probe)
{
	using T = GeneratedTable<const char *, int>;
	T::Pair *raw = (T::Pair *)malloc((keys.size() ? keys.size() : 1) * sizeof(T::Pair));
	for (size_t i = 0; i < keys.size(); ++i) { raw[i]._key = names[keys[i]]; raw[i]._value = 100 + (int)i; }
	const T gt(raw, keys.size());
	int member = -1;
	for (size_t i = 0; i < keys.size(); ++i) if (keys[i] == probe) member = (int)i;
	const std::string pcopy(names[probe]);	// a different pointer with equal content
	const int *v = gt.find_ptr(pcopy.c_str());
	const T::Pair *pp = gt.find_pair_ptr(pcopy.c_str());
	const bool ok = member >= 0 ? (v == &raw[member]._value && pp == &raw[member]) : (v == nullptr && pp == nullptr);
	if (!ok)
		REPORT("{\"table\":\"GeneratedTable<const char*>\",\"size\":%zu,\"probe\":\"%s\",\"expected_index\":%d,\"hit\":%d}", keys.size(), names[probe], member, v != nullptr);
	free(raw);
}

static int search_gt()
{
	for (unsigned mask = 0; mask < (1u << 7); ++mask)
	{
		std::vector<unsigned> keys;
		for (unsigned b = 0; b < 7; ++b) if (mask & (1u << b)) keys.push_back(b == 6 ? 65535u : b * 3 + 1);
		for (unsigned probe : { 0u, 1u, 2u, 4u, 5u, 7u, 9u, 10u, 13u, 16u, 17u, 65534u, 65535u, 65536u, 0xffffffffu })
			gt_uint(keys, probe);
	}
	for (unsigned mask = 0; mask < (1u << 8); ++mask)
	{
		std::vector<int> keys;
		for (int b = 0; b < 8; ++b) if (mask & (1u << b)) keys.push_back(b);
		for (int probe = 0; probe < 8; ++probe)
			gt_cstr(keys, probe);
	}
	return bad;
}

// ---------------------------------------------------------------- hash array + Presence::find
static int search_ftha()
{
	for (unsigned mask = 1; mask < (1u << 10); ++mask)
	{
		std::vector<FieldTrait> tab;
		for (unsigned b = 0; b < 10; ++b) if (mask & (1u << b)) tab.push_back(FieldTrait(b, FieldTrait::ft_int, (unsigned short)(b + 1)));
		FieldTrait *raw = (FieldTrait *)malloc(tab.size() * sizeof(FieldTrait));
		memcpy(raw, tab.data(), tab.size() * sizeof(FieldTrait));
		{
			const FieldTrait_Hash_Array ha(raw, tab.size());
			FieldTraits ft(raw, tab.size(), &ha);
			const Presence& ps(ft.get_presence());
			for (unsigned short key = 0; key < 13; ++key)
			{
				int member = -1;
				for (size_t i = 0; i < tab.size(); ++i) if (tab[i]._fnum == key) member = (int)i;
				Presence::const_iterator r(ps.find(key));
				const bool ok = member >= 0 ? (r == ps.begin() + member && r->_fnum == key) : r == ps.end();
				if (!ok || ft.has(key) != (member >= 0) || ft.getPos(key) != (member >= 0 ? key + 1 : 0))
					REPORT("{\"table\":\"Presence(hash array)\",\"mask\":%u,\"key\":%u,\"expected_index\":%d,\"found_index\":%ld,\"has\":%d}", mask, key, member,
						r == ps.end() ? -1L : (long)(r - ps.begin()), (int)ft.has(key));
			}
		}
		free(raw);
	}
	return bad;
}

// ---------------------------------------------------------------- insertable set against std::set
static void pset_seq(const std::vector<int>& ops, size_t reserve)
{
	Presence ps(size_t(0), reserve);
	std::set<unsigned short> model;
	for (size_t step = 0; step < ops.size(); ++step)
	{
		const int op = ops[step];
		if (op == 0)
		{
			ps.clear(); model.clear();
		}
		else
		{
			const unsigned short tag = (unsigned short)(op * 7);
			FieldTrait what(tag, FieldTrait::ft_int, (unsigned short)op);
			const bool fresh = model.insert(tag).second;
			Presence::result r(ps.insert(&what));
			if (r.second != fresh)
				REPORT("{\"set\":\"Presence\",\"reserve\":%zu,\"step\":%zu,\"insert\":%u,\"inserted\":%d,\"expected\":%d}", reserve, step, tag, (int)r.second, (int)fresh);
			if (r.second && (r.first->_fnum != tag || r.first->_pos != op))	// dereference: ASan traps a dangling iterator
				REPORT("{\"set\":\"Presence\",\"reserve\":%zu,\"step\":%zu,\"insert\":%u,\"returned_iterator_tag\":%u}", reserve, step, tag, r.first->_fnum);
		}
		// compare content
		if (ps.size() != model.size())
			REPORT("{\"set\":\"Presence\",\"reserve\":%zu,\"step\":%zu,\"size\":%zu,\"expected_size\":%zu}", reserve, step, ps.size(), model.size());
		size_t i = 0;
		for (unsigned short t : model)
		{
			if (i < ps.size() && ps.at(i)->_fnum != t)
				REPORT("{\"set\":\"Presence\",\"reserve\":%zu,\"step\":%zu,\"index\":%zu,\"tag\":%u,\"expected_tag\":%u}", reserve, step, i, ps.at(i)->_fnum, t);
			++i;
		}
		for (unsigned short t = 0; t < 40; ++t)
		{
			const bool in = model.count(t) != 0;
			Presence::const_iterator r(static_cast<const Presence&>(ps).find(t));
			if ((r != static_cast<const Presence&>(ps).end()) != in || (in && r->_fnum != t))
				REPORT("{\"set\":\"Presence\",\"reserve\":%zu,\"step\":%zu,\"find\":%u,\"hit\":%d,\"expected\":%d}", reserve, step, t, (int)(r != static_cast<const Presence&>(ps).end()), (int)in);
		}
	}
}

static int search_pset()
{
	for (size_t reserve : { size_t(1), size_t(2), size_t(30) })
		for (int len = 1; len <= 6; ++len)
		{
			std::vector<int> ops(len, 0);
			for (;;)
			{
				pset_seq(ops, reserve);
				int k = 0;
				while (k < len && ++ops[k] == 6) ops[k++] = 0;
				if (k == len) break;
			}
		}
	return bad;
}

// ---------------------------------------------------------------- F8MetaCntx::find_be
struct DummyMsg { DummyMsg(bool) {} };	// never instantiated: the creators are only stored
static int search_findbe()
{
	static const MsgTable::Pair msgs[] { { "header", { Minst(Type2Type<DummyMsg, bool>()), "header", nullptr } },
		{ "trailer", { Minst(Type2Type<DummyMsg, bool>()), "trailer", nullptr } } };
	static const MsgTable bme(msgs, 2);
	static const char *cn[] { "" };
	for (unsigned mask = 1; mask < (1u << 8); ++mask)
	{
		std::vector<unsigned> keys;
		for (unsigned b = 0; b < 8; ++b) if (mask & (1u << b)) keys.push_back(b * 2 + 1);
		FieldTable::Pair *raw = (FieldTable::Pair *)calloc(keys.size(), sizeof(FieldTable::Pair));
		for (size_t i = 0; i < keys.size(); ++i) { *const_cast<unsigned *>(&raw[i]._key) = keys[i]; const_cast<const char *&>(raw[i]._value._name) = "f"; }
		{
			const FieldTable be(raw, keys.size());
			const F8MetaCntx ctx(4200, bme, be, cn, "FIX.4.2");
			for (unsigned short tag = 0; tag < 20; ++tag)
			{
				int member = -1;
				for (size_t i = 0; i < keys.size(); ++i) if (keys[i] == tag) member = (int)i;
				const BaseEntry *r(ctx.find_be(tag));
				if (r != (member >= 0 ? &raw[member]._value : nullptr))
					REPORT("{\"table\":\"F8MetaCntx::find_be\",\"mask\":%u,\"tag\":%u,\"expected_index\":%d,\"null\":%d}", mask, tag, member, r == nullptr);
			}
		}
		free(raw);
	}
	return bad;
}

int main(int argc, char **argv)
{
	const std::string which(argc > 2 ? argv[2] : "all");
	if (which == "gt" || which == "all") search_gt();
	if (which == "ftha" || which == "all") search_ftha();
	if (which == "pset" || which == "all") search_pset();
	if (which == "findbe" || which == "all") search_findbe();
	printf("{\"class\":\"%s\",\"mismatches\":%d}\n", which.c_str(), bad);
	return bad ? 1 : 0;
}
