// native replay / contract-checking harness for Message::calc_chksum (real header, ASan+UBSan)
// usage: k_chk <sz> <offset> <len> [seed]   -- or: k_chk search
#include <fix8/f8includes.hpp>
#include <cstdio>
#include <cstdlib>
#include <cstring>
static unsigned naive(const unsigned char *p, size_t n) { unsigned s = 0; for (size_t i = 0; i < n; ++i) s += p[i]; return s & 0xff; }
static int one(size_t sz, unsigned offset, int len, unsigned seed, bool quiet)
{
	const size_t n = len != -1 ? (size_t)len : sz - offset;
	// buffer of exactly the bytes the property allows to be read; ASan traps any read outside
	unsigned char *buf = (unsigned char *)malloc(offset + n ? offset + n : 1);
	srand(seed);
	for (size_t i = 0; i < offset + n; ++i) buf[i] = (i % 7 == 0) ? 0xff : (unsigned char)rand();
	const unsigned got = FIX8::Message::calc_chksum((const char *)buf, sz, offset, len);
	const unsigned want = naive(buf + offset, n);
	if (!quiet || got != want)
		printf("{\"sz\":%zu,\"offset\":%u,\"len\":%d,\"seed\":%u,\"got\":%u,\"want\":%u,\"mismatch\":%s}\n", sz, offset, len, seed, got, want, got != want ? "true" : "false");
	free(buf);
	return got != want;
}
int main(int argc, char **argv)
{
	if (argc >= 2 && !strcmp(argv[1], "search"))
	{
		int bad = 0;
		for (size_t sz = 0; sz <= 600 && !bad; ++sz)
			for (unsigned off = 0; off <= sz && off <= 9 && !bad; ++off)
			{
				bad |= one(sz, off, -1, (unsigned)sz * 31 + off, true);
				for (int len = 0; (size_t)off + len <= sz && !bad; len += (len < 20 ? 1 : 37))
					bad |= one(sz, off, len, (unsigned)sz * 17 + off + len, true);
			}
		printf("{\"search_done\":true,\"mismatch\":%s}\n", bad ? "true" : "false");
		return bad;
	}
	if (argc < 4) return 2;
	return one(strtoul(argv[1], 0, 10), (unsigned)strtoul(argv[2], 0, 10), atoi(argv[3]), argc > 4 ? atoi(argv[4]) : 1, false);
}
