// native replay / contract-checking harness for Message::calc_chksum (real header, ASan+UBSan)
// usage: k_chk <sz> <offset> <len> [seed]   -- or: k_chk search
#include <fix8/f8includes.hpp>
#include <cstdio>
#include <cstdlib>
#include <cstring>
static unsigned naive(const unsigned char *p, size_t n) { unsigned s = 0; for (size_t i = 0; i < n; ++i) s += p[i]; return s & 0xff; }
static int fill_mode = 0;	// 0 = seeded pseudo-random with 0xff every 7th byte, otherwise every byte = fill_mode - 1
static int one(size_t sz, unsigned offset, int len, unsigned seed, bool quiet)
{
	const size_t n = len != -1 ? (size_t)len : sz - offset;
	// buffer of exactly the bytes the property allows to be read; ASan traps any read outside
	unsigned char *buf = (unsigned char *)malloc(offset + n ? offset + n : 1);
	srand(seed);
	for (size_t i = 0; i < offset + n; ++i) buf[i] = fill_mode ? (unsigned char)(fill_mode - 1) : (i % 7 == 0) ? 0xff : (unsigned char)rand();
	const unsigned got = FIX8::Message::calc_chksum((const char *)buf, sz, offset, len);
	const unsigned want = naive(buf + offset, n);
	if (!quiet || got != want)
		printf("{\"sz\":%zu,\"offset\":%u,\"len\":%d,\"seed\":%u,\"got\":%u,\"want\":%u,\"mismatch\":%s}\n", sz, offset, len, seed, got, want, got != want ? "true" : "false");
	free(buf);
	return got != want;
}
// the std::string overload: calc_chksum(str, offset, len) == byte sum of [offset, offset+n) of str
static int one_str(size_t sz, unsigned offset, int len, bool quiet)
{
	std::string str(sz, ' ');
	for (size_t i = 0; i < sz; ++i) str[i] = (char)(i * 37 + 11);
	const size_t n = len != -1 ? (size_t)len : sz - offset;
	const unsigned got = FIX8::Message::calc_chksum(str, offset, len);
	const unsigned want = naive((const unsigned char *)str.data() + offset, n);
	if (!quiet || got != want)
		printf("{\"overload\":\"f8String\",\"size\":%zu,\"offset\":%u,\"len\":%d,\"got\":%u,\"want\":%u,\"mismatch\":%s}\n", sz, offset, len, got, want, got != want ? "true" : "false");
	return got != want;
}
int main(int argc, char **argv)
{
	if (argc >= 2 && !strcmp(argv[1], "search"))
	{
		int bad = 0;
		for (size_t sz = 0; sz <= 600 && !bad; ++sz)
			for (unsigned off = 0; off <= sz && off <= 9 && !bad; ++off)
			{
				bad |= one(sz, off, -1, (unsigned)sz * 31 + off, true);
				for (int len = 0; (size_t)off + len <= sz && !bad; len += (len < 20 ? 1 : 37))
					bad |= one(sz, off, len, (unsigned)sz * 17 + off + len, true);
			}
		for (size_t sz = 0; sz <= 300 && !bad; sz += (sz < 40 ? 1 : 13))
			for (unsigned off = 0; off <= sz / 2 && off <= 12 && !bad; ++off)	// off <= sz/2: a wrong length must not take the scan out of the string
			{
				bad |= one_str(sz, off, -1, true);
				if (off + 3 <= sz) bad |= one_str(sz, off, 3, true);
			}
		// carry-lane stress: constant fills (0xff saturates every lane carry) on long buffers, where the 256-byte flush bookkeeping matters
		for (int fm : { 0x100, 0xff, 0x81, 0x80 })
		{
			fill_mode = fm;
			for (size_t sz = 248; sz <= 4200 && !bad; sz += (sz < 1100 ? 1 : 13))
				for (unsigned off = 0; off <= 3 && !bad; ++off)
					bad |= one(sz, off, -1, 1, true);
		}
		fill_mode = 0;
		printf("{\"search_done\":true,\"mismatch\":%s}\n", bad ? "true" : "false");
		return bad;
	}
	if (argc < 4) return 2;
	return one(strtoul(argv[1], 0, 10), (unsigned)strtoul(argv[2], 0, 10), atoi(argv[3]), argc > 4 ? atoi(argv[4]) : 1, false);
}
