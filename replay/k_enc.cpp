// native replay / contract-checking harness for C02's assembly step: the real Message::encode (runtime/message.cpp compiled from the working tree)
// on generated FIX42 test classes (the repository's built libutest / libfix8 supply the generated classes and the rest of the runtime)
// usage: k_enc search
//   NewOrderSingle with Text lengths 1..1200 (body lengths sweep through 10, 100, 1000) with and without a signed trailer (93/89):
//   starts 8=|9=|35=, BodyLength = bytes between the BodyLength field and the CheckSum field, CheckSum = byte sum mod 256 as 3 digits
#include <fix8/f8includes.hpp>
#include "utest_types.hpp"
#include "utest_router.hpp"
#include "utest_classes.hpp"
#include <cstdio>
#include <string>
using namespace FIX8;
using namespace FIX8::UTEST;
static std::string check_wire(const std::string& s)
{
	const char SOH('\001');
	const std::string bs("8=FIX.4.2\001");
	if (s.compare(0, bs.size(), bs)) return "does not start with BeginString";
	size_t p(bs.size());
	if (s.compare(p, 2, "9=")) return "second field is not BodyLength";
	p += 2;
	size_t q(s.find(SOH, p));
	if (q == std::string::npos || q == p) return "unterminated BodyLength";
	unsigned long bl(0);
	for (size_t i(p); i < q; ++i) { if (s[i] < '0' || s[i] > '9') return "BodyLength not decimal"; bl = bl * 10 + (s[i] - '0'); }
	const size_t body_start(q + 1);
	if (s.compare(body_start, 3, "35=")) return "third field is not MsgType";
	if (s.size() < 7 || s.compare(s.size() - 7, 3, "10=") || s[s.size() - 1] != SOH || s[s.size() - 8] != SOH) return "does not end with 10=nnn<SOH>";
	const size_t cks_start(s.size() - 7);
	if (cks_start - body_start != bl) return "BodyLength " + std::to_string(bl) + " != actual " + std::to_string(cks_start - body_start);
	unsigned sum(0);
	for (size_t i(0); i < cks_start; ++i) sum += static_cast<unsigned char>(s[i]);
	char exp[8]; snprintf(exp, sizeof(exp), "%03u", sum % 256);
	if (s.compare(cks_start + 3, 3, exp)) return "CheckSum " + s.substr(cks_start + 3, 3) + " != actual " + exp;
	return std::string();
}
int main()
{
	int bad(0);
	for (int sig = 0; sig < 2; ++sig)
		for (unsigned tl(1); tl <= 1200; tl += (tl < 260 ? 1 : 7))
		{
			NewOrderSingle nos;
			*nos.Header() << new msg_seq_num(78) << new sender_comp_id("A12345B") << new sending_time("20130305-02:19:46.108") << new target_comp_id("COMPARO");
			nos << new ClOrdID("4") << new Symbol("OC") << new Side('1') << new OrdType('2') << new Text(std::string(tl, 'x'));
			if (sig) *nos.Trailer() << new SignatureLength(4) << new Signature("abcd");
			f8String out;
			nos.encode(out);
			const std::string why(check_wire(out));
			if (!why.empty())
			{
				if (bad < 5) { std::string pr(out.substr(0, 36)); for (auto& c : pr) if (c == '\001') c = '|'; printf("{\"text_len\":%u,\"signed_trailer\":%d,\"malformed\":\"%s\",\"starts\":\"%s\"}\n", tl, sig, why.c_str(), pr.c_str()); }
				++bad;
			}
		}
	printf("{\"search_done\":true,\"mismatches\":%d}\n", bad);
	return bad ? 1 : 0;
}
