// native replay for C28 (sequence numbers / buffered flush): real FileLogger (runtime/logger.cpp compiled from the working tree)
// usage: k_logseq [sequence|flush] <scratch dir>
//   sequence: a logger that numbers its lines and does not separate directions gets lines with val 0 and 1: the numbers in the file must be 1..n
//   flush:    a buffering logger gets n lines, is stopped, then flushed twice: every line must be in the file exactly once, in order
#include <precomp.hpp>
#include <fix8/f8includes.hpp>
#include <cstdio>
#include <fstream>
#include <unistd.h>
using namespace FIX8;
int main(int argc, char **argv)
{
	const std::string which(argc > 1 ? argv[1] : "sequence"), dir(argc > 2 ? argv[2] : ".");
	const int n = 20; int bad = 0;
	const std::string path(dir + "/seq_" + which + ".log"); unlink(path.c_str());
	{
		Logger::LogFlags flags; flags << Logger::sequence;
		if (which == "flush") flags << Logger::buffer;
		FileLogger fl(path, flags, Logger::Levels(Logger::All));
		for (int i = 0; i < n; ++i)
			while (!fl.send("line " + std::to_string(i), Logger::Info, nullptr, i % 2)) usleep(100);
		fl.stop();
		if (which == "flush") { fl.flush(); fl.flush(); }
	}
	std::ifstream in(path); std::string l; int lines = 0;
	while (std::getline(in, l))
	{
		const int num = atoi(l.c_str());
		const bool text_ok = l.find("line " + std::to_string(lines)) != std::string::npos && l.find("line " + std::to_string(lines) + "0") == std::string::npos;
		if (num != lines + 1 || !text_ok)
		{
			if (bad < 5) printf("{\"scenario\":\"%s\",\"line_in_file\":%d,\"expected_number\":%d,\"number_written\":%d,\"expected_text\":\"line %d\",\"text\":\"%s\"}\n", which.c_str(), lines, lines + 1, num, lines, l.c_str());
			++bad;
		}
		++lines;
	}
	if (lines != n) { printf("{\"scenario\":\"%s\",\"submitted\":%d,\"lines_in_file\":%d}\n", which.c_str(), n, lines); ++bad; }
	printf("{\"search_done\":true,\"scenario\":\"%s\",\"mismatches\":%d}\n", which.c_str(), bad);
	return bad ? 1 : 0;
}
