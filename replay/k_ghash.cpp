// native replay for C14: the real rothash (include/fix8/f8utils.hpp) folded over two member lists exactly as group_hash does (ascending field number, no nested groups)
// usage: k_ghash a0 a1 b0 b1   -> exit 1 when the two different definitions get the same key
#include <fix8/f8config.h>
#include <fix8/f8includes.hpp>
#include <cstdio>
#include <cstdlib>
using namespace FIX8;
int main(int argc, char **argv)
{
	if (argc < 5) return 2;
	unsigned a[2] = { (unsigned)atoi(argv[1]), (unsigned)atoi(argv[2]) }, b[2] = { (unsigned)atoi(argv[3]), (unsigned)atoi(argv[4]) };
	unsigned ha = 0, hb = 0;
	for (unsigned v : a) ha = rothash(ha, v);
	for (unsigned v : b) hb = rothash(hb, v);
	printf("{\"members_1\":[%u,%u],\"key_1\":\"0x%08x\",\"members_2\":[%u,%u],\"key_2\":\"0x%08x\"}\n", a[0], a[1], ha, b[0], b[1], hb);
	return ha == hb && (a[0] != b[0] || a[1] != b[1]) ? 1 : 0;
}
