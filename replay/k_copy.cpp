// native replay for C11: the real Message::factory / Message::clone / Message::encode on generated FIX42 test classes (runtime/message.cpp compiled from the working tree)
// a decoded NewOrderSingle whose body fields arrive in an order that is not the schema's, cloned and re-encoded; and a message built through the API
#include <fix8/f8includes.hpp>
#include "utest_types.hpp"
#include "utest_router.hpp"
#include "utest_classes.hpp"
#include <cstdio>
#include <unistd.h>
using namespace FIX8; using namespace FIX8::UTEST;
static std::string frame(const std::string& msgtype, const std::string& rest)
{
	const std::string body("35=" + msgtype + "\001" + rest);
	std::string s("8=FIX.4.2\0019=" + std::to_string(body.size()) + "\001" + body);
	unsigned sum(0); for (unsigned char c : s) sum += c;
	char cks[16]; snprintf(cks, sizeof(cks), "10=%03u\001", sum % 256);
	return s + cks;
}
static std::string show(std::string s) { for (auto& c : s) if (c == 1) c = '|'; return s; }
int main()
{
	const std::string hdr("49=A\00156=B\00134=7\00152=20240101-00:00:00.000\001");
	// body fields in an order that is not the schema's (all legal, all mandatory ones present)
	const std::string body("55=OC\00111=ord1\00154=1\00121=1\00140=2\00160=20240101-00:00:00.000\00138=50\00144=400.5\001");
	int rc = 0;
	try {
		std::unique_ptr<Message> m(Message::factory(ctx(), frame("D", hdr + body), false, false));
		std::unique_ptr<Message> c(m->clone());
		f8String a, b; m->encode(a); c->encode(b);
		printf("original : %s\nclone    : %s\nequal=%d\n", show(a).c_str(), show(b).c_str(), (int)(a == b));
		rc = a == b ? 0 : 1;
		// a built (not decoded) message
		NewOrderSingle *n = new NewOrderSingle;
		*n << new Symbol("OC") << new ClOrdID("x") << new Side('1') << new HandlInst('1') << new OrdType('2') << new TransactTime << new OrderQty(50) << new Price(400.5);
		*n->Header() << new msg_seq_num(1) << new sender_comp_id("A") << new target_comp_id("B") << new sending_time;
		std::unique_ptr<Message> c2(n->clone()); f8String x, y; n->encode(x); c2->encode(y);
		printf("built equal=%d\n", (int)(x == y)); if (x != y) { printf("%s\n%s\n", show(x).c_str(), show(y).c_str()); rc |= 2; }
	} catch (std::exception& e) { printf("throw %s\n", e.what()); rc = 3; }
	fflush(stdout); _exit(rc);
}
