// native replay for the tokeniser call sites (C03): the real MessageBase::extract_header / extract_element / extract_element_fixed_width
// (runtime/message.cpp compiled from the working tree, ASan: the stack buffers are instrumented)
// usage: k_tok header_tag | header_val | tok
#include <fix8/f8includes.hpp>
#include <cstdio>
#include <cstring>
#include <string>
using namespace FIX8;
struct Probe : MessageBase { using MessageBase::extract_header; using MessageBase::extract_element; using MessageBase::extract_element_fixed_width; };
int main(int argc, char **argv)
{
	const std::string which(argc > 1 ? argv[1] : "");
	char len[MAX_MSGTYPE_FIELD_LEN], mtype[MAX_MSGTYPE_FIELD_LEN];
	if (which == "header_tag")
	{
		// first field with 40 tag digits: extract_header copies them into char tag[MAX_MSGTYPE_FIELD_LEN = 32]
		const std::string in(std::string(40, '8') + "=FIX.4.2\0019=12\00135=0\001");
		printf("{\"input\":\"40 digits then =FIX.4.2|9=12|35=0|\",\"length\":%zu}\n", in.size()); fflush(stdout);
		Probe::extract_header(in, len, mtype);
		printf("{\"returned\":true}\n");
		return 0;
	}
	if (which == "header_val")
	{
		// BodyLength value of 100 characters: copied into the caller's char len[32]
		const std::string in("8=FIX.4.2\0019=" + std::string(100, '1') + "\00135=0\001");
		printf("{\"input\":\"8=FIX.4.2|9=<100 digits>|35=0|\",\"length\":%zu}\n", in.size()); fflush(stdout);
		Probe::extract_header(in, len, mtype);
		printf("{\"returned\":true}\n");
		return 0;
	}
	if (which == "tok")
	{
		// contract check of the tokenisers on inputs that fit: every split of short token strings
		int bad = 0;
		const char *cases[] { "35=D\001", "8=FIX.4.2\0019=5\001", "=x\001", "12", "12=", "12=ab", "1a=b\001", "\001", "" };
		for (const char *c : cases)
		{
			const unsigned sz = (unsigned)strlen(c);
			char *from = (char *)malloc(sz ? sz : 1), *tag = (char *)malloc(sz + 1), *val = (char *)malloc(sz + 1);	// exactly the contract's sizes
			memcpy(from, c, sz);
			const unsigned r = Probe::extract_element(from, sz, tag, val);
			if (r > sz || (r && from[r - 1] != 1)) { printf("{\"input\":\"%s\",\"returned\":%u,\"size\":%u}\n", c, r, sz); ++bad; }
			free(from); free(tag); free(val);
		}
		// fixed width: data containing SOH and '=' survives, consumption = tag + 1 + n + 1
		const char data[] = "96=a\001b=c\001next";
		char *tag = (char *)malloc(sizeof(data)), *val = (char *)malloc(6);
		const unsigned r = Probe::extract_element_fixed_width(data, (unsigned)sizeof(data) - 1, 5, tag, val);
		if (r != 9 || memcmp(val, "a\001b=c", 5) || val[5] != 0) { printf("{\"fixed_width\":\"96=a|b=c|next\",\"returned\":%u}\n", r); ++bad; }
		free(tag); free(val);
		printf("{\"search_done\":true,\"mismatches\":%d}\n", bad);
		return bad ? 1 : 0;
	}
	return 2;
}
