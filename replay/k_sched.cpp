// native replay / contract-checking harness for Schedule::test (real header) under a virtual clock (clock_gettime interposed, checked effective)
// usage: k_sched search daily|forward|forward_late_end|same_day|wrap
//   the schedule is checked every 30 s over three weeks, for several utc offsets; the state carried from check to check must equal the
//   specification (active exactly inside the window) at every check -- the history form of the one-step lemma proved by CBMC
#include <time.h>
#include <cstdio>
#include <string>
#include <fix8/f8includes.hpp>
static long long g_virtual_ns = 0;
extern "C" int clock_gettime(clockid_t, struct timespec *ts) noexcept { ts->tv_sec = g_virtual_ns / 1000000000LL; ts->tv_nsec = g_virtual_ns % 1000000000LL; return 0; }
using namespace FIX8;
static bool spec(long long t, long long start, long long end, int off, int sd, int ed)
{
	const long long local = t + off * Tickval::minute, tod = local % Tickval::day, wd = (local / Tickval::day + 4) % 7;
	if (sd < 0) return start <= tod && tod <= end;
	const long long p = wd * Tickval::day + tod, S = sd * Tickval::day + start, E = ed * Tickval::day + end;
	return S <= E ? (S <= p && p <= E) : (p >= S || p <= E);
}
int main(int argc, char **argv)
{
	if (argc < 3) return 2;
	const std::string which(argv[2]);
	g_virtual_ns = 1704499200LL * 1000000000LL;
	if (Tickval(true).get_ticks() != g_virtual_ns) { printf("{\"virtual_clock_effective\":false}\n"); return 2; }
	const long long base(1704499200LL * 1000000000LL);	// Sat 2024-01-06 00:00:00 UTC
	int bad = 0;
	struct W { int sd, ed; long long start, end; };
	std::vector<W> ws;
	const long long H = Tickval::hour;
	if (which == "daily") ws = { { -1, -1, 9 * H, 17 * H }, { -1, -1, 0, 1 * H }, { -1, -1, 22 * H, 23 * H + 30 * Tickval::minute } };
	if (which == "forward") ws = { { 1, 5, 9 * H, 17 * H }, { 0, 4, 9 * H, 17 * H }, { 2, 3, 1 * H, 2 * H }, { 0, 6, 8 * H, 20 * H } };
	if (which == "forward_late_end") ws = { { 1, 5, 9 * H, 24 * H - 20 * Tickval::second }, { 2, 6, 9 * H, 24 * H - 20 * Tickval::second } };
	if (which == "same_day") ws = { { 3, 3, 9 * H, 17 * H }, { 0, 0, 1 * H, 2 * H } };
	if (which == "wrap") ws = { { 5, 1, 9 * H, 17 * H }, { 6, 0, 9 * H, 17 * H }, { 4, 2, 20 * H, 21 * H } };
	for (const W& w : ws)
		for (int off : { 0, 600, -300, 330, -720, 840 })
		{
			const Schedule sch(Tickval(static_cast<Tickval::ticks>(w.start)), Tickval(static_cast<Tickval::ticks>(w.end)), Tickval(), off, w.sd, w.ed);
			// start the history outside every window so that "previous state was right" holds initially
			long long t0 = base;
			while (spec(t0, w.start, w.end, off, w.sd, w.ed)) t0 += Tickval::hour;
			bool state = false;
			for (long long k = 0; k < 3LL * 7 * 24 * 120; ++k)
			{
				const long long t = t0 + k * 30 * Tickval::second;
				g_virtual_ns = t;
				state = sch.test(state);
				const bool want = spec(t, w.start, w.end, off, w.sd, w.ed);
				if (state != want)
				{
					if (bad < 5)
						printf("{\"class\":\"%s\",\"start_day\":%d,\"end_day\":%d,\"start_s\":%lld,\"end_s\":%lld,\"utc_offset_mins\":%d,\"utc_instant_s\":%lld,\"active\":%d,\"expected\":%d}\n",
							which.c_str(), w.sd, w.ed, w.start / Tickval::second, w.end / Tickval::second, off, t / Tickval::second, (int)state, (int)want);
					++bad;
					state = want;	// resynchronise: report each divergence once
				}
			}
		}
	printf("{\"search_done\":true,\"class\":\"%s\",\"mismatches\":%d}\n", which.c_str(), bad);
	return bad ? 1 : 0;
}
