// native replay / contract-checking harness for itoa<int|unsigned> and fast_atoi<int|unsigned|unsigned short>
// (real header, ASan+UBSan).  usage: k_int one <int value> | k_int uone <unsigned value> | k_int search
#include <fix8/f8includes.hpp>
#include <cstdio>
#include <cstdlib>
#include <cstring>
#include <climits>
template<typename T> static int one(T x, bool quiet)
{
	// buffer of exactly the 12 bytes the contract grants; ASan traps any write outside
	char *buf = (char *)malloc(12), want[16];
	memset(buf, 0x7f, 12);
	const size_t n = FIX8::itoa<T>(x, buf, 10);
	snprintf(want, sizeof(want), T(-1) < T(0) ? "%lld" : "%llu", (long long)x);
	const bool text_ok = n == strlen(want) && n < 12 && buf[n] == 0 && !strcmp(buf, want);
	const T back = text_ok ? FIX8::fast_atoi<T>(buf) : FIX8::fast_atoi<T>(want);
	const bool bad = !text_ok || back != x;
	if (!quiet || bad)
		printf("{\"value\":%lld,\"text\":\"%.11s\",\"len\":%zu,\"want\":\"%s\",\"parsed\":%lld,\"mismatch\":%s}\n", (long long)x, buf, n, want,
			(long long)back, bad ? "true" : "false");
	free(buf);
	return bad;
}
int main(int argc, char **argv)
{
	if (argc >= 3 && !strcmp(argv[1], "one")) return one<int>((int)strtoll(argv[2], 0, 10), false);
	if (argc >= 3 && !strcmp(argv[1], "uone")) return one<unsigned>((unsigned)strtoull(argv[2], 0, 10), false);
	if (argc >= 2 && !strcmp(argv[1], "search"))
	{
		int bad = 0;
		// every power-of-ten and power-of-two neighbourhood, the extremes, and a stride over the whole domain
		for (long long p = 1; p <= 10000000000LL && !bad; p *= 10)
			for (long long d = -2; d <= 2 && !bad; ++d)
			{
				const long long v = p + d;
				if (v <= INT_MAX) bad |= one<int>((int)v, true), bad |= one<int>((int)-v, true);
				if (v <= UINT_MAX) bad |= one<unsigned>((unsigned)v, true);
			}
		for (int s = 0; s < 32 && !bad; ++s)
			for (long long d = -1; d <= 1 && !bad; ++d)
			{
				const long long v = (1LL << s) + d;
				if (v <= INT_MAX) bad |= one<int>((int)v, true), bad |= one<int>((int)(-v), true);
				bad |= one<unsigned>((unsigned)v, true);
			}
		bad |= one<int>(INT_MIN, true) | one<int>(INT_MAX, true) | one<int>(0, true) | one<unsigned>(UINT_MAX, true);
		// the last 40 values at each end of both domains (overflow guards live there) and around max/10
		for (long long d = 0; d < 40 && !bad; ++d)
		{
			bad |= one<int>((int)(INT_MAX - d), true) | one<int>((int)(INT_MIN + d), true) | one<unsigned>((unsigned)(UINT_MAX - d), true);
			bad |= one<int>((int)(INT_MAX / 10 - 20 + d), true) | one<int>((int)(INT_MIN / 10 - 20 + d), true) | one<unsigned>((unsigned)(UINT_MAX / 10 - 20 + d), true);
		}
		for (long long v = INT_MIN; v <= INT_MAX && !bad; v += 9973) bad |= one<int>((int)v, true);
		for (unsigned long long v = 0; v <= UINT_MAX && !bad; v += 9973) bad |= one<unsigned>((unsigned)v, true);
		printf("{\"search_done\":true,\"mismatch\":%s}\n", bad ? "true" : "false");
		return bad;
	}
	return 2;
}
